"""Shared behaviour probe for the Sampler codec (property C16).

Run from the repository root:
    PYTHONPATH=<root>/src/python python check.py [--print]

`--print` prints the digests observed on the current tree instead of
comparing them with the recorded ones.
"""
import hashlib
import logging
import os
import random
import struct
import sys
from io import BytesIO

from rv.api import NOTE, Synth, m, read_sunvox_file
from rv.chunks.chunk import Chunk
from rv.lib.iff import chunks as iff_chunks
from rv.lib.iff import write_chunk
from rv.modules import sampler as sampler_module
from rv.modules.sampler import Sampler

logging.disable(logging.CRITICAL)

ENV_NAMES = ("volume_envelope", "panning_envelope", "pitch_envelope")
SCALARS = (
    "instrument_name version max_version unused1 unused2 unused3 unused4 unused5 "
    "unused6 volume_old ins_finetune ins_relative_note editor_cursor "
    "editor_selected_size vibrato_type vibrato_attack vibrato_depth vibrato_rate "
    "volume_fadeout volume panning sample_interpolation envelope_interpolation "
    "polyphony rec_threshold tick_length record start_recording_on_project_play "
    "record_in_mono record_with_reduced_sample_rate record_in_16_bit "
    "stop_recording_on_project_stop ignore_velocity_for_volume "
    "increased_freq_computation_accuracy fit_to_pattern"
).split()
SAMPLE_FIELDS = (
    "data format channels rate loop_start loop_len loop_type loop_sustain volume "
    "finetune panning relative_note reserved2 name start_pos frames frame_size"
).split()
ENV_FIELDS = (
    "chnm points sustain_point loop_start_point loop_end_point enable sustain loop "
    "ctl_index gain_pct velocity bitmask"
).split()


def envelopes(s):
    return [getattr(s, n) for n in ENV_NAMES] + list(s.effect_control_envelopes)


def state(s, with_loaded=False):
    out = {"scalars": [(n, getattr(s, n)) for n in SCALARS]}
    out["samples"] = [
        None if smp is None else [(f, getattr(smp, f)) for f in SAMPLE_FIELDS]
        for smp in s.samples
    ]
    out["envelopes"] = [
        [(f, getattr(e, f)) for f in ENV_FIELDS]
        + ([("loaded", e.loaded)] if with_loaded else [])
        for e in envelopes(s)
    ]
    out["note_samples"] = list(s.note_samples.items())
    out["effect"] = None if s.effect is None else s.effect.read()
    out["legacy"] = (s.is_legacy, s.legacy_chunks is None)
    return out


def digest(*objs):
    h = hashlib.sha256()
    for o in objs:
        h.update(repr(o).encode() if not isinstance(o, bytes) else o)
        h.update(b"|")
    return h.hexdigest()[:24]


def random_sample(rnd, nframes=None):
    smp = Sampler.Sample()
    smp.format = rnd.choice(list(Sampler.Format))
    smp.channels = rnd.choice(list(Sampler.Channels))
    if nframes is None:
        nframes = rnd.choice([0, 1, 2, 7, 33])
    smp.data = bytes(rnd.randrange(256) for _ in range(smp.frame_size * nframes))
    smp.loop_start = rnd.choice([0, 1, 2**32 - 1, rnd.randrange(2**32)])
    smp.loop_len = rnd.choice([0, 2**32 - 1, rnd.randrange(2**32)])
    smp.volume = rnd.choice([0, 64, 255, rnd.randrange(256)])
    smp.finetune = rnd.choice([-128, 127, 0, rnd.randint(-128, 127)])
    smp.rate = rnd.choice([0, 44100, 2**32 - 1, rnd.randrange(2**32)])
    smp.loop_type = rnd.choice(list(Sampler.LoopType))
    smp.loop_sustain = rnd.choice([True, False])
    smp.panning = rnd.choice([-128, 127, 0, rnd.randint(-128, 127)])
    smp.relative_note = rnd.choice([-128, 127, rnd.randint(-128, 127)])
    smp.reserved2 = rnd.randrange(256)
    smp.name = bytes(rnd.randrange(1, 256) for _ in range(rnd.choice([0, 1, 21, 22])))
    smp.start_pos = rnd.choice([0, 2**32 - 1, rnd.randrange(2**32)])
    return smp


def random_envelope(rnd, env, narrow):
    """narrow: volume/panning envelopes also live in 8-bit legacy fields."""
    top = 255 if narrow else 65535
    npoints = rnd.choice([0, 1, 2, 11, 12, 13, 40]) if narrow else rnd.choice(
        [0, 1, 5, 12, 13, 300]
    )
    lo = env.range[0]
    xs = sorted(rnd.choice([0, 65535, rnd.randrange(65536)]) for _ in range(npoints))
    env.points = [
        (x, lo + rnd.choice([0, 65535, 0x1FF, 0x200, rnd.randrange(65536)])) for x in xs
    ]
    env.sustain_point = rnd.choice([0, top, rnd.randint(0, top)])
    env.loop_start_point = rnd.choice([0, top, rnd.randint(0, top)])
    env.loop_end_point = rnd.choice([0, top, rnd.randint(0, top)])
    env.enable = rnd.choice([True, False])
    env.sustain = rnd.choice([True, False])
    env.loop = rnd.choice([True, False])
    env.ctl_index = rnd.randrange(256)
    env.gain_pct = rnd.randrange(256)
    env.velocity = rnd.randrange(256)


def build(seed):
    rnd = random.Random(seed)
    s = m.Sampler()
    k = rnd.choice([0, 1, 2, 5, 9])
    slots = rnd.sample(range(128), k)
    if seed % 5 == 0 and slots:
        slots[0] = 127
    if seed % 7 == 0 and slots:
        slots[-1] = 0
    for i in slots:
        s.samples[i] = random_sample(rnd)
    for n, e in enumerate(envelopes(s)):
        random_envelope(rnd, e, narrow=n < 2)
    tail_zero = rnd.choice([0, 0, 5, 119])
    for j, note in enumerate(s.note_samples):
        s.note_samples[note] = 0 if j >= 119 - tail_zero else rnd.randrange(256)
    s.vibrato_type = rnd.choice(list(Sampler.VibratoType))
    s.vibrato_attack = rnd.randrange(256)
    s.vibrato_depth = rnd.randrange(256)
    s.vibrato_rate = rnd.randrange(64)
    s.volume_fadeout = rnd.randrange(8193)
    s.instrument_name = bytes(
        rnd.randrange(1, 256) for _ in range(rnd.choice([0, 3, 22]))
    )
    s.unused1 = rnd.randrange(2**32)
    s.unused2 = rnd.randrange(2**16)
    s.unused3 = rnd.randrange(2**16)
    s.unused4 = rnd.randrange(2**32)
    s.unused5 = rnd.randrange(256)
    s.unused6 = rnd.randrange(2**32)
    s.volume_old = rnd.randrange(256)
    s.ins_finetune = rnd.randint(-128, 127)
    s.ins_relative_note = rnd.randint(-128, 127)
    s.editor_cursor = rnd.choice([0, -(2**31), 2**31 - 1, rnd.randint(-9999, 9999)])
    s.editor_selected_size = rnd.choice([0, -(2**31), 2**31 - 1, rnd.randint(0, 9999)])
    s.version = rnd.choice([6, 6, 5, rnd.randrange(2**32)])
    s.max_version = rnd.choice([6, 6, rnd.randrange(2**32)])
    s.volume = rnd.randint(0, 512)
    s.panning = rnd.randint(-128, 128)
    s.polyphony = rnd.randint(1, 32)
    s.record_in_mono = rnd.choice([True, False])
    s.fit_to_pattern = rnd.randrange(256)
    if rnd.random() < 0.4:
        inner = rnd.choice([m.Reverb, m.Distortion, m.Sampler])()
        if isinstance(inner, m.Sampler):
            inner.samples[3] = random_sample(rnd, 2)
        s.effect = Synth(inner)
    return s


def read_module(data):
    return read_sunvox_file(BytesIO(data)).module


def file_chunks(data):
    return list(iff_chunks(BytesIO(data)))


def join_chunks(pairs):
    f = BytesIO()
    for name, data in pairs:
        write_chunk(f, name, data)
    return f.getvalue()


def split_sampler_chunks(data):
    """-> (head pairs, [(chnm, [pairs...])...], tail pairs) of a .sunsynth image."""
    pairs = file_chunks(data)
    start = next(i for i, (n, _) in enumerate(pairs) if n == b"CHNK") + 1
    head, groups, tail = pairs[:start], [], []
    for name, payload in pairs[start:]:
        if name == b"SEND":
            tail.append((name, payload))
        elif name == b"CHNM":
            groups.append((struct.unpack("<I", payload)[0], [(name, payload)]))
        else:
            groups[-1][1].append((name, payload))
    return head, groups, tail


def rebuild(head, groups, tail):
    pairs = list(head)
    for _, g in groups:
        pairs.extend(g)
    return join_chunks(pairs + list(tail))


def expect_raises(exc_type, fn, *args, **kw):
    try:
        fn(*args, **kw)
    except exc_type as e:
        if type(e) is not exc_type:
            raise AssertionError(f"expected exactly {exc_type}, got {type(e)}")
        return e
    except Exception as e:  # noqa
        raise AssertionError(f"expected {exc_type}, got {type(e)}: {e}")
    raise AssertionError(f"expected {exc_type}, nothing raised")


class Recorder:
    def __init__(self, golden):
        self.golden = golden
        self.seen = {}
        self.failures = []
        self.printing = "--print" in sys.argv

    def record(self, key, *objs):
        d = digest(*objs)
        self.seen[key] = d
        if not self.printing and self.golden.get(key) != d:
            self.failures.append(f"digest mismatch for {key}: {d} != {self.golden.get(key)}")

    def check(self, cond, msg):
        if not cond:
            self.failures.append(msg)

    def finish(self):
        if self.printing:
            print("GOLDEN = {")
            for k, v in self.seen.items():
                print(f"    {k!r}: {v!r},")
            print("}")
            for f in self.failures:
                print("# FAILED:", f)
            return 0
        missing = set(self.golden) - set(self.seen)
        if missing:
            self.failures.append(f"golden keys never produced: {sorted(missing)}")
        if self.failures:
            print("FAIL")
            for f in self.failures[:40]:
                print("  ", f)
            return 1
        print("PASS")
        return 0


# ---------------------------------------------------------------------------
# generic scenarios shared by all three checks
# ---------------------------------------------------------------------------
def scenario_round_trips(rec, seeds):
    images = []
    for seed in seeds:
        s = build(seed)
        before = state(s)
        data = Synth(s).read()
        images.append(data)
        s2 = read_module(data)
        after = state(s2)
        before["legacy"] = after["legacy"] = None
        rec.check(before == after, f"seed {seed}: state changed across save/load")
        rec.check(s2.is_legacy is False and s2.legacy_chunks is None, f"seed {seed}: legacy flags")
        rec.check(all(e.loaded for e in envelopes(s2)), f"seed {seed}: envelopes loaded")
        data2 = Synth(s2).read()
        rec.check(data2 == data, f"seed {seed}: second save differs")
        s3 = s2.clone()
        rec.check(state(s3) == state(s2), f"seed {seed}: clone differs")
        for i, smp in enumerate(s2.samples):
            if smp is not None:
                rec.check(smp._length == smp.frames, f"seed {seed}: _length of slot {i}")
    rec.record("images", *images)
    return images


def scenario_fixture(rec):
    path = os.path.join("tests", "files", "sampler.sunsynth")
    synth = read_sunvox_file(path)
    mod = synth.module
    rec.record("fixture-state", state(mod, with_loaded=True))
    data = synth.read()
    rec.record("fixture-image", data)
    mod2 = read_module(data)
    rec.check(state(mod2, True) == state(mod, True), "fixture: state changed")
    rec.check(mod2.note_samples[NOTE.G4 - 1] == 1, "fixture: note map")
    rec.check([i for i, x in enumerate(mod2.samples) if x] == [0, 1, 2], "fixture slots")


def outcome(fn, *args):
    try:
        return ("ok", fn(*args))
    except Exception as e:  # noqa
        return ("exc", type(e).__name__)


def load_and_resave(data):
    mod = read_module(data)
    st = state(mod, with_loaded=True)
    again = Synth(mod).read()
    st2 = state(read_module(again), with_loaded=True)
    return st, again, st2


def legacy_variants(data):
    """Yield (label, image) for hand-made legacy / damaged variants of an image."""
    head, groups, tail = split_sampler_chunks(data)
    no_env = [g for g in groups if not 0x102 <= g[0] <= 0x108]
    yield "no-envelopes", rebuild(head, no_env, tail)
    only_vol = [g for g in groups if not 0x103 <= g[0] <= 0x108]
    yield "only-volume-envelope", rebuild(head, only_vol, tail)
    no_vol = [g for g in groups if g[0] != 0x102]
    yield "no-volume-envelope", rebuild(head, no_vol, tail)

    def with_instrument(transform, base=groups):
        out = []
        for chnm, g in base:
            if chnm == 0:
                g = [(n, transform(p) if n == b"CHDT" else p) for n, p in g]
            out.append((chnm, g))
        return rebuild(head, out, tail)

    yield "bad-sign", with_instrument(lambda p: p[:0xFC] + b"XMAS" + p[0x100:])
    yield "zero-sign", with_instrument(lambda p: p[:0xFC] + b"\0\0\0\0" + p[0x100:])
    yield "bad-sign-no-env", with_instrument(
        lambda p: p[:0xFC] + b"PMAZ" + p[0x100:], no_env
    )
    for cut in (0x18F, 0x18C, 0x18A, 0x188, 0x186, 0x184, 0x183, 0x110, 0x104, 0x102, 0x100, 0xFE, 0xFC, 0xF3, 0x24, 3, 0):
        yield f"cut-{cut:x}", with_instrument(lambda p, cut=cut: p[:cut])
        yield f"cut-{cut:x}-no-env", with_instrument(lambda p, cut=cut: p[:cut], no_env)
    yield "long-190", with_instrument(lambda p: p.ljust(0x190, b"\x07"))
    yield "long-191", with_instrument(lambda p: p.ljust(0x191, b"\x07"))
    yield "long-191-no-env", with_instrument(lambda p: p.ljust(0x191, b"\0"), no_env)
    # sample chunk damage
    def with_sample_meta(transform):
        out = []
        for chnm, g in groups:
            if 0 < chnm < 0x101 and chnm % 2 == 1:
                g = [(n, transform(p) if n == b"CHDT" else p) for n, p in g]
            out.append((chnm, g))
        return rebuild(head, out, tail)

    yield "meta-no-start-pos", with_sample_meta(lambda p: p[:40])
    yield "meta-half-start-pos", with_sample_meta(lambda p: p[:42])
    yield "meta-cut-name", with_sample_meta(lambda p: p[:30])
    yield "meta-cut-13", with_sample_meta(lambda p: p[:13])
    yield "meta-empty", with_sample_meta(lambda p: b"")
    yield "meta-short", with_sample_meta(lambda p: p[:20])
    yield "meta-loop3", with_sample_meta(lambda p: p[:14] + bytes([p[14] | 3]) + p[15:])
    yield "meta-fmt3", with_sample_meta(lambda p: p[:14] + bytes([p[14] | 0x30]) + p[15:])
    yield "meta-hibit", with_sample_meta(lambda p: p[:14] + bytes([p[14] | 0x88]) + p[15:])

    def with_sample_data(ff=None, drop=()):
        out = []
        for chnm, g in groups:
            if 0 < chnm < 0x101 and chnm % 2 == 0:
                g = [
                    (n, struct.pack("<I", ff) if (n == b"CHFF" and ff is not None) else p)
                    for n, p in g
                    if n not in drop
                ]
            out.append((chnm, g))
        return rebuild(head, out, tail)

    for ff in (0, 1, 2, 3, 4, 8, 9, 10, 12, 16, 0x18, 0xF4):
        yield f"chff-{ff:x}", with_sample_data(ff)
    yield "no-chff", with_sample_data(drop=(b"CHFF",))
    yield "no-chfr", with_sample_data(drop=(b"CHFR",))
    data_without_meta = [g for g in groups if not (0 < g[0] < 0x101 and g[0] % 2 == 1)]
    yield "data-without-meta", rebuild(head, data_without_meta, tail)

    def with_envelope(transform):
        out = []
        for chnm, g in groups:
            if 0x102 <= chnm <= 0x108:
                g = [(n, transform(p) if n == b"CHDT" else p) for n, p in g]
            out.append((chnm, g))
        return rebuild(head, out, tail)

    yield "env-cut-points", with_envelope(lambda p: p[:-2] if len(p) > 0x14 else p)
    yield "env-cut-header", with_envelope(lambda p: p[:0xF])
    yield "env-extra", with_envelope(lambda p: p + b"\x01\x02\x03")
    yield "env-reserved", with_envelope(lambda p: p[:5] + b"\xaa\xbb\xcc" + p[8:16] + b"\x01\x02\x03\x04" + p[20:])
    yield "env-flags-hi", with_envelope(lambda p: b"\xf8\xff" + p[2:])
    unknown = list(groups) + [(0x109, [(b"CHNM", struct.pack("<I", 0x109)), (b"CHDT", b"zz")]),
                              (0x200, [(b"CHNM", struct.pack("<I", 0x200)), (b"CHDT", b"yy")])]
    yield "unknown-chunks", rebuild(head, unknown, tail)
    dup = list(groups) + [g for g in groups if g[0] == 0]
    yield "instrument-twice", rebuild(head, dup, tail)


def scenario_legacy(rec, images):
    results = []
    for n, data in enumerate(images):
        for label, variant in legacy_variants(data):
            results.append((n, label, outcome(load_and_resave, variant)))
    kinds = {r[2][0] for r in results}
    rec.check(kinds == {"ok", "exc"}, f"legacy scenario should see both outcomes: {kinds}")
    rec.record("legacy", results)
    by_label = {}
    for n, label, res in results:
        by_label.setdefault(label, []).append(res)
    for label in ("bad-sign", "zero-sign", "long-191"):
        for res, data in zip(by_label[label], images):
            rec.check(res[0] == "ok" and res[1][0]["legacy"] == (True, False), f"{label}: legacy flag")
            rec.check(res[0] == "ok" and res[1][0] == res[1][2], f"{label}: replay state")
    for res in by_label["long-190"]:
        rec.check(res[0] == "ok" and res[1][0]["legacy"] == (False, True), "long-190 not legacy")


# ---------------------------------------------------------------------------
# checks specific to the reader side (load_chunk, load_instrument,
# load_sample_meta, load_sample_data, _StructReader)
# ---------------------------------------------------------------------------
from rv.modules import Chunk as ModChunk  # noqa: E402


def make_chunk(chnm, chdt=None, chff=None, chfr=None):
    c = ModChunk()
    c.chnm = chnm
    c.chdt = chdt
    if chff is not None:
        c.chff = chff
    if chfr is not None:
        c.chfr = chfr
    return c


def scenario_struct_reader(rec):
    R = sampler_module._StructReader
    blob = bytes(range(1, 200)) + bytes([0x80, 0xFF, 0xFE, 0x7F] * 8) + b"abc\0\0\0"
    ops = "int8 uint8 int16 uint16 int32 uint32".split()
    rnd = random.Random(4242)
    log_ = []
    for trial in range(60):
        data = blob[rnd.randrange(40) :][: rnd.choice([0, 1, 2, 3, 4, 5, 7, 8, 9, 30, 64])]
        r = R(data)
        for step in range(rnd.randint(1, 25)):
            kind = rnd.choice(ops + ["bytes", "char", "skip", "default", "nodefault"])
            if kind in ops:
                log_.append((kind, outcome(getattr(r, kind))))
            elif kind == "default":
                op = rnd.choice(ops)
                d = rnd.choice([0, 6, -1, 12345])
                log_.append((op, d, outcome(getattr(r, op), d)))
            elif kind == "nodefault":
                op = rnd.choice(ops)
                log_.append((op, None, outcome(getattr(r, op), None)))
            elif kind == "skip":
                n = rnd.randrange(5)
                log_.append(("skip", n, r.skip(n)))
            else:
                n = rnd.choice([0, 1, 3, 4, 22, 96])
                log_.append((kind, n, getattr(r, kind)(n)))
        log_.append("end")
    rec.record("struct-reader-log", log_)
    # a short read leaves the cursor alone, so a narrower field can still be read
    r = R(b"\x01\x00\x00\x00\x09")
    rec.check(r.uint32() == 1, "u32")
    rec.check(r.uint32(77) == 77, "short u32 gives default")
    rec.check(r.uint16(0) == 0, "short u16 gives default (falsy default is a default)")
    e = expect_raises(RuntimeError, r.uint16)
    rec.check(str(e) == "default not provided", "message")
    rec.check(r.uint8() == 9, "cursor unchanged by short reads")
    expect_raises(RuntimeError, r.uint8)
    rec.check(r.uint8(5) == 5 and r.bytes(3) == b"" and r.char(2) == b"", "past the end")
    rec.check(r.int8(-1) == -1, "still past the end")
    r = R(b"ab\0\0cd\0")
    rec.check(r.char(4) == b"ab" and r.bytes(3) == b"cd\0", "char strips, bytes keeps")
    r = R(b"\xff\xff\xff\xff\xff\xff\xff\xff\xff\xff\xff\xff\xff\xff")
    rec.check(
        (r.int8(), r.uint8(), r.int16(), r.uint16(), r.int32(), r.uint32())
        == (-1, 255, -1, 65535, -1, 2**32 - 1),
        "signedness",
    )
    expect_raises(TypeError, R(None).uint8)


def scenario_load_chunk_dispatch(rec):
    base_image = Synth(build(21)).read()
    _, groups, _ = split_sampler_chunks(base_image)
    by_chnm = {chnm: dict((n, p) for n, p in g) for chnm, g in groups}
    instrument = by_chnm[0][b"CHDT"]
    env_payload = by_chnm[0x105][b"CHDT"]
    meta_payload = next(v[b"CHDT"] for k, v in by_chnm.items() if 0 < k < 0x101 and k % 2)
    effect_image = Synth(m.Distortion()).read()
    results = []
    for chnm in [0, 1, 2, 3, 4, 0xFF, 0x100, 0x101, 0x102, 0x103, 0x104, 0x105, 0x106,
                 0x107, 0x108, 0x109, 0x10A, 0x10B, 0x200, 2**32 - 1, -1, -2]:
        for payload_name, payload in (("instrument", instrument), ("env", env_payload),
                                      ("meta", meta_payload), ("effect", effect_image), ("junk", b"\x01\x02")):
            s = m.Sampler()
            s.samples[0] = Sampler.Sample()
            s.samples[1] = Sampler.Sample()
            s.samples[126] = Sampler.Sample()
            s.samples[127] = Sampler.Sample()
            chunk = make_chunk(chnm, payload, chff=2 | 8, chfr=8000)
            res = outcome(s.load_chunk, chunk)
            results.append((chnm, payload_name, res, state(s, True), getattr(s, "_unknown_0x101", "unset"),
                            None if s.legacy_chunks is None else [c is chunk for c in s.legacy_chunks]))
    rec.record("dispatch", results)
    s = m.Sampler()
    expect_raises(TypeError, s.load_chunk, make_chunk(None, b""))
    rec.check(len(s.legacy_chunks) == 1, "chunk remembered before dispatch")
    # envelope chunk numbers reach the right envelope objects
    for chnm, pick in ((0x102, lambda s: s.volume_envelope), (0x103, lambda s: s.panning_envelope),
                       (0x104, lambda s: s.pitch_envelope), (0x105, lambda s: s.effect_control_envelopes[0]),
                       (0x106, lambda s: s.effect_control_envelopes[1]), (0x107, lambda s: s.effect_control_envelopes[2]),
                       (0x108, lambda s: s.effect_control_envelopes[3])):
        s = m.Sampler()
        s.load_chunk(make_chunk(chnm, env_payload))
        loaded = [e.loaded for e in envelopes(s)]
        rec.check(loaded.count(True) == 1 and pick(s).loaded, f"{chnm:#x} -> {loaded}")
    s = m.Sampler()
    s.effect_control_envelopes = s.effect_control_envelopes[:2]
    s.load_chunk(make_chunk(0x106, env_payload))
    expect_raises(IndexError, s.load_chunk, make_chunk(0x107, env_payload))
    # options chunk number can be overridden on a subclass: it wins over everything else
    for override in (0, 5, 0x102, 0x10A):
        cls = type("Sub", (m.Sampler,), {"options_chnm": override, "mtype": None})
        s = cls()
        s.load_chunk(make_chunk(override, b"\x01\x00\x01"))
        rec.check(s.start_recording_on_project_play is True and s.record_with_reduced_sample_rate is True,
                  f"options via {override:#x}")
        rec.check(not any(e.loaded for e in envelopes(s)) and s.effect is None and s.is_legacy is None,
                  f"nothing else loaded for {override:#x}")
        s.load_chunk(make_chunk(0x101, b"zz"))
        rec.check(s._unknown_0x101 == b"zz", "0x101 stored when it is not the options chunk")
    # once an instrument chunk with the current signature was seen, chunks are no longer kept
    s = m.Sampler()
    s.load_chunk(make_chunk(0x102, env_payload))
    s.load_chunk(make_chunk(0, instrument))
    rec.check(s.is_legacy is False and s.legacy_chunks is None, "cleared")
    s.load_chunk(make_chunk(0x103, env_payload))
    rec.check(s.legacy_chunks is None, "stays cleared")


def scenario_load_instrument(rec):
    results = []
    for seed in (31, 32, 33):
        src = build(seed)
        record = list(src.global_config_chunks())[1][1]
        rec.check(len(record) == 0x190, "record size")
        for cut in list(range(0, 0x190 + 1)) + [0x191, 0x1A0]:
            data = record[:cut] if cut <= 0x190 else record.ljust(cut, b"\x05")
            s = m.Sampler()
            res = outcome(s.load_instrument, make_chunk(0, data))
            probe = (
                [(n, getattr(s, n)) for n in SCALARS[:19]],
                s.note_samples.bytes,
                [[(k, v) for k, v in sorted(vars(e).items()) if k.startswith("_legacy")] for e in envelopes(s)[:2]],
                s.is_legacy, s.legacy_chunks,
            )
            results.append((seed, cut, res, digest(probe)))
            if cut >= 0x184:
                rec.check(res == ("ok", None), f"cut {cut:#x} loads")
                rec.check(s.is_legacy is (cut > 0x190), f"cut {cut:#x}: legacy {s.is_legacy}")
                rec.check(s.max_version == (src.max_version if cut >= 0x188 else 6), f"cut {cut:#x} max_version")
                rec.check(s.editor_cursor == (src.editor_cursor if cut >= 0x18C else 0), f"cut {cut:#x} cursor")
                rec.check(s.editor_selected_size == (src.editor_selected_size if cut >= 0x190 else 0), f"cut {cut:#x} sel")
            elif cut < 0x104:
                rec.check(res == ("exc", "RuntimeError"), f"cut {cut:#x} must fail: {res}")
    rec.record("load-instrument-cuts", results)
    # vibrato type outside the enum
    record = bytearray(list(build(31).global_config_chunks())[1][1])
    record[0xEE] = 3
    s = m.Sampler()
    expect_raises(ValueError, s.load_instrument, make_chunk(0, bytes(record)))
    rec.check(s.volume_envelope._legacy_bitmask is not None and s.is_legacy is None, "partial load before failure")
    # a legacy verdict sticks across a second instrument chunk; a clean one does not come back
    good = list(build(31).global_config_chunks())[1][1]
    bad = good[:0xFC] + b"PMAX" + good[0x100:]
    s = m.Sampler()
    s.load_chunk(make_chunk(0, bad))
    rec.check(s.is_legacy is True and len(s.legacy_chunks) == 1, "legacy after bad sign")
    s.load_chunk(make_chunk(0, good))
    rec.check(s.is_legacy is True and len(s.legacy_chunks) == 2, "still legacy")
    s = m.Sampler()
    s.load_chunk(make_chunk(0, good))
    s.load_chunk(make_chunk(0, bad))
    rec.check(s.is_legacy is True and s.legacy_chunks is None, "late bad signature")
    expect_raises(AttributeError, s.load_chunk, make_chunk(0x109, b""))  # nowhere to keep it
    expect_raises(TypeError, lambda: list(s.specialized_iff_chunks()))
    s = m.Sampler()
    s.load_instrument(make_chunk(0, good))
    s.load_instrument(make_chunk(0, bad))
    rec.check(s.is_legacy is True and s.legacy_chunks is None, "direct second load")
    # signature with trailing NULs compares after stripping
    odd = good[:0xFC] + b"PMA\0" + good[0x100:]
    s = m.Sampler()
    s.load_instrument(make_chunk(0, odd))
    rec.check(s.is_legacy is True, "PMA\\0 is not the signature")
    # note map: the 128-byte map is applied on top of the 96-byte one, minus trailing NULs
    src = m.Sampler()
    for i, note in enumerate(src.note_samples):
        src.note_samples[note] = (i * 7 + 1) % 256 if i < 100 else 0
    record = bytearray(list(src.global_config_chunks())[1][1])
    record[0x24:0x24 + 96] = bytes([9]) * 96
    record[0x104 + 50:0x104 + 128] = bytes(78)
    s = m.Sampler()
    s.load_instrument(make_chunk(0, bytes(record)))
    want = bytes((i * 7 + 1) % 256 for i in range(50)) + bytes([9]) * 46 + bytes(23)
    rec.check(s.note_samples.bytes == want, "note map layering")


def scenario_load_sample_meta(rec):
    results = []
    smp = random_sample(random.Random(9), 2)
    holder = m.Sampler()
    header = list(holder.sample_chunks(0, smp))[1][1]
    rec.check(len(header) == 44, "header size")
    for type_byte in range(256):
        data = header[:14] + bytes([type_byte]) + header[15:]
        s = m.Sampler()
        res = outcome(s.load_sample_meta, make_chunk(11, data))
        got = s.samples[5]
        results.append((type_byte, res, None if got is None else sorted(vars(got).items())))
        if type_byte & 3 == 3:
            rec.check(res == ("exc", "ValueError"), f"type {type_byte:#x}: {res}")
        elif type_byte & 0x30 == 0x30:
            rec.check(res == ("exc", "KeyError"), f"type {type_byte:#x}: {res}")
        else:
            rec.check(res == ("ok", None), f"type {type_byte:#x}: {res}")
            rec.check(got.loop_type == type_byte & 3 and got.loop_sustain is bool(type_byte & 4), "loop bits")
            rec.check(got.format == {0: 1, 0x10: 2, 0x20: 4}[type_byte & 0x30], "format bits")
            rec.check(got.channels == (8 if type_byte & 0x40 else 0), "channel bit")
            rec.check(type(got.loop_sustain) is bool, "loop_sustain is a bool")
    rec.record("sample-meta-type-bytes", results)
    results = []
    for cut in range(0, 46):
        s = m.Sampler()
        res = outcome(s.load_sample_meta, make_chunk(255, header[:cut]))
        got = s.samples[127]
        rec.check(got is not None, "slot is filled before parsing")
        results.append((cut, res, sorted(vars(got).items())))
        rec.check((res[0] == "ok") == (cut >= 18), f"cut {cut}: {res}")
    rec.record("sample-meta-cuts", results)
    # which slot is addressed
    for chnm, slot in ((1, 0), (3, 1), (255, 127), (2, 0), (-1, 127)):
        s = m.Sampler()
        s.load_sample_meta(make_chunk(chnm, header))
        rec.check([i for i, x in enumerate(s.samples) if x] == [slot], f"chnm {chnm} -> {slot}")
    s = m.Sampler()
    expect_raises(IndexError, s.load_sample_meta, make_chunk(257, header))
    expect_raises(TypeError, s.load_sample_meta, make_chunk(None, header))
    s = m.Sampler()
    s.samples[4] = old = Sampler.Sample()
    s.load_sample_meta(make_chunk(9, header))
    rec.check(s.samples[4] is not old, "slot is replaced with a fresh Sample")


def scenario_load_sample_data(rec):
    results = []
    for chff in list(range(0, 40)) + [0xF1, 0xFA, 2**32 - 4]:
        s = m.Sampler()
        s.samples[7] = Sampler.Sample()
        before = sorted(vars(s.samples[7]).items())
        res = outcome(s.load_sample_data, make_chunk(16, b"\x01\x02\x03\x04", chff=chff, chfr=chff * 3))
        after = sorted(vars(s.samples[7]).items())
        results.append((chff, res, after))
        low = chff & 7
        if low in (0, 1, 2, 4):
            rec.check(res == ("ok", None), f"chff {chff:#x}")
            smp = s.samples[7]
            rec.check(smp.format is Sampler.Format(low or 1), f"chff {chff:#x} format")
            rec.check(smp.channels is Sampler.Channels(chff & 8), f"chff {chff:#x} channels")
            rec.check(smp.rate == chff * 3 and smp.data == b"\x01\x02\x03\x04", "rate/data")
        else:
            rec.check(res == ("exc", "ValueError"), f"chff {chff:#x}: {res}")
            rec.check(dict(after)["data"] == b"\x01\x02\x03\x04" and dict(after)["rate"] == 44100, "partial")
    rec.record("sample-data-chff", results)
    for chnm, slot in ((2, 0), (4, 1), (256, 127), (3, 0), (0, 127)):
        s = m.Sampler()
        s.samples = [Sampler.Sample() for _ in range(128)]
        s.load_sample_data(make_chunk(chnm, b"zz", chff=1, chfr=5))
        rec.check([i for i, x in enumerate(s.samples) if x.data == b"zz"] == [slot], f"data chnm {chnm}")
    s = m.Sampler()
    expect_raises(AttributeError, s.load_sample_data, make_chunk(2, b"zz"))
    expect_raises(IndexError, s.load_sample_data, make_chunk(258, b"zz"))
    s.samples[0] = Sampler.Sample()
    expect_raises(TypeError, s.load_sample_data, make_chunk(2, b"zz", chff="x"))
    c = make_chunk(2, b"zz")
    c.chff = None
    expect_raises(TypeError, s.load_sample_data, c)
    rec.check(s.samples[0].data == b"zz", "data stored before chff is looked at")
    # default chunk (no CHFF/CHFR seen): 8-bit mono 44100
    s.load_sample_data(make_chunk(2, b"q"))
    rec.check((s.samples[0].format, s.samples[0].channels, s.samples[0].rate) == (1, 0, 44100), "defaults")


GOLDEN = {
    'images': '9c558e4e160e861a628f80be',
    'fixture-state': '9f75aa6f147f7a45ec30a156',
    'fixture-image': '6ad6b302a17750ed39595188',
    'legacy': '69b235d84b242eda0e4d63ca',
    'struct-reader-log': '7402adfbdf8cc282af295f54',
    'dispatch': '7664cc9f5b98f938b85c6186',
    'load-instrument-cuts': '3d1033522deac217dea32390',
    'sample-meta-type-bytes': '9be9964f2e9648dcbe00333d',
    'sample-meta-cuts': 'c26aa34d7838610b50596d51',
    'sample-data-chff': 'fe50c33e2d8c179c3e9bbafc',
}


def main():
    rec = Recorder(GOLDEN)
    images = scenario_round_trips(rec, range(200, 240))
    scenario_fixture(rec)
    scenario_legacy(rec, images[:8])
    scenario_struct_reader(rec)
    scenario_load_chunk_dispatch(rec)
    scenario_load_instrument(rec)
    scenario_load_sample_meta(rec)
    scenario_load_sample_data(rec)
    return rec.finish()


if __name__ == "__main__":
    sys.exit(main())
