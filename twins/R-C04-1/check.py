"""Behaviour check for the chunk-dispatch loop (Reader.process_chunks / rewind /
read_sunvox_file / rv.lib.iff.chunks).

Run from the repository root:
    PYTHONPATH=<root>/src/python python check.py
"""
import io
import logging
import os
import struct
import sys
import tempfile
from pathlib import Path

from rv.api import Project, Synth, read_sunvox_file
from rv.lib.iff import chunks as lib_chunks
from rv.readers.reader import Reader, ReaderFinished

logging.getLogger("rv").addHandler(logging.NullHandler())  # keep stderr quiet
ROOT = Path(os.getcwd())
FILES = ROOT / "tests" / "files"
FAILURES = []


def check(cond, msg):
    if not cond:
        FAILURES.append(msg)
        print("FAIL:", msg)


# --------------------------------------------------------------------------
# independent chunk-level codec (does not use the library)
# --------------------------------------------------------------------------
def parse(raw):
    out = []
    pos = 0
    while pos + 8 <= len(raw):
        name = raw[pos : pos + 4]
        (size,) = struct.unpack_from("<I", raw, pos + 4)
        out.append((name, raw[pos + 8 : pos + 8 + size]))
        pos += 8 + size
    return out


def encode(items):
    return b"".join(n + struct.pack("<I", len(d)) + d for n, d in items)


def u32(v):
    return struct.pack("<I", v)


def i32(v):
    return struct.pack("<i", v)


# --------------------------------------------------------------------------
# snapshot of everything public that loading sets
# --------------------------------------------------------------------------
PROJECT_ATTRS = [
    "loaded_sunvox_version", "based_on_version", "flags", "receive_sync_midi",
    "receive_sync_other", "initial_bpm", "initial_tpl", "time_grid", "time_grid2",
    "global_volume", "name", "modules_scale", "modules_zoom", "modules_x_offset",
    "modules_y_offset", "modules_layer_mask", "modules_current_layer",
    "timeline_position", "restart_position", "selected_module",
    "selected_generator", "current_pattern", "current_track", "current_line",
]
MODULE_ATTRS = [
    "index", "flags", "name", "mtype", "mod_finetune", "mod_relative_note", "x", "y",
    "layer", "mod_scale", "visualization", "color", "midi_in_always",
    "midi_in_channel", "midi_out_name", "midi_out_channel", "midi_out_bank",
    "midi_out_program",
]
PATTERN_ATTRS = [
    "name", "tracks", "lines", "y_size", "flags_PFLG", "icon", "fg_color", "bg_color",
    "flags_PFFF", "x", "y", "source",
]


def snap_module(mod):
    if mod is None:
        return None
    d = {"class": type(mod).__name__}
    for a in MODULE_ATTRS:
        d[a] = getattr(mod, a, "<absent>")
    if d["visualization"] != "<absent>":
        d["visualization"] = int(d["visualization"])
    d["color"] = tuple(d["color"]) if d["color"] != "<absent>" else d["color"]
    for a in ("in_links", "in_link_slots", "out_links", "out_link_slots"):
        d[a] = list(getattr(mod, a))
    d["controllers"] = {n: repr(getattr(mod, n)) for n in mod.controllers}
    d["controllers_loaded"] = sorted(mod.controllers_loaded)
    d["cmid"] = {
        n: bytes(m.cmid_data) for n, m in mod.controller_midi_maps.items()
    }
    d["specialized"] = [
        (n, x if x is None else bytes(x)) for n, x in mod.specialized_iff_chunks()
    ]
    return d


def snap_pattern(pat):
    if pat is None:
        return None
    d = {"class": type(pat).__name__}
    for a in PATTERN_ATTRS:
        v = getattr(pat, a, "<absent>")
        d[a] = bytes(v) if isinstance(v, (bytes, bytearray)) else v
    if hasattr(pat, "raw_data"):
        d["raw_data"] = bytes(pat.raw_data)
    return d


def snapshot(obj):
    if isinstance(obj, Synth):
        return {
            "kind": "synth",
            "loaded_sunsynth_version": obj.loaded_sunsynth_version,
            "module": snap_module(obj.module),
            "written": obj.read(),
        }
    check(isinstance(obj, Project), "unexpected object type %r" % type(obj))
    d = {"kind": "project"}
    for a in PROJECT_ATTRS:
        d[a] = getattr(obj, a)
    d["modules"] = [snap_module(m) for m in obj.modules]
    d["output_is_module0"] = obj.output is obj.modules[0] if obj.modules else None
    d["patterns"] = [snap_pattern(p) for p in obj.patterns]
    d["written"] = obj.read()
    return d


def load(raw):
    return read_sunvox_file(io.BytesIO(raw))


def diff_keys(a, b):
    return sorted(k for k in set(a) | set(b) if a.get(k) != b.get(k))


# --------------------------------------------------------------------------
# log capture
# --------------------------------------------------------------------------
class Capture(logging.Handler):
    def __init__(self):
        super().__init__(level=logging.DEBUG)
        self.records = []

    def emit(self, record):
        self.records.append((record.name, record.levelname, record.getMessage()))


def capture_logs():
    cap = Capture()
    logger = logging.getLogger("rv")
    logger.addHandler(cap)
    logger.setLevel(logging.DEBUG)
    return cap


def release_logs(cap):
    logger = logging.getLogger("rv")
    logger.removeHandler(cap)
    logger.setLevel(logging.NOTSET)


# --------------------------------------------------------------------------
# 1. iff.chunks: agrees with the independent parser; tolerates ragged tails
# --------------------------------------------------------------------------
def test_lib_chunks():
    items = [(b"AAAA", b""), (b"BB  ", b"\x01\x02\x03"), (b"CCCC", b"x" * 17)]
    raw = encode(items)
    check(list(lib_chunks(io.BytesIO(raw))) == items, "chunks(): basic round trip")
    check(list(lib_chunks(io.BytesIO(b""))) == [], "chunks(): empty stream")
    # truncated header (name only / name + partial size) ends iteration silently
    for tail in (b"DD", b"DDDD", b"DDDD\x01\x00"):
        got = list(lib_chunks(io.BytesIO(raw + tail)))
        check(got == items, "chunks(): ragged tail %r" % tail)
    # truncated payload: the short data is still yielded
    got = list(lib_chunks(io.BytesIO(raw + b"EEEE" + u32(10) + b"abc")))
    check(got == items + [(b"EEEE", b"abc")], "chunks(): short payload")
    # odd sizes are not padded
    odd = [(b"ODD1", b"abc"), (b"ODD2", b"z")]
    check(list(lib_chunks(io.BytesIO(encode(odd)))) == odd, "chunks(): no alignment")
    # generator is lazy and positions the file right after each payload
    f = io.BytesIO(raw)
    gen = lib_chunks(f)
    next(gen)
    check(f.tell() == 8, "chunks(): position after first chunk")
    next(gen)
    check(f.tell() == 8 + 8 + 3, "chunks(): position after second chunk")
    for path in sorted(FILES.rglob("*.sun*")):
        data = path.read_bytes()
        check(
            list(lib_chunks(io.BytesIO(data))) == parse(data),
            "chunks(): %s matches the independent parser" % path.name,
        )


# --------------------------------------------------------------------------
# 2. Reader base class: dispatch, name stripping, non-callable, rewind, logs
# --------------------------------------------------------------------------
def test_reader_dispatch():
    class Demo(Reader):
        process_NOPE = 42  # attribute exists but is not callable

        def __init__(self, f):
            super().__init__(f)
            self.seen = []
            self.rewound = False

        def process_AB(self, data):
            self.seen.append(("AB", data))

        def process_ABCD(self, data):
            self.seen.append(("ABCD", data, self.f.tell()))
            if not self.rewound:
                self.rewound = True
                self.rewind(data)

        def process_STOP(self, data):
            self.object = ("done", list(self.seen))
            raise ReaderFinished()

    raw = encode(
        [
            (b"AB  ", b"12"),
            (b"ZZZZ", b"ignored"),
            (b"NOPE", b""),
            (b"ABCD", b"hello"),
            (b" AB ", b"x"),
            (b"STOP", b""),
            (b"AB  ", b"never seen"),
        ]
    )
    cap = capture_logs()
    try:
        f = io.BytesIO(raw)
        r = Demo(f)
        obj = r.object
    finally:
        release_logs(cap)
    pos_abcd = 10 + 15 + 8 + 13
    expected = [
        ("AB", b"12"),
        ("ABCD", b"hello", pos_abcd),
        ("ABCD", b"hello", pos_abcd),
        ("AB", b"x"),
    ]
    check(obj == ("done", expected), "Reader dispatch order / rewind: %r" % (obj,))
    check(f.tell() == len(raw) - 8 - 10, "Reader stops right after the finishing chunk")
    mine = [r for r in cap.records if r[0] == "rv.readers.reader"]
    check(
        mine
        == [
            ("rv.readers.reader", "DEBUG", "-> Demo.process_AB"),
            ("rv.readers.reader", "WARNING", "no Demo.process_ZZZZ method"),
            ("rv.readers.reader", "WARNING", "no Demo.process_NOPE method"),
            ("rv.readers.reader", "DEBUG", "-> Demo.process_ABCD"),
            ("rv.readers.reader", "DEBUG", "-> Demo.process_ABCD"),
            ("rv.readers.reader", "DEBUG", "-> Demo.process_AB"),
            ("rv.readers.reader", "DEBUG", "-> Demo.process_STOP"),
        ],
        "Reader log records: %r" % (mine,),
    )
    # object is computed once
    check(r.object is obj, "Reader.object cached")
    try:
        r.object = 1
        check(False, "setting object twice should raise")
    except AttributeError:
        pass

    # end of stream without a handler -> RuntimeError from the base class
    class Bare(Reader):
        pass

    try:
        Bare(io.BytesIO(encode([(b"QQQQ", b"")]))).process_chunks()
        check(False, "base process_end_of_file should raise")
    except RuntimeError as e:
        check(str(e) == "Reached end of file without a handler", "EOF message")
    # PAMD is accepted silently by every reader
    cap = capture_logs()
    try:
        try:
            Bare(io.BytesIO(encode([(b"PAMD", b"zz")]))).process_chunks()
        except RuntimeError:
            pass
    finally:
        release_logs(cap)
    check(
        [r[1] for r in cap.records if r[0] == "rv.readers.reader"] == ["DEBUG"],
        "PAMD handled without warning",
    )
    # exceptions from handlers propagate unchanged
    class Boom(Reader):
        def process_BOOM(self, data):
            raise KeyError("boom")

    try:
        Boom(io.BytesIO(encode([(b"BOOM", b"")]))).process_chunks()
        check(False, "handler exception should propagate")
    except KeyError:
        pass
    # non-UTF8 chunk id -> UnicodeDecodeError
    try:
        Bare(io.BytesIO(encode([(b"\xff\xfe\xfd\xfc", b"")]))).process_chunks()
        check(False, "undecodable id should raise")
    except UnicodeDecodeError:
        pass


# --------------------------------------------------------------------------
# 3. read_sunvox_file: str / Path / file object; ownership of the handle
# --------------------------------------------------------------------------
def test_entry_point():
    path = FILES / "single-fm.sunvox"
    raw = path.read_bytes()
    ref = snapshot(load(raw))
    check(snapshot(read_sunvox_file(path)) == ref, "Path argument")
    check(snapshot(read_sunvox_file(str(path))) == ref, "str argument")
    with path.open("rb") as f:
        check(snapshot(read_sunvox_file(f)) == ref, "real file object argument")
        check(not f.closed, "caller-owned file left open")
    bio = io.BytesIO(raw)
    read_sunvox_file(bio)
    check(not bio.closed, "caller-owned BytesIO left open")
    try:
        read_sunvox_file(str(FILES / "does-not-exist.sunvox"))
        check(False, "missing file should raise")
    except FileNotFoundError:
        pass
    # neither SVOX nor SSYN -> None, trailing garbage after the container ignored
    check(load(encode([(b"WHAT", b"")])) is None, "unknown container gives None")
    check(load(b"") is None, "empty stream gives None")
    with tempfile.TemporaryDirectory() as td:
        p = Path(td) / "copy.sunvox"
        p.write_bytes(raw + b"XX")
        check(snapshot(read_sunvox_file(p)) == ref, "ragged tail after file ignored")
    # range errors are not raised while reading (out-of-range CVAL is accepted)
    items = parse((FILES / "amplifier.sunsynth").read_bytes())
    idx = [i for i, (n, _) in enumerate(items) if n == b"CVAL"][0]
    items[idx] = (b"CVAL", i32(100000))
    try:
        load(encode(items))
    except Exception as e:  # pragma: no cover
        check(False, "out-of-range CVAL raised %r on read" % (e,))


# --------------------------------------------------------------------------
# 4. unknown chunks anywhere are skipped; order of header chunks irrelevant
# --------------------------------------------------------------------------
UNKNOWN = [(b"ZZZZ", b""), (b"Qq9 ", b"\x00\x01\x02\x03\x04"), (b"XSND", b"SEND" * 3)]


def test_unknown_chunks_everywhere():
    total = 0
    for path in sorted(FILES.rglob("*.sun*")):
        raw = path.read_bytes()
        items = parse(raw)
        check(encode(items) == raw, "%s: independent codec round trip" % path.name)
        ref = snapshot(load(raw))
        n = len(items)
        # every position for small files, a spread of positions for big ones
        positions = range(1, n + 1) if n <= 150 else sorted(
            set(range(1, 40)) | set(range(1, n + 1, max(1, n // 60))) | {n - 1, n}
        )
        for k, pos in enumerate(positions):
            junk = UNKNOWN[k % len(UNKNOWN)]
            mutated = encode(items[:pos] + [junk] + items[pos:])
            got = snapshot(load(mutated))
            total += 1
            if got != ref:
                check(
                    False,
                    "%s: unknown chunk %r at %d changed %s"
                    % (path.name, junk[0], pos, diff_keys(ref, got)),
                )
                break
        # several unknown chunks at once, including before every SEND/PEND
        multi = []
        for name, data in items:
            if name in (b"SEND", b"PEND", b"CVAL", b"SFFF", b"PDTA"):
                multi.append(UNKNOWN[len(multi) % 3])
            multi.append((name, data))
        check(snapshot(load(encode(multi))) == ref, "%s: many unknown chunks" % path.name)
    check(total > 1500, "too few insertion cases ran (%d)" % total)
    # the warning names the reader that was active at that point
    items = parse((FILES / "single-fm.sunvox").read_bytes())
    first_sfff = [i for i, (n, _) in enumerate(items) if n == b"SFFF"][0]
    first_pdta = [i for i, (n, _) in enumerate(items) if n == b"PDTA"][0]
    mutated = list(items)
    for pos, junk in sorted(
        [(2, (b"UNK1", b"")), (first_pdta + 1, (b"UNK2", b"")), (first_sfff + 1, (b"UNK3", b""))],
        reverse=True,
    ):
        mutated.insert(pos, junk)
    cap = capture_logs()
    try:
        load(encode(mutated))
    finally:
        release_logs(cap)
    warns = [m for (n, lvl, m) in cap.records if lvl == "WARNING" and "UNK" in m]
    check(
        sorted(warns)
        == [
            "no ModuleReader.process_UNK3 method",
            "no PatternReader.process_UNK2 method",
            "no SunVoxReader.process_UNK1 method",
        ],
        "warnings name the active reader: %r" % (warns,),
    )


def test_header_reorder():
    for name in ("single-fm.sunvox", "supertracks.sunvox", "empty.sunvox"):
        items = parse((FILES / name).read_bytes())
        ref = snapshot(load(encode(items)))
        first_body = min(
            i for i, (n, _) in enumerate(items) if n in (b"PDTA", b"PPAR", b"PEND", b"SFFF", b"SEND")
        )
        header = items[1:first_body]
        for variant in (header[::-1], header[1::2] + header[0::2], header[3:] + header[:3]):
            got = snapshot(load(encode(items[:1] + variant + items[first_body:])))
            check(got == ref, "%s: header chunk order is irrelevant" % name)


# --------------------------------------------------------------------------
# 5. a hand-encoded project (independent encoder): exact field values,
#    empty module/pattern slots kept in place, nested rewind works
# --------------------------------------------------------------------------
def module_chunks(mtype, name, flags, x, y, links=None, cvals=(), extra=()):
    out = [
        (b"SFFF", u32(flags)),
        (b"SNAM", name.encode() + b"\0" * (32 - len(name))),
    ]
    if mtype is not None:
        out.append((b"STYP", mtype.encode() + b"\0"))
    out += [
        (b"SFIN", i32(-3)),
        (b"SREL", i32(2)),
        (b"SXXX", i32(x)),
        (b"SYYY", i32(y)),
        (b"SZZZ", u32(1)),
        (b"SSCL", u32(256)),
        (b"SCOL", bytes([10, 20, 30])),
        (b"SMII", u32((5 << 1) | 1)),
        (b"SMIC", i32(3)),
        (b"SMIB", i32(-1)),
        (b"SMIP", i32(7)),
    ]
    out += list(extra)
    if links is not None:
        out.append((b"SLNK", b"".join(i32(v) for v in links)))
    out += [(b"CVAL", i32(v)) for v in cvals]
    out.append((b"SEND", b""))
    return out


def test_hand_encoded_project():
    pat_data = bytes(range(8)) * 2 * 3  # 2 tracks x 3 lines x 8 bytes
    items = [
        (b"SVOX", b""),
        (b"VERS", bytes([0, 1, 9, 1])),  # 1.9.1.0 -> legacy high-byte fix-up applies
        (b"FUTR", b"from a newer SunVox"),
        (b"FLGS", u32(0x11)),
        (b"SFGS", u32(0b101_011)),
        (b"BPM ", u32(133)),
        (b"SPED", u32(7)),
        (b"TGRD", u32(5)),
        (b"GVOL", u32(77)),
        (b"NAME", b"Foreign\0garbage"),
        (b"MXOF", i32(-12)),
        (b"MYOF", i32(34)),
        (b"TIME", i32(-4)),
        (b"LGEN", i32(-1)),
        (b"PATN", u32(2)),
        # patterns: real, empty, clone, empty
        (b"PDTA", pat_data),
        (b"PNME", b"pat one\0"),
        (b"PCHN", u32(2)),
        (b"PLIN", u32(3)),
        (b"PYSZ", u32(32)),
        (b"PWHO", b"??"),
        (b"PFLG", u32(0)),
        (b"PFGC", bytes([1, 2, 3])),
        (b"PBGC", bytes([4, 5, 6])),
        (b"PFFF", u32(0)),
        (b"PXXX", i32(-100)),
        (b"PYYY", i32(64)),
        (b"PEND", b""),
        (b"PEND", b""),
        (b"PPAR", u32(0)),
        (b"PFFF", u32(0)),
        (b"PXXX", i32(8)),
        (b"PYYY", i32(-8)),
        (b"PEND", b""),
        (b"PEND", b""),
    ]
    items += module_chunks(None, "Output", 0x43, 900, 500, links=[2, 4])
    items += [(b"SEND", b"")]  # empty slot 1
    items += module_chunks("Amplifier", "amp", 0x51, 1, -2, links=[4], cvals=[300, 10])
    items += [(b"SEND", b"")]  # empty slot 3
    items += module_chunks(
        "Generator", "gen", 0x49, 5, 6, links=[], cvals=[11], extra=[(b"SWAT", b"?")]
    )
    items += [(b"SEND", b""), (b"SEND", b"")]  # trailing empties are trimmed
    proj = load(encode(items))
    check(isinstance(proj, Project), "hand-encoded: is a Project")
    check(proj.loaded_sunvox_version == (1, 9, 1, 0), "VERS decoded")
    check(proj.based_on_version == (1, 7, 0, 0), "missing BVER -> 1.7.0.0")
    check(proj.flags == 0x11, "FLGS")
    check((proj.receive_sync_midi, proj.receive_sync_other) == (0b011, 0b101), "SFGS")
    check((proj.initial_bpm, proj.initial_tpl) == (133, 7), "BPM/SPED")
    check(proj.time_grid == 5 and proj.global_volume == 77, "TGRD/GVOL")
    check(proj.name == "Foreign", "NAME stops at first NUL")
    check((proj.modules_x_offset, proj.modules_y_offset) == (-12, 34), "MXOF/MYOF")
    check(proj.timeline_position == -4 and proj.current_pattern == 2, "TIME/PATN")
    fresh = Project()
    for a in ("time_grid2", "modules_scale", "modules_zoom", "modules_layer_mask",
              "modules_current_layer", "restart_position", "selected_module",
              "current_track", "current_line"):
        check(getattr(proj, a) == getattr(fresh, a), "absent chunk leaves default %s" % a)
    # module positions
    classes = [type(m).__name__ if m else None for m in proj.modules]
    check(classes == ["Output", None, "Amplifier", None, "Generator"], "slots: %r" % classes)
    check([m.index for m in proj.modules if m] == [0, 2, 4], "module indexes")
    check(proj.output is proj.modules[0], "output attribute")
    out, amp, gen = proj.modules[0], proj.modules[2], proj.modules[4]
    check(all(m.parent is proj for m in (out, amp, gen)), "parents")
    check(amp.name == "amp" and amp.mtype == "Amplifier", "SNAM/STYP")
    check((amp.x, amp.y, amp.layer, amp.mod_scale) == (1, -2, 1, 256), "position chunks")
    check((amp.mod_finetune, amp.mod_relative_note) == (-3, 2), "SFIN/SREL")
    check(tuple(amp.color) == (10, 20, 30), "SCOL")
    check(amp.midi_in_always is True and amp.midi_in_channel == 5, "SMII")
    check((amp.midi_out_channel, amp.midi_out_bank, amp.midi_out_program) == (3, -1, 7), "SMI*")
    check(amp.flags == 0x51 | amp.default_flags, "flags merged with class defaults")
    check(amp.volume == 300 and amp.get_raw("balance") == 10, "CVALs in order")
    ref_amp = type(amp)()
    for n in list(amp.controllers)[2:]:
        check(getattr(amp, n) == getattr(ref_amp, n), "amp.%s default" % n)
    check({"balance", "volume"} <= set(amp.controllers_loaded), "controllers_loaded")
    check(gen.volume == 11, "gen CVAL")
    check(gen.waveform == type(gen)().waveform, "gen second controller default")
    # links: slots are synthesised because no SLnK chunk is present
    check(out.in_links == [2, 4] and out.in_link_slots == [0, 1], "output in links")
    check(amp.in_links == [4] and amp.in_link_slots == [0], "amp in links")
    check(gen.in_links == [] and gen.in_link_slots == [], "gen in links")
    check(amp.out_links == [0] and amp.out_link_slots == [0], "amp out links")
    check(gen.out_links == [2, 0] and gen.out_link_slots == [0, 1], "gen out links %r %r" % (gen.out_links, gen.out_link_slots))
    check(out.out_links == [] and out.out_link_slots == [], "output out links")
    # patterns
    kinds = [type(p).__name__ if p else None for p in proj.patterns]
    check(kinds == ["Pattern", None, "PatternClone", None], "pattern slots: %r" % kinds)
    p0, p2 = proj.patterns[0], proj.patterns[2]
    check((p0.name, p0.tracks, p0.lines, p0.y_size) == ("pat one", 2, 3, 32), "pattern header")
    check((p0.x, p0.y) == (-100, 64), "pattern position")
    check(tuple(p0.fg_color) == (1, 2, 3) and tuple(p0.bg_color) == (4, 5, 6), "pattern colours")
    check(p0.project is proj and p2.project is proj, "pattern ownership")
    check((p2.source, p2.x, p2.y) == (0, 8, -8), "pattern clone")
    # note layout NN VV MM MM CC EE XX YY; module high byte cleared for < 1.9.5.0
    note = p0.data[0][0]
    check((note.note, note.vel, note.module) == (0, 1, 2), "note fields / high byte: %r" % note.module)
    check(note.ctl == 0x0504 and note.val == 0x0706, "note ctl/val")
    # the same stream marked as 1.9.5.0 keeps the high byte
    items2 = [(n, bytes([0, 5, 9, 1]) if n == b"VERS" else d) for n, d in items]
    proj2 = load(encode(items2))
    check(proj2.patterns[0].data[0][0].module == 0x0302, "no fix-up from 1.9.5.0 on")
    # BVER present wins over the legacy default, wherever it is
    for pos in (1, 5, len(items)):
        items3 = items[:pos] + [(b"BVER", bytes([4, 3, 2, 1]))] + items[pos:]
        check(load(encode(items3)).based_on_version == (1, 2, 3, 4), "BVER at %d" % pos)


def main():
    test_lib_chunks()
    test_reader_dispatch()
    test_entry_point()
    test_header_reorder()
    test_hand_encoded_project()
    test_unknown_chunks_everywhere()
    if FAILURES:
        print("%d failure(s)" % len(FAILURES))
        sys.exit(1)
    print("PASS")


if __name__ == "__main__":
    main()
