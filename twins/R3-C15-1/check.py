"""Behaviour check for the module reader (C15, refactoring 1).

Exercises ModuleReader.process_STYP / process_SNAM / process_SMIN / process_SEND:
the CVAL key list (5 fixed + 96 user defined keys for MetaModules), the order
in which CVALs are applied / reported, surplus and missing CVALs, NUL handling
in names, and full save/load round trips of (nested) MetaModules both
stand-alone and inside a project.

Run from the repository root:
    PYTHONPATH=<root>/src/python python check.py
"""
import hashlib
import io
import logging
import sys
from pathlib import Path
from struct import pack

from rv.api import Project, Synth, m, read_sunvox_file
from rv.lib.iff import chunks as iff_chunks
from rv.lib.iff import write_chunk
from rv.modules.metamodule import MetaModule

FAILURES = []


def check(cond, what):
    if not cond:
        FAILURES.append(what)
        print("FAIL:", what[:300])


class Capture(logging.Handler):
    def __init__(self):
        super().__init__(level=logging.DEBUG)
        self.messages = []

    def emit(self, record):
        self.messages.append((record.levelname, record.getMessage()))


def read_with_log(data):
    logger = logging.getLogger("rv.readers.module")
    handler = Capture()
    old_level = logger.level
    logger.addHandler(handler)
    logger.setLevel(logging.DEBUG)
    try:
        obj = read_sunvox_file(io.BytesIO(data))
    finally:
        logger.removeHandler(handler)
        logger.setLevel(old_level)
    wanted = ("Setting ", "Unsupported controller")
    return obj, [x for x in handler.messages if x[1].startswith(wanted)]


def rebuild(data, transform):
    """Rewrite an IFF stream chunk by chunk through ``transform``."""
    out = io.BytesIO()
    for name, payload in transform(list(iff_chunks(io.BytesIO(data)))):
        write_chunk(out, name, payload)
    return out.getvalue()


TARGETS = [
    ("gen", 0),  # volume, plain range
    ("gen", 1),  # waveform, enum
    ("amp", 1),  # balance, negative range
    ("amp", 3),  # inverse, boolean
    ("gen", 13),  # enum / misc
    ("amp", 2),  # dc offset, negative range
]


def build_metamodule(count, depth=0, label_every=3):
    inner = Project()
    inner.name = f"inner-{count}-{depth}"
    gen = inner.new_module(m.AnalogGenerator)
    amp = inner.new_module(m.Amplifier)
    gen >> amp >> inner.output
    if depth:
        inner.attach_module(build_metamodule(max(count - 1, 0), depth - 1))
    mm = MetaModule(project=inner, name=f"mm {count}/{depth}")
    mm.user_defined_controllers = count
    mods = {"gen": gen, "amp": amp}
    for i in range(count):
        modname, ctl = TARGETS[i % len(TARGETS)]
        mm.mappings.values[i].module = mods[modname].index
        mm.mappings.values[i].controller = ctl
        if i % label_every != 1:
            mm.user_defined[i].label = f"Label {i} é"
    mm.update_user_defined_controllers()
    return mm


def snapshot(mm, depth=0):
    """Everything C15 says must survive, as plain data."""
    count = mm.user_defined_controllers
    snap = {
        "count": count,
        "name": mm.name,
        "labels": [c.label for c in mm.user_defined],
        "attached": [c.attached(mm) for c in mm.user_defined],
        "mappings": [(x.module, x.controller) for x in mm.mappings.values],
        "values": [repr(getattr(mm, f"user_defined_{i + 1}")) for i in range(count)],
        "raw": [mm.get_raw(f"user_defined_{i + 1}") for i in range(count)],
        "types": [repr(mm.user_defined[i].value_type) for i in range(count)],
        "fixed": [mm.volume, mm.input_module, int(mm.play_patterns), mm.bpm, mm.tpl],
        "project": mm.project.name,
        "modules": [
            None if x is None else (x.mtype, x.name, list(x.in_links))
            for x in mm.project.modules
        ],
        "nested": [
            snapshot(x, depth + 1)
            for x in mm.project.modules
            if isinstance(x, MetaModule)
        ],
    }
    return snap


def roundtrip_checks():
    digest = hashlib.sha256()
    for count in (0, 1, 2, 3, 7, 48, 95, 96):
        for depth in (0, 1, 2):
            if count > 7 and depth == 2:
                continue
            mm = build_metamodule(count, depth)
            # give the user defined controllers non-default values
            for i in range(count):
                name = f"user_defined_{i + 1}"
                t = mm.user_defined[i].value_type
                if hasattr(t, "min") and hasattr(t, "max"):
                    # stored directly, the way the reader's set_raw() does
                    value = t.min + (i * 7 + 3) % (t.max - t.min + 1)
                    mm.controller_values[name] = value
            before = snapshot(mm)
            tag = f"count={count} depth={depth}"

            # stand-alone
            data = Synth(mm).read()
            digest.update(data)
            synth, msgs = read_with_log(data)
            after = snapshot(synth.module)
            check(after == before, f"synth round trip differs ({tag})")
            check(synth.read() == data, f"synth rewrite not byte-stable ({tag})")
            expected = [
                ("DEBUG", f"Setting user_defined_{i + 1} from raw {before['raw'][i]}")
                for i in reversed(range(count))
            ]
            fixed = ["tpl", "bpm", "play_patterns", "input_module", "volume"]
            # the embedded modules are read (and logged) first; the stand-alone
            # MetaModule's own CVALs are applied last
            own = msgs[-(count + 5) :]
            got_names = [x[1].split()[1] for x in own]
            check(own[:count] == expected, f"user defined CVAL order ({tag})")
            check(got_names[count:] == fixed, f"fixed CVAL order ({tag}): {got_names}")
            check(
                all(x[0] == "DEBUG" for x in msgs), f"no unsupported CVALs ({tag})"
            )

            # inside a project
            outer = Project()
            outer.attach_module(mm)
            amp = outer.new_module(m.Amplifier, volume=300)
            mm >> amp >> outer.output
            pdata = outer.read()
            digest.update(pdata)
            loaded = read_sunvox_file(io.BytesIO(pdata))
            check(
                snapshot(loaded.modules[1]) == before,
                f"project round trip differs ({tag})",
            )
            check(loaded.modules[2].volume == 300, f"sibling amp volume ({tag})")
            check(loaded.read() == pdata, f"project rewrite not byte-stable ({tag})")
    return digest.hexdigest()


def surplus_and_missing_cvals():
    amp = m.Amplifier(volume=111, balance=-5, dc_offset=7, inverse=True, fine_volume=9)
    data = Synth(amp).read()
    ncvals = sum(1 for name, _ in iff_chunks(io.BytesIO(data)) if name == b"CVAL")
    keys = list(amp.controllers)
    check(ncvals == len(keys), "amplifier CVAL count")

    def add_surplus(items):
        out = []
        for name, payload in items:
            if name == b"CMID":
                out += [(b"CVAL", pack("<i", v)) for v in (1001, 1002, 1003)]
            out.append((name, payload))
        return out

    synth, msgs = read_with_log(rebuild(data, add_surplus))
    expected = [
        ("WARNING", f"Unsupported controller at index {ncvals + k} with raw value {v}")
        for k, v in ((2, 1003), (1, 1002), (0, 1001))
    ]
    expected += [
        ("DEBUG", f"Setting {name} from raw {amp.get_raw(name)}")
        for name in reversed(keys)
    ]
    check(msgs == expected, f"surplus CVAL log sequence: {msgs}")
    check(
        [getattr(synth.module, k) for k in keys] == [getattr(amp, k) for k in keys],
        "surplus CVALs must not disturb known values",
    )

    def drop_last_two(items):
        idx = [i for i, (name, _) in enumerate(items) if name == b"CVAL"][-2:]
        return [x for i, x in enumerate(items) if i not in idx]

    synth, msgs = read_with_log(rebuild(data, drop_last_two))
    expected = [
        ("DEBUG", f"Setting {name} from raw {amp.get_raw(name)}")
        for name in reversed(keys[:-2])
    ]
    check(msgs == expected, f"missing CVAL log sequence: {msgs}")
    defaults = m.Amplifier()
    for k in keys[-2:]:
        check(getattr(synth.module, k) == getattr(defaults, k), f"default kept: {k}")
    for k in keys[:-2]:
        check(getattr(synth.module, k) == getattr(amp, k), f"value loaded: {k}")

    def no_cvals(items):
        return [x for x in items if x[0] != b"CVAL"]

    synth, msgs = read_with_log(rebuild(data, no_cvals))
    check(msgs == [], "no CVALs -> nothing applied")


def metamodule_surplus():
    """A MetaModule accepts up to 5 + 96 CVALs whatever its count option says."""
    mm = build_metamodule(2)
    data = Synth(mm).read()

    def pad(items):
        out = []
        for name, payload in items:
            if name == b"CMID":
                # 5 fixed + 2 written; add 94 to fill + 2 beyond the 101 keys
                out += [(b"CVAL", pack("<i", 3)) for _ in range(96)]
            out.append((name, payload))
        return out

    synth, msgs = read_with_log(rebuild(data, pad))
    msgs = msgs[-(2 + 96 + 5) :]  # skip the embedded project's modules
    warnings = [x for x in msgs if x[0] == "WARNING"]
    check(
        warnings
        == [
            ("WARNING", "Unsupported controller at index 102 with raw value 3"),
            ("WARNING", "Unsupported controller at index 101 with raw value 3"),
        ],
        f"metamodule surplus warnings: {warnings}",
    )
    check(msgs[:2] == warnings, "warnings come before any value is applied")
    names = [x[1].split()[1] for x in msgs[2:]]
    wanted = [f"user_defined_{i}" for i in range(96, 0, -1)]
    wanted += ["tpl", "bpm", "play_patterns", "input_module", "volume"]
    check(names == wanted, "metamodule key order")
    mod = synth.module
    check(mod.user_defined_controllers == 2, "count option unchanged")
    check(mod.controller_values["user_defined_50"] == 3, "detached slot stored")
    check(
        [c.attached(mod) for c in mod.user_defined] == [True] * 2 + [False] * 94,
        "attach state follows count",
    )


def nul_handling():
    amp = m.Amplifier(name="abc")
    amp.midi_out_name = "port"
    data = Synth(amp).read()

    def tweak(items):
        out = []
        for name, payload in items:
            if name == b"SNAM":
                payload = b"ab\0cd\0zz"
            elif name == b"STYP":
                payload = b"Amplifier"  # no terminator at all
            elif name == b"SMIN":
                payload = b"\0hidden"
            out.append((name, payload))
        return out

    mod = read_sunvox_file(io.BytesIO(rebuild(data, tweak))).module
    check(mod.name == "ab", f"SNAM cut at first NUL: {mod.name!r}")
    check(mod.mtype == "Amplifier" and type(mod) is m.Amplifier, "STYP w/o NUL")
    check(mod.midi_out_name == "", f"SMIN leading NUL: {mod.midi_out_name!r}")

    def tweak2(items):
        out = []
        for name, payload in items:
            if name == b"SNAM":
                payload = "näme".encode("utf-8")
            elif name == b"STYP":
                payload = b"Amplifier\0junk\0"
            elif name == b"SMIN":
                payload = b"dev 1"
            out.append((name, payload))
        return out

    mod = read_sunvox_file(io.BytesIO(rebuild(data, tweak2))).module
    check(mod.name == "näme", "SNAM without NUL")
    check(type(mod) is m.Amplifier, "STYP with trailing junk")
    check(mod.midi_out_name == "dev 1", "SMIN without NUL")
    check(mod.flags == amp.flags | m.Amplifier.default_flags, "flags merged")

    def unknown_type(items):
        return [(n, b"NoSuchModule\0" if n == b"STYP" else p) for n, p in items]

    try:
        read_sunvox_file(io.BytesIO(rebuild(data, unknown_type)))
    except KeyError as e:
        check(e.args == ("NoSuchModule",), "KeyError argument")
    else:
        check(False, "unknown module type must raise KeyError")


def fixture_files():
    digest = hashlib.sha256()
    root = Path.cwd() / "tests" / "files"
    paths = sorted(root.glob("*.sunsynth")) + sorted(root.glob("*.sunvox"))
    check(len(paths) > 40, "fixtures found (run from the repository root)")
    for path in paths:
        obj, msgs = read_with_log(path.read_bytes())
        digest.update(path.name.encode())
        digest.update(repr(msgs).encode())
        digest.update(obj.read())
    for name, count in (("metamodule", 2), ("metamodule-option-78", 0)):
        mod = read_sunvox_file(str(root / f"{name}.sunsynth")).module
        check(mod.user_defined_controllers == count, f"{name}: controller count")
        check(
            [c.attached(mod) for c in mod.user_defined]
            == [True] * count + [False] * (96 - count),
            f"{name}: attach state",
        )
    mod = read_sunvox_file(str(root / "metamodule.sunsynth")).module
    check([c.label for c in mod.user_defined[:3]] == ["V", "W", None], "labels")
    return digest.hexdigest()


EXPECTED_ROUNDTRIP = "4d49be1b8b7732ab18c2c108b3ba97ba132165ae3cffe34f0a183f58465524b1"
EXPECTED_FIXTURES = "1cc91a78bad603f7e2e335c38d0e0b585936242b647f9cfd7e3eb3dd3f6970f7"


def main():
    d1 = roundtrip_checks()
    surplus_and_missing_cvals()
    metamodule_surplus()
    nul_handling()
    d2 = fixture_files()
    if "--print-digests" in sys.argv:
        print(d1, d2)
    check(d1 == EXPECTED_ROUNDTRIP, f"round trip digest {d1}")
    check(d2 == EXPECTED_FIXTURES, f"fixture digest {d2}")
    if FAILURES:
        print(f"{len(FAILURES)} check(s) failed")
        sys.exit(1)
    print("PASS")


if __name__ == "__main__":
    main()
