"""Behaviour check for C15 refactoring 3.

Focus: rv.readers.module.ModuleReader -- STYP (module construction and the list
of CVAL slots, incl. the 96 user-defined MetaModule slots), SEND (mapping-derived
value types first, then CVALs applied last-to-first, surplus CVALs warned about),
NUL-terminated string fields and link arrays; plus full MetaModule save/load
round trips (stand-alone and in-project, nested).

Run:  cd <root> && PYTHONPATH=<root>/src/python /venv/bin/python check.py
"""
import hashlib
import io
import logging
import sys
from struct import pack

from rv.api import Project, Synth, m, read_sunvox_file
from rv.controller import CompactRange, Range
from rv.lib.iff import write_chunk
from rv.modules.metamodule import MAX_USER_DEFINED_CONTROLLERS, MetaModule, UserDefined

logging.getLogger().addHandler(logging.NullHandler())
logging.lastResort = None

FAILURES = []
OBSERVED = []


def check(cond, msg):
    if not cond:
        FAILURES.append(msg)


def observe(*items):
    OBSERVED.append(repr(items))


def mapping_pairs(mm):
    return [(x.module, x.controller) for x in mm.mappings.values]


def attach_state(mm):
    return [c.attached(mm) for c in mm.user_defined]


def plain(v):
    return getattr(v, "value", v) if not isinstance(v, (int, bool)) else v


def snapshot(mm, depth=0):
    """Everything the property talks about, recursively."""
    snap = {
        "count": mm.user_defined_controllers,
        "mappings": mapping_pairs(mm),
        "labels": [c.label for c in mm.user_defined],
        "attached": attach_state(mm),
        "values": [plain(mm.controller_values[c.name]) for c in mm.user_defined],
        "types": [repr(c.value_type) for c in mm.user_defined],
        "fixed": [plain(mm.controller_values[k]) for k in list(mm.controllers)[:5]],
        "aliases": list(mm.user_defined_aliases),
        "inner": [],
    }
    for mod in mm.project.modules:
        if mod is None:
            snap["inner"].append(None)
        elif isinstance(mod, MetaModule):
            snap["inner"].append(("MetaModule", mod.name, snapshot(mod, depth + 1)))
        else:
            snap["inner"].append(
                (
                    mod.mtype,
                    mod.name,
                    [plain(mod.controller_values[k]) for k in mod.controllers],
                    list(mod.in_links),
                )
            )
    return snap


def build_inner(tag=0):
    p = Project()
    p.name = f"inner{tag}"
    gen = p.new_module(m.Generator, volume=77 + tag, name="g")
    ana = p.new_module(m.AnalogGenerator, waveform="saw")
    ms = p.new_module(m.MultiSynth, transpose=-5)
    flt = p.new_module(m.Filter, name="flt")
    amp = p.new_module(m.Amplifier, dc_offset=-20, inverse=True)
    gen >> flt >> amp >> p.output
    ana >> p.output
    return p


# (module, controller) targets covering range / enum / negative range / boolean
TARGETS = [
    (1, 0),  # Generator.volume
    (2, 1),  # AnalogGenerator.waveform (enum)
    (3, 0),  # MultiSynth.transpose (CompactRange, negative min)
    (4, 3),  # Filter.type (enum)
    (5, 2),  # Amplifier.dc_offset (negative min)
    (5, 3),  # Amplifier.inverse (bool)
    (0, 0),  # unmapped
    (1, 200),  # controller index out of range
    (77, 0),  # module index out of range
    (5, 0),
]


def build_mm(count, tag=0, project=None, labels=None):
    mm = MetaModule(project=project or build_inner(tag), name=f"mm{tag}")
    mm.user_defined_controllers = count
    for i in range(MAX_USER_DEFINED_CONTROLLERS):
        if i < count + 2:
            mm.mappings.values[i] = MetaModule.Mapping(TARGETS[(i + tag) % len(TARGETS)])
    for i, label in (labels or {}).items():
        mm.user_defined[i].label = label
    return mm


def roundtrip_synth(mm):
    data = Synth(mm).read()
    loaded = read_sunvox_file(io.BytesIO(data))
    return data, loaded.module


# ---------------------------------------------------------------------------
# helpers: hand-made chunk streams and log capture
# ---------------------------------------------------------------------------
class Capture(logging.Handler):
    def __init__(self):
        super().__init__(level=logging.DEBUG)
        self.records = []

    def emit(self, record):
        self.records.append((record.levelname, record.getMessage()))


READER_LOG = logging.getLogger("rv.readers.module")


def read_with_log(chunks, project=False):
    buf = io.BytesIO()
    for name, data in chunks:
        write_chunk(buf, name, data)
    buf.seek(0)
    cap = Capture()
    old_level = READER_LOG.level
    old_propagate = READER_LOG.propagate
    READER_LOG.addHandler(cap)
    READER_LOG.setLevel(logging.DEBUG)
    READER_LOG.propagate = False
    try:
        loaded = read_sunvox_file(buf)
    finally:
        READER_LOG.removeHandler(cap)
        READER_LOG.setLevel(old_level)
        READER_LOG.propagate = old_propagate
    return loaded, cap.records


def i32(n):
    return pack("<i", n)


def synth_chunks(mod):
    return [c for c in Synth(mod).chunks() if c[0] is not None]


def replace_cvals(chunks, raw_values):
    """Return the stream with its CVAL run replaced by the given raw values."""
    out, done = [], False
    for name, data in chunks:
        if name == b"CVAL":
            if not done:
                out.extend((b"CVAL", i32(v)) for v in raw_values)
                done = True
            continue
        out.append((name, data))
    if not done:  # no CVAL in the stream: put them before CMID/CHNK/SEND
        idx = next(i for i, (n, _) in enumerate(out) if n in (b"CMID", b"CHNK", b"SEND"))
        out[idx:idx] = [(b"CVAL", i32(v)) for v in raw_values]
    return out


def outer(records, mm):
    """Drop the records produced while the embedded project was being loaded."""
    _, inner = read_with_log(list(mm.project.chunks()))
    check(records[: len(inner)] == inner, "embedded project is loaded before the outer CVALs")
    return records[len(inner) :]


def setting_msgs(records):
    return [msg for lvl, msg in records if msg.startswith("Setting ")]


def unsupported_msgs(records):
    return [msg for lvl, msg in records if msg.startswith("Unsupported ")]


# ---------------------------------------------------------------------------
# 1. CVAL application: order, surplus values, missing values
# ---------------------------------------------------------------------------
def test_cval_application():
    # plain module
    gen = m.Amplifier(volume=300, balance=-7, dc_offset=5, inverse=True)
    names = list(gen.controllers)
    base = synth_chunks(gen)
    n_ctl = len(names)
    raws = [gen.get_raw(n) for n in names]
    loaded, recs = read_with_log(base)
    check(
        setting_msgs(recs) == [f"Setting {n} from raw {r}" for n, r in reversed(list(zip(names, raws)))],
        f"CVALs applied last-to-first: {setting_msgs(recs)[:3]}",
    )
    check(unsupported_msgs(recs) == [], "no surplus warnings for a complete stream")
    check(loaded.module.controllers_loaded == set(names), "controllers_loaded complete")
    observe("amp", recs)

    # surplus values: warned about (highest index first) before any value is applied
    surplus = [111, -5, 0]
    loaded, recs = read_with_log(replace_cvals(base, raws + surplus))
    msgs = [msg for _, msg in recs if msg.startswith(("Setting", "Unsupported"))]
    want = [
        f"Unsupported controller at index {n_ctl + k} with raw value {surplus[k]}"
        for k in (2, 1, 0)
    ] + [f"Setting {n} from raw {r}" for n, r in reversed(list(zip(names, raws)))]
    check(msgs == want, f"surplus ordering: {msgs[:5]}")
    check([lvl for lvl, msg in recs if msg.startswith("Unsupported")] == ["WARNING"] * 3, "warning level")
    check([lvl for lvl, msg in recs if msg.startswith("Setting")] == ["DEBUG"] * n_ctl, "debug level")
    check(loaded.module.balance == -7 and loaded.module.inverse is True, "values with surplus")
    observe("amp surplus", recs)

    # fewer values than controllers: only the leading ones are set / marked loaded
    for k in range(n_ctl + 1):
        loaded, recs = read_with_log(replace_cvals(base, raws[:k]))
        check(len(setting_msgs(recs)) == k and not unsupported_msgs(recs), f"{k} values applied")
        mod = loaded.module
        for i, n in enumerate(names):
            want_v = plain(getattr(gen, n)) if i < k else plain(type(gen)().controller_values[n])
            check(plain(mod.controller_values[n]) == want_v, f"k={k} {n}")
    # Module.__init__ already marks everything as loaded; the reader only adds to it
    check(loaded.module.controllers_loaded == set(names), "controllers_loaded")

    # out-of-range raw value: kept, with a warning from the module (not the reader)
    loaded, recs = read_with_log(replace_cvals(base, [99999] + raws[1:]))
    check(loaded.module.volume == 99999, "out-of-range value kept on read")
    observe("amp out of range", recs)

    # dependent ranges rely on the reverse order
    for cls, kw in ((m.Lfo, dict(frequency_unit="hz", freq=9000)), (m.Delay, dict(delay_unit="ms", delay_l=3000)), (m.Echo, {}), (m.Vibrato, {}), (m.Loop, {})):
        mod = cls(**kw)
        loaded, recs = read_with_log(synth_chunks(mod))
        check(
            [plain(v) for v in loaded.module.controller_values.values()]
            == [plain(v) for v in mod.controller_values.values()],
            f"{cls.__name__} values",
        )
        observe(cls.__name__, recs)

    # metamodule: 5 fixed + 96 user-defined slots regardless of the count
    for count in (0, 2, 96):
        mm = build_mm(count, tag=1)
        base = synth_chunks(mm)
        n_written = sum(1 for n, _ in base if n == b"CVAL")
        check(n_written == 5 + count, f"writer emits 5+{count} CVALs")
        loaded, recs = read_with_log(base)
        recs = outer(recs, mm)
        got = setting_msgs(recs)
        check(len(got) == 5 + count, f"mm {count}: {len(got)} settings")
        check(got[-1].startswith("Setting volume from raw"), "volume applied last")
        if count:
            check(got[0].startswith(f"Setting user_defined_{count} from raw"), "highest user ctl first")
        observe("mm", count, recs)
        # pad to all 101 slots, then overflow by 2
        all_raw = [1, 2, 0, 125, 6] + [k % 2 for k in range(96)]
        loaded, recs = read_with_log(replace_cvals(base, all_raw))
        recs = outer(recs, mm)
        check(len(setting_msgs(recs)) == 101 and not unsupported_msgs(recs), "101 slots accepted")
        check(loaded.module.controllers_loaded >= {f"user_defined_{k + 1}" for k in range(96)}, "all loaded")
        check(sum(attach_state(loaded.module)) == count, "attach state follows the count, not the CVALs")
        observe("mm full", count, snapshot(loaded.module))
        loaded, recs = read_with_log(replace_cvals(base, all_raw + [7, 8]))
        recs = outer(recs, mm)
        check(
            unsupported_msgs(recs)
            == [
                "Unsupported controller at index 102 with raw value 8",
                "Unsupported controller at index 101 with raw value 7",
            ],
            f"mm overflow warnings {unsupported_msgs(recs)}",
        )
        first_setting = next(i for i, (_, msg) in enumerate(recs) if msg.startswith("Setting"))
        last_warning = max(i for i, (_, msg) in enumerate(recs) if msg.startswith("Unsupported"))
        check(last_warning < first_setting, "warnings precede settings")

    # value types are re-derived from the mappings *before* the CVALs are applied
    mm = build_mm(6)
    base = synth_chunks(mm)
    raw = [256, 1, 0, 125, 6, 200, 3, 100, 2, 80, 1]
    loaded, recs = read_with_log(replace_cvals(base, raw))
    recs = outer(recs, mm)
    mod = loaded.module
    got = [plain(getattr(mod, f"user_defined_{k + 1}")) for k in range(6)]
    check(got == [200, 3, -28, 2, -48, True], f"typed user values {got}")
    check(type(mod.user_defined_2).__name__ == "Waveform" and mod.user_defined_6 is True, "enum/bool types")
    observe("typed", recs)

    # no CVALs at all, and an in-project module
    loaded, recs = read_with_log(replace_cvals(base, []))
    recs = outer(recs, mm)
    check(not setting_msgs(recs), "no CVALs -> nothing applied")
    check(loaded.module.user_defined_1 == 77, "value taken from the embedded module")
    p = Project()
    mm = build_mm(3, labels={1: "mid"})
    p.attach_module(mm)
    p.new_module(m.Amplifier, balance=-100)
    loaded, recs = read_with_log(list(p.chunks()))
    recs = outer(recs, mm)
    check(len(setting_msgs(recs)) == 8 + 9, "in-project settings")
    check(loaded.modules[1].user_defined[1].label == "mid", "in-project label")
    observe("project", recs)


# ---------------------------------------------------------------------------
# 2. STYP / SNAM / SMIN / SLNK field decoding
# ---------------------------------------------------------------------------
def test_field_decoding():
    gen = m.Generator(name="tone")
    base = synth_chunks(gen)

    def with_field(name, data, after=None):
        out = [c for c in base if c[0] != name]
        idx = next(i for i, (n, _) in enumerate(out) if n == (after or b"SFFF")) + 1
        out.insert(idx, (name, data))
        return out

    for payload, want in [
        (b"tone\0" + b"\0" * 27, "tone"),
        (b"unterminated", "unterminated"),
        (b"cut\0tail", "cut"),
        (b"\0hidden", ""),
        (b"", ""),
        ("é\0".encode("utf8"), "é"),
    ]:
        loaded, _ = read_with_log(with_field(b"SNAM", payload))
        check(loaded.module.name == want, f"SNAM {payload!r} -> {loaded.module.name!r}")
        check(type(loaded.module).__name__ == "Generator", "class from STYP")
    for payload, want in [(b"port\0", "port"), (b"port", "port"), (b"a\0b\0", "a"), (b"\0", "")]:
        loaded, _ = read_with_log(with_field(b"SMIN", payload, after=b"SMII"))
        check(loaded.module.midi_out_name == want, f"SMIN {payload!r}")
    for payload in (b"Generator", b"Generator\0", b"Generator\0garbage"):
        loaded, _ = read_with_log(with_field(b"STYP", payload, after=b"SNAM"))
        mod = loaded.module
        check(type(mod).__name__ == "Generator" and mod.mtype == "Generator", f"STYP {payload!r}")
        check(mod.name == "tone", "name carried over")
        check(mod.flags == (gen.flags | type(gen).default_flags), "flags merged")
    for payload, exc in [(b"NoSuchModule\0", KeyError), (b"", KeyError), (b"\xff\xfe\0", UnicodeDecodeError)]:
        try:
            read_with_log(with_field(b"STYP", payload, after=b"SNAM"))
        except exc:
            pass
        else:
            check(False, f"STYP {payload!r} must raise {exc.__name__}")
    # STYP before SNAM: the name then lands on the real module
    swapped = [c for c in base if c[0] != b"SNAM"]
    idx = next(i for i, (n, _) in enumerate(swapped) if n == b"STYP") + 1
    swapped.insert(idx, (b"SNAM", b"late name\0"))
    loaded, _ = read_with_log(swapped)
    check(loaded.module.name == "late name", "SNAM after STYP")
    # custom flags survive
    custom = [(n, pack("<I", 0x02000049) if n == b"SFFF" else d) for n, d in base]
    loaded, _ = read_with_log(custom)
    check(loaded.module.flags == 0x02000049 | m.Generator.default_flags, "custom flags")
    # every module type: the CVAL slots line up with the attached controllers
    from rv.modules import MODULE_CLASSES
    for mtype in sorted(MODULE_CLASSES):
        cls = MODULE_CLASSES[mtype]
        if mtype == "Output":
            continue
        mod = cls()
        chunks = synth_chunks(mod)
        loaded, recs = read_with_log(chunks)
        attached = [n for n, c in mod.controllers.items() if c.attached(mod)]
        check(
            [msg.split()[1] for msg in setting_msgs(recs)] == list(reversed(attached)),
            f"{mtype}: slot names",
        )
        check(not unsupported_msgs(recs), f"{mtype}: no surplus")
        observe(mtype, setting_msgs(recs))

    # links inside a project
    p = Project()
    a = p.new_module(m.Generator)
    b = p.new_module(m.Amplifier)
    c = p.new_module(m.Amplifier)
    a >> b >> p.output
    a >> c >> p.output
    chunks = list(p.chunks())

    def relink(module_no, name, data):
        out, seen = [], -1
        for n, d in chunks:
            if n == b"SFFF":
                seen += 1
            if n == name and seen == module_no:
                d = data
            out.append((n, d))
        return out

    for payload, want in [
        (pack("<iii", 2, 3, -1), [2, 3]),
        (pack("<iiii", -1, 2, -1, -1), [-1, 2]),
        (pack("<ii", -1, -1), []),
        (pack("<i", 3), [3]),
        (b"", []),
    ]:
        loaded, _ = read_with_log(relink(0, b"SLNK", payload))
        check(loaded.modules[0].in_links == want, f"SLNK {payload!r} -> {loaded.modules[0].in_links}")
    try:
        read_with_log(relink(0, b"SLNK", b"\x02\0\0\0\x03\0"))
    except Exception as e:
        check(type(e).__name__ == "error" and "8 bytes" not in str(e) and "4 bytes" in str(e), f"ragged SLNK: {e}")
    else:
        check(False, "ragged SLNK must fail")
    with_slots = []
    for n, d in relink(0, b"SLNK", pack("<iii", 2, 3, -1)):
        with_slots.append((n, d))
        if n == b"SLNK" and d == pack("<iii", 2, 3, -1):
            with_slots.append((b"SLnK", pack("<iii", 0, 5, -1)))
    loaded, _ = read_with_log(with_slots)
    check(loaded.modules[0].in_link_slots == [0, 5], f"SLnK {loaded.modules[0].in_link_slots}")
    observe("links", [(mod.in_links, mod.in_link_slots, mod.out_links, mod.out_link_slots) for mod in loaded.modules])


# ---------------------------------------------------------------------------
# 3. All bundled fixtures re-serialise to the same bytes as before
# ---------------------------------------------------------------------------
def test_fixture_files():
    import glob

    acc = hashlib.sha256()
    files = sorted(glob.glob("tests/files/*.sunsynth") + glob.glob("tests/files/*.sunvox"))
    check(len(files) > 40, "fixtures found")
    for fn in files:
        with open(fn, "rb") as f:
            raw = f.read()
        try:
            obj = read_sunvox_file(io.BytesIO(raw))
            out = obj.read()
        except Exception as e:  # keep whatever happens stable
            out = type(e).__name__.encode()
        acc.update(fn.split("/")[-1].encode() + b"=" + hashlib.sha256(out).digest())
    observe("fixtures", acc.hexdigest())


# ---------------------------------------------------------------------------
# 4. Round trips: stand-alone, in-project, nested
# ---------------------------------------------------------------------------
LABELS = {0: "Vol", 1: "", 2: "Trans pose", 4: "9 lives", 5: "été", 7: "a\0b", 40: "forty", 95: "last"}


def expected_label(i, count, labels):
    if i >= count or i not in labels:
        return None
    raw = labels[i]
    return raw.split("\0")[0]


def test_roundtrips():
    digest_src = []
    for count in (0, 1, 2, 3, 6, 8, 11, 41, 95, 96):
        mm = build_mm(count, tag=count, labels=LABELS)
        data, loaded = roundtrip_synth(mm)
        digest_src.append(data)
        check(loaded.user_defined_controllers == count, f"synth count {count}")
        check(mapping_pairs(loaded) == mapping_pairs(mm), f"synth mappings {count}")
        check(
            [c.label for c in loaded.user_defined]
            == [expected_label(i, count, LABELS) for i in range(96)],
            f"synth labels {count}: {[c.label for c in loaded.user_defined][:8]}",
        )
        check(attach_state(loaded) == [True] * count + [False] * (96 - count), f"attach {count}")
        check(loaded.project.name == f"inner{count}", f"embedded project name {count}")
        check(
            [type(x).__name__ for x in loaded.project.modules]
            == [type(x).__name__ for x in mm.project.modules],
            f"embedded modules {count}",
        )
        check(loaded.project.modules[5].dc_offset == -20, "embedded negative value")
        check(loaded.project.modules[5].inverse is True, "embedded bool value")
        data2, loaded2 = roundtrip_synth(loaded)
        if count <= 7:  # label 7 holds an embedded NUL and is truncated on load
            check(data2 == data, f"synth second write identical for count {count}")
        else:
            check(len(data2) == len(data) - 2, f"only the NUL label shrinks for count {count}")
        check(roundtrip_synth(loaded2)[0] == data2, f"synth write is a fixpoint for {count}")
        check(snapshot(loaded2) == snapshot(loaded), f"synth snapshot stable {count}")
        observe(count, snapshot(loaded))

        # drive values through the user controllers, then round trip again
        for i in range(min(count, 10)):
            t = loaded.user_defined[i].value_type
            name = f"user_defined_{i + 1}"
            if repr(t) == "<Range 0..44100>":
                continue  # unresolved mapping: nothing to drive
            if isinstance(t, Range):
                setattr(loaded, name, t.max - 1 if t.min >= 0 else 0)
            elif isinstance(t, type) and t is not bool:
                setattr(loaded, name, list(t)[-1])
        data3, loaded3 = roundtrip_synth(loaded)
        digest_src.append(data3)
        for i in range(count):
            name = f"user_defined_{i + 1}"
            check(
                plain(getattr(loaded3, name)) == plain(getattr(loaded, name)),
                f"count {count} {name} stored value: {getattr(loaded3, name)!r} != {getattr(loaded, name)!r}",
            )
        observe(count, "driven", snapshot(loaded3))

    # in-project and nested three deep
    level3 = build_mm(2, tag=3, labels={0: "deep", 1: "deeper"})
    p2 = build_inner(20)
    p2.attach_module(level3)
    level3 >> p2.output
    level2 = build_mm(7, tag=1, project=p2, labels={0: "l2", 6: "l2-6", 9: "nope"})
    level2.mappings.values[3] = MetaModule.Mapping((6, 2))  # play_patterns of nested mm
    level2.mappings.values[4] = MetaModule.Mapping((6, 6))  # user_defined_2 of nested mm
    top = Project()
    top.name = "top"
    top.attach_module(level2)
    other = top.new_module(m.MetaModule)  # default, empty metamodule
    third = build_mm(96, tag=5, labels={i: f"L{i}" for i in range(96)})
    top.attach_module(third)
    level2 >> top.output
    data = top.read()
    digest_src.append(data)
    loaded_top = read_sunvox_file(io.BytesIO(data))
    check(loaded_top.read() == data, "project second write identical")
    l2 = loaded_top.modules[1]
    check(isinstance(l2, MetaModule) and l2.user_defined_controllers == 7, "l2 count")
    check([c.label for c in l2.user_defined[:10]] == ["l2", None, None, None, None, None, "l2-6", None, None, None], "l2 labels")
    check(mapping_pairs(l2) == mapping_pairs(level2), "l2 mappings")
    l3 = l2.project.modules[6]
    check(isinstance(l3, MetaModule) and l3.user_defined_controllers == 2, "l3 count")
    check([c.label for c in l3.user_defined[:3]] == ["deep", "deeper", None], "l3 labels")
    check(mapping_pairs(l3) == mapping_pairs(level3), "l3 mappings")
    check(l3.project.name == "inner3" and l3.project.modules[1].volume == 80, "l3 project")
    check(loaded_top.modules[2].user_defined_controllers == 0, "empty mm count")
    check(len(loaded_top.modules[2].project.modules) == 1, "empty mm project")
    l96 = loaded_top.modules[3]
    check([c.label for c in l96.user_defined] == [f"L{i}" for i in range(96)], "96 labels")
    check(all(attach_state(l96)), "96 attached")
    observe("nested", snapshot(l2), snapshot(loaded_top.modules[2]), snapshot(l96))
    # stand-alone extraction of the nested module
    d_in, again = roundtrip_synth(l2)
    digest_src.append(d_in)
    check(snapshot(again) == snapshot(l2), "nested stand-alone snapshot")

    # bundled fixtures
    for fn in ("metamodule", "metamodule-option-78", "metamodule-option-79", "metamodule-option-7a"):
        try:
            with open(f"tests/files/{fn}.sunsynth", "rb") as f:
                raw = f.read()
        except OSError:
            continue
        mod = read_sunvox_file(io.BytesIO(raw)).module
        observe(fn, snapshot(mod))
        d1, mod2 = roundtrip_synth(mod)
        digest_src.append(d1)
        check(snapshot(mod2) == snapshot(mod), f"fixture {fn} snapshot stable")
    return hashlib.sha256(b"".join(digest_src)).hexdigest()



EXPECTED_BYTES_DIGEST = "a55a8b13a31c5f6f19d8eca31ea27433f4d8c57e94fc7da5e30f18efb5bbccc9"
EXPECTED_OBS_DIGEST = "6c080c42ca83bcba0057e940a86973fdeb4130ce14a5b0d1dc97f6ce71c457a9"


def main():
    test_cval_application()
    test_field_decoding()
    test_fixture_files()
    bytes_digest = test_roundtrips()
    obs_digest = hashlib.sha256("\n".join(OBSERVED).encode()).hexdigest()
    if "--digests" in sys.argv:
        print(bytes_digest, obs_digest)
    check(bytes_digest == EXPECTED_BYTES_DIGEST, f"serialized bytes digest changed: {bytes_digest}")
    check(obs_digest == EXPECTED_OBS_DIGEST, f"observation digest changed: {obs_digest}")
    if FAILURES:
        print("FAIL")
        for f in FAILURES[:40]:
            print(" -", f)
        sys.exit(1)
    print("PASS")


if __name__ == "__main__":
    main()
