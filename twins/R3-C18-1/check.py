"""Behaviour check for C18 refactoring 1 (rv/readers/reader.py).

Run from the repository root:
    PYTHONPATH=src/python python check.py
"""
import glob
import hashlib
import io
import logging
import os
import struct
import sys
from pathlib import Path

import rv.errors as errors
import rv.modules.metamodule as mm_mod
import rv.modules.sampler as smp_mod
import rv.readers.reader as reader_mod
from rv.api import read_sunvox_file

FIXTURE_DIR = os.path.join("tests", "files")
if not os.path.isdir(FIXTURE_DIR):
    sys.exit("run from the repository root (tests/files not found)")

FIXTURES = sorted(glob.glob(os.path.join(FIXTURE_DIR, "**", "*.sun*"), recursive=True))
assert len(FIXTURES) >= 50, FIXTURES
NESTED_FIXTURES = [
    p for p in FIXTURES if "metamodule" in p or os.path.basename(p) == "sampler.sunsynth"
]
assert len(NESTED_FIXTURES) >= 5, NESTED_FIXTURES

REAL_PATH_OPEN = Path.open
REAL_BYTESIO = io.BytesIO
CHECKS = 0

logging.disable(logging.CRITICAL)


def ok(cond, *msg):
    global CHECKS
    CHECKS += 1
    if not cond:
        print("FAIL:", *msg)
        sys.exit(1)


class Injected(OSError):
    pass


class State:
    def __init__(self):
        self.reset()

    def reset(self, fail_at=None, fail_at_offset=None, nested_limit=None):
        self.reads = 0
        self.fail_at = fail_at
        self.fail_at_offset = fail_at_offset
        self.nested_limit = nested_limit
        self.flags_seen = set()
        self.nested_made = 0
        self.opened = []

    def on_read(self, f, top_level):
        self.flags_seen.add(errors.RAISE_CONTROLLER_VALUE_ERRORS)
        index = self.reads
        self.reads += 1
        if self.fail_at is not None and index == self.fail_at:
            raise Injected("injected at read {}".format(index))
        if top_level and self.fail_at_offset is not None:
            if f.tell() == self.fail_at_offset:
                raise Injected("injected at offset {}".format(self.fail_at_offset))


STATE = State()
FAILED = object()


class NestedIO(REAL_BYTESIO):
    """Stands in for BytesIO inside the module classes, to watch nested loads."""

    def __init__(self, *args):
        if args and STATE.nested_limit is not None:
            args = (args[0][: STATE.nested_limit],) + args[1:]
        if args:
            STATE.nested_made += 1
        super().__init__(*args)

    def read(self, *args):
        STATE.on_read(self, False)
        return super().read(*args)


class TopIO(REAL_BYTESIO):
    def read(self, *args):
        STATE.on_read(self, True)
        return super().read(*args)


class FileProxy:
    """Wraps whatever Path.open returned; the library only sees this object."""

    def __init__(self, real):
        self._real = real
        self.close_calls = 0

    @property
    def closed(self):
        return self._real.closed

    def read(self, *args):
        STATE.on_read(self._real, True)
        return self._real.read(*args)

    def close(self):
        self.close_calls += 1
        return self._real.close()

    def __getattr__(self, name):
        return getattr(self._real, name)


VIRTUAL_FILES = {}


def patched_open(self, *args, **kwargs):
    key = str(self)
    if key in VIRTUAL_FILES:
        real = REAL_BYTESIO(VIRTUAL_FILES[key])
    else:
        real = REAL_PATH_OPEN(self, *args, **kwargs)
    proxy = FileProxy(real)
    STATE.opened.append(proxy)
    return proxy


def describe(obj):
    if obj is None:
        return "ok:None"
    try:
        data = obj.read()
    except Exception as e:
        return "ok:{}:unwritable:{}".format(type(obj).__name__, type(e).__name__)
    return "ok:{}:{}".format(type(obj).__name__, hashlib.sha1(data).hexdigest()[:12])


def run_load(source, initial, expect_opened=None, **plan):
    """Load once under observation; returns an outcome string."""
    STATE.reset(**plan)
    errors.RAISE_CONTROLLER_VALUE_ERRORS = initial
    Path.open = patched_open
    mm_mod.BytesIO = NestedIO
    smp_mod.BytesIO = NestedIO
    try:
        outcome = None
        try:
            obj = read_sunvox_file(source)
        except BaseException as e:  # noqa
            outcome = "exc:{}".format(type(e).__name__)
            if isinstance(e, Injected):
                outcome += ":" + str(e)
            obj = FAILED
        after = errors.RAISE_CONTROLLER_VALUE_ERRORS
        flags_seen = set(STATE.flags_seen)
        opened = list(STATE.opened)
        nested = STATE.nested_made
        reads = STATE.reads
    finally:
        Path.open = REAL_PATH_OPEN
        mm_mod.BytesIO = REAL_BYTESIO
        smp_mod.BytesIO = REAL_BYTESIO
        errors.RAISE_CONTROLLER_VALUE_ERRORS = True
    ok(after is initial, "flag not restored", source, initial, plan, after)
    ok(
        flags_seen <= {errors.RAISE_RANGE_ERRORS_ON_READ},
        "flag while loading",
        source,
        flags_seen,
    )
    if expect_opened is not None:
        ok(len(opened) == expect_opened, "opened count", source, len(opened))
    for proxy in opened:
        ok(proxy.closed, "file left open", source, initial, plan)
        ok(proxy.close_calls == 1, "close calls", source, proxy.close_calls)
    if obj is not FAILED:
        outcome = describe(obj)
    return outcome, (nested, reads)


def iff_boundaries(data):
    """Offsets at which a top-level chunk starts (plus the end of data)."""
    offsets = []
    pos = 0
    while pos + 8 <= len(data):
        offsets.append(pos)
        (size,) = struct.unpack("<I", data[pos + 4 : pos + 8])
        pos += 8 + size
    offsets.append(len(data))
    return sorted(set(o for o in offsets if o <= len(data)))


def sample_indices(n, limit):
    if n <= limit:
        return list(range(n))
    head = list(range(limit // 3))
    tail = list(range(n - limit // 3, n))
    step = max(1, (n - 2 * (limit // 3)) // (limit // 3))
    middle = list(range(limit // 3, n - limit // 3, step))
    return sorted(set(head + middle + tail))


OUTCOMES = []


def note(tag, outcome):
    OUTCOMES.append("{}={}".format(tag, outcome))


def core_property_sweep():
    for path in FIXTURES:
        with open(path, "rb") as f:
            data = f.read()
        name = os.path.relpath(path, FIXTURE_DIR)
        nested_fixture = path in NESTED_FIXTURES

        # --- clean loads, every kind of source, both initial settings
        baseline = None
        for initial in (True, False):
            out_str, (nested, total_reads) = run_load(path, initial, expect_opened=1)
            out_path, _ = run_load(Path(path), initial, expect_opened=1)
            out_mem, _ = run_load(TopIO(data), initial, expect_opened=0)
            with open(path, "rb") as own:
                out_own, _ = run_load(own, initial, expect_opened=0)
                ok(not own.closed, "caller's file was closed", path)
            ok(out_str.startswith("ok:"), "clean load failed", path, out_str)
            ok(out_str == out_path == out_mem == out_own, "sources differ", path)
            ok(baseline in (None, out_str), "initial setting changed result", path)
            baseline = out_str
            if nested_fixture:
                ok(nested >= 1, "no nested load seen", path)
        note(name, baseline)
        ok(total_reads > 3, "too few reads", path, total_reads)

        # --- a fault injected at individual read calls (nested reads included)
        limit = 400 if nested_fixture else 90
        for index in sample_indices(total_reads, limit):
            initial = bool(index % 2)
            expected = "exc:Injected:injected at read {}".format(index)
            out, _ = run_load(path, initial, expect_opened=1, fail_at=index)
            ok(out == expected, "fault at read", path, index, out)
            if nested_fixture or index % 5 == 0:
                out, _ = run_load(TopIO(data), not initial, fail_at=index)
                ok(out == expected, "fault at read (memory)", path, index, out)
        out, _ = run_load(path, True, expect_opened=1, fail_at=total_reads)
        ok(out == baseline, "fault past the end", path, out)

        # --- a fault at each chunk boundary, truncation at each boundary
        boundaries = iff_boundaries(data)
        virtual = os.path.join(FIXTURE_DIR, "virtual-" + os.path.basename(path))
        for n, offset in enumerate(boundaries):
            initial = bool(n % 2)
            out, _ = run_load(
                path, initial, expect_opened=1, fail_at_offset=offset
            )
            if offset < len(data):
                ok(
                    out == "exc:Injected:injected at offset {}".format(offset),
                    "fault at boundary",
                    path,
                    offset,
                    out,
                )
            VIRTUAL_FILES[virtual] = data[:offset]
            out_a, _ = run_load(virtual, initial, expect_opened=1)
            out_b, _ = run_load(TopIO(data[:offset]), not initial)
            ok(out_a == out_b, "truncated: path vs memory", path, offset)
            note("{}@{}".format(name, offset), out_a)
        ok(out_a == baseline, "untruncated virtual file", path)

        # --- truncation at sampled byte offsets (and next to the boundaries)
        step = max(1, len(data) // 24)
        offsets = set(range(0, len(data), step))
        for b in boundaries[:40]:
            offsets.update((b - 1, b + 1, b + 4, b + 7, b + 9))
        for n, offset in enumerate(sorted(o for o in offsets if 0 <= o < len(data))):
            initial = bool(n % 2)
            VIRTUAL_FILES[virtual] = data[:offset]
            out_a, _ = run_load(Path(virtual), initial, expect_opened=1)
            note("{}~{}".format(name, offset), out_a)
        VIRTUAL_FILES.clear()

        # --- nested data cut short while the outer file is intact
        if nested_fixture:
            for limit in list(range(0, 64)) + list(range(64, 4096, 97)):
                for initial in (True, False):
                    out, (made, _) = run_load(
                        path, initial, expect_opened=1, nested_limit=limit
                    )
                    ok(made >= 1, "nested load not reached", path)
                note("{}#{}".format(name, limit), out)

    # --- sources that cannot even be opened
    for initial in (True, False):
        for bad in ("tests/files/does-not-exist.sunvox", Path(FIXTURE_DIR), ""):
            out, _ = run_load(bad, initial)
            ok(out.startswith("exc:"), "bad path loaded?", bad, out)
            note("bad:{!r}".format(str(bad)), out)
        out, _ = run_load(TopIO(b""), initial)
        note("empty", out)
        out, _ = run_load(TopIO(b"JUNKJUNKJUNK"), initial)
        note("junk", out)
        for bad in (None, 17, b"tests/files/empty.sunvox"):
            out, _ = run_load(bad, initial)
            note("type:{}".format(type(bad).__name__), out)


def context_manager_checks():
    cm = errors.override_raise_controller_value_errors
    for initial in (True, False):
        for new in (True, False):
            errors.RAISE_CONTROLLER_VALUE_ERRORS = initial
            with cm(new):
                ok(errors.RAISE_CONTROLLER_VALUE_ERRORS is new, "cm enter")
                with cm(not new):
                    ok(errors.RAISE_CONTROLLER_VALUE_ERRORS is (not new), "cm nest")
                ok(errors.RAISE_CONTROLLER_VALUE_ERRORS is new, "cm nest exit")
            ok(errors.RAISE_CONTROLLER_VALUE_ERRORS is initial, "cm exit")
            try:
                with cm(new):
                    raise KeyError("boom")
            except KeyError:
                pass
            ok(errors.RAISE_CONTROLLER_VALUE_ERRORS is initial, "cm exit on error")
    errors.RAISE_CONTROLLER_VALUE_ERRORS = True

    # lenient mode is not left on after a load, so bad values raise again
    from rv.api import m

    read_sunvox_file(os.path.join(FIXTURE_DIR, "metamodule.sunsynth"))
    try:
        read_sunvox_file(TopIO(b"SSYN\0\0\0\0SFFF"))
    except Exception:
        pass
    amp = m.Amplifier()
    try:
        amp.volume = 99999
    except errors.ControllerValueError:
        raised = True
    else:
        raised = False
    ok(raised, "out-of-range value did not raise after loads")


def finish(golden):
    digest = hashlib.sha1("\n".join(OUTCOMES).encode("utf8")).hexdigest()
    if "--show" in sys.argv:
        print(len(OUTCOMES), "outcomes", digest)
        kinds = {}
        for o in OUTCOMES:
            k = o.split("=", 1)[1].split(":")[:2]
            kinds[tuple(k[:2] if k[0] == "exc" else k[:1])] = (
                kinds.get(tuple(k[:2] if k[0] == "exc" else k[:1]), 0) + 1
            )
        print(kinds)
    ok(digest == golden, "outcome digest changed", digest)
    ok(errors.RAISE_CONTROLLER_VALUE_ERRORS is True, "flag at end")
    print("PASS ({} checks, {} recorded outcomes)".format(CHECKS, len(OUTCOMES)))


# ---------------------------------------------------------------------------
# Checks specific to rv/readers/reader.py (read_sunvox_file, Reader)
# ---------------------------------------------------------------------------


class LogCapture(logging.Handler):
    def __init__(self):
        super().__init__(level=logging.DEBUG)
        self.lines = []

    def emit(self, record):
        self.lines.append((record.levelname, str(record.msg)))


def make_iff(chunk_list):
    from rv.lib.iff import write_chunk

    f = REAL_BYTESIO()
    for chunk_name, chunk_data in chunk_list:
        write_chunk(f, chunk_name, chunk_data)
    f.seek(0)
    return f


def reader_class_checks():
    from rv.readers.reader import Reader, ReaderFinished

    class Rec(Reader):
        process_NOPE = 5  # present but not callable

        def __init__(self, f):
            super().__init__(f)
            self.calls = []
            self.rewound = False

        def process_AAAA(self, data):
            self.calls.append(("AAAA", data))

        def process_BB(self, data):
            self.calls.append(("BB", data))

        def process_STOP(self, data):
            self.calls.append(("STOP", data))
            raise ReaderFinished()

        def process_FAIL(self, data):
            raise ValueError("handler failed")

        def process_BACK(self, data):
            before = self.f.tell()
            if not self.rewound:
                self.rewound = True
                self.rewind(data)
            self.calls.append(("BACK", len(data), before, self.f.tell()))

        def process_end_of_file(self):
            self.calls.append("EOF")
            self.object = "done"

    reader_log = logging.getLogger("rv.readers.reader")
    capture = LogCapture()
    old_level = reader_log.level
    reader_log.addHandler(capture)
    reader_log.setLevel(logging.DEBUG)
    logging.disable(logging.NOTSET)
    try:
        r = Rec(
            make_iff(
                [
                    (b"AAAA", b"one"),
                    (b"BB", b""),
                    (b"ZZZZ", b"ignored"),
                    (b"NOPE", b"x"),
                    (b"A B", b"y"),
                    (b"", b"z"),
                    (b"PAMD", b"pp"),
                    (b"AAAA", b"two"),
                ]
            )
        )
        ok(r.object == "done", "object after EOF", r.object)
        ok(
            r.calls == [("AAAA", b"one"), ("BB", b""), ("AAAA", b"two"), "EOF"],
            "dispatch",
            r.calls,
        )
        ok(
            capture.lines
            == [
                ("DEBUG", "-> Rec.process_AAAA"),
                ("DEBUG", "-> Rec.process_BB"),
                ("WARNING", "no Rec.process_ZZZZ method"),
                ("WARNING", "no Rec.process_NOPE method"),
                ("WARNING", "no Rec.process_A B method"),
                ("WARNING", "no Rec.process_ method"),
                ("DEBUG", "-> Rec.process_PAMD"),
                ("DEBUG", "-> Rec.process_AAAA"),
            ],
            "log lines",
            capture.lines,
        )
        ok(r.object == "done" and r.calls.count("EOF") == 1, "object is cached")
        try:
            r.object = "again"
        except AttributeError as e:
            ok(str(e) == "object was already set", "setter message", e)
        else:
            ok(False, "object could be set twice")

        # ReaderFinished ends processing quietly: later chunks and EOF unseen
        del capture.lines[:]
        r = Rec(make_iff([(b"AAAA", b"1"), (b"STOP", b"2"), (b"AAAA", b"3")]))
        result = r.object
        ok(result is None, "object after STOP", result)
        ok(r.calls == [("AAAA", b"1"), ("STOP", b"2")], "calls with STOP", r.calls)
        ok(r.f.tell() == 9 + 9, "position after STOP", r.f.tell())
        ok(
            capture.lines
            == [("DEBUG", "-> Rec.process_AAAA"), ("DEBUG", "-> Rec.process_STOP")],
            "log with STOP",
            capture.lines,
        )

        # other exceptions pass through untouched
        r = Rec(make_iff([(b"AAAA", b"1"), (b"FAIL", b""), (b"AAAA", b"3")]))
        try:
            r.object
        except ValueError as e:
            ok(str(e) == "handler failed", "handler error message")
        else:
            ok(False, "handler error swallowed")
        ok(r.calls == [("AAAA", b"1")], "calls before failure", r.calls)

        # the base class has no end-of-file handler
        for content in ([], [(b"PAMD", b"")], [(b"QQQQ", b"abc")]):
            base = Reader(make_iff(content))
            try:
                base.object
            except RuntimeError as e:
                ok(
                    str(e) == "Reached end of file without a handler",
                    "EOF message",
                    e,
                )
            else:
                ok(False, "base reader reached EOF silently")
            ok(base._object is None, "base object")

        # rewind goes back to the first byte of the chunk being handled
        for size in (0, 1, 2, 5, 8, 255):
            payload = bytes(range(size % 256))[:size].ljust(size, b"\7")
            r = Rec(
                make_iff([(b"AAAA", b"lead"), (b"BACK", payload), (b"AAAA", b"t")])
            )
            ok(r.object == "done", "rewind run", size)
            start = 12
            end = start + 8 + size
            ok(
                r.calls
                == [
                    ("AAAA", b"lead"),
                    ("BACK", size, end, start),
                    ("BACK", size, end, end),
                    ("AAAA", b"t"),
                    "EOF",
                ],
                "rewind",
                size,
                r.calls,
            )
        r = Rec(REAL_BYTESIO(b"0123456789abcdefghij"))
        r.f.seek(15)
        r.rewind(b"abc")
        ok(r.f.tell() == 4, "direct rewind", r.f.tell())

        # undecodable chunk names are an error, as before
        r = Rec(make_iff([(b"\xff\xfe\xfd\xfc", b"")]))
        try:
            r.object
        except UnicodeDecodeError:
            pass
        else:
            ok(False, "undecodable name accepted")
    finally:
        logging.disable(logging.CRITICAL)
        reader_log.removeHandler(capture)
        reader_log.setLevel(old_level)


def read_function_checks():
    sample = os.path.join(FIXTURE_DIR, "sampler.sunsynth")
    with open(sample, "rb") as f:
        good = f.read()

    class StrPath(str):
        pass

    class Fs:
        def __fspath__(self):
            return sample

    for initial in (True, False):
        out, _ = run_load(StrPath(sample), initial, expect_opened=1)
        ok(out.startswith("ok:Synth:"), "str subclass", out)
        out2, _ = run_load(Fs(), initial, expect_opened=0)
        ok(out2 == "exc:AttributeError", "os.PathLike is not a path here", out2)
        out3, _ = run_load(os.fsencode(sample), initial, expect_opened=0)
        ok(out3 == "exc:AttributeError", "bytes is not a path here", out3)

    # close() itself failing: the error surfaces and the setting is restored
    class BadClose(FileProxy):
        def close(self):
            super().close()
            raise OSError("close failed")

    def open_bad_close(self, *args, **kwargs):
        proxy = BadClose(REAL_BYTESIO(VIRTUAL_FILES[str(self)]))
        opened.append(proxy)
        return proxy

    for initial in (True, False):
        for label, content in (("good", good), ("cut", good[:100]), ("junk", b"xx")):
            opened = []
            VIRTUAL_FILES["virtual.sunsynth"] = content
            errors.RAISE_CONTROLLER_VALUE_ERRORS = initial
            Path.open = open_bad_close
            try:
                try:
                    read_sunvox_file("virtual.sunsynth")
                except OSError as e:
                    ok(str(e) == "close failed", "close error", label, e)
                    context = e.__context__
                    if label == "cut":
                        ok(context is not None, "load error kept as context")
                    else:
                        ok(context is None, "unexpected context", label, context)
                else:
                    ok(False, "close error was swallowed", label)
                ok(errors.RAISE_CONTROLLER_VALUE_ERRORS is initial, "flag", label)
                ok(len(opened) == 1 and opened[0].closed, "closed", label)
                ok(opened[0].close_calls == 1, "one close call", label)
            finally:
                Path.open = REAL_PATH_OPEN
                errors.RAISE_CONTROLLER_VALUE_ERRORS = True
                VIRTUAL_FILES.clear()

    # the public aliases still point at the same function
    import rv.api

    ok(rv.api.read_sunvox_file is reader_mod.read_sunvox_file, "api alias")
    ok(mm_mod.read_sunvox_file is reader_mod.read_sunvox_file, "metamodule alias")
    ok(smp_mod.read_sunvox_file is reader_mod.read_sunvox_file, "sampler alias")


if __name__ == "__main__":
    reader_class_checks()
    read_function_checks()
    context_manager_checks()
    core_property_sweep()
    finish("9812d0450f9b868f4bd2fcc5b55421d0fa2b4d4c")
