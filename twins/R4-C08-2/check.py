"""Behaviour check for property C08 (connection graph and slot order persist).

Focus of this script: ``ModuleReader.process_SLNK`` / ``process_SLnK`` (and the
other small chunk handlers of the module reader), both called directly and
through complete files whose SLNK/SLnK chunks were edited by hand.

Run as:  cd <root> && PYTHONPATH=<root>/src/python /venv/bin/python check.py
Prints PASS and exits 0 when behaviour is as expected.
"""
import hashlib
import logging
import random
import struct
import sys
from io import BytesIO

from rv.api import Project, m, read_sunvox_file
from rv.lib.iff import chunks as iff_chunks
from rv.lib.iff import write_chunk
from rv.readers.module import ModuleReader

logging.disable(logging.CRITICAL)

# Digest of the full behaviour trace, recorded on the unchanged tree.
EXPECTED_DIGEST = "22b84ba18c34f5a956cc34e9648edc0a2d6e78a4183a426d0980e38a1548378a"

TRACE = []


def rec(*items):
    TRACE.append(repr(items))


def i32(*values):
    return struct.pack("<%di" % len(values), *values)


def tables(project):
    return [
        None
        if mod is None
        else (
            list(mod.in_links),
            list(mod.in_link_slots),
            list(mod.out_links),
            list(mod.out_link_slots),
        )
        for mod in project.modules
    ]


def fresh_reader(module=None):
    reader = ModuleReader(None, 1)
    if module is not None:
        reader.object = module
    return reader


# --------------------------------------------------------------------------
# 1. the two handlers called directly
# --------------------------------------------------------------------------
HANDLERS = (("process_SLNK", "in_links"), ("process_SLnK", "in_link_slots"))


def scenario_direct():
    single = [
        ([], []),
        ([0], [0]),
        ([3], [3]),
        ([-1], []),
        ([-1, -1, -1], []),
        ([1, 2], [1, 2]),
        ([1, -1], [1]),
        ([1, -1, -1], [1]),
        ([-1, 1], [-1, 1]),
        ([-1, 1, -1, -1], [-1, 1]),
        ([1, -1, 2, -1, 3], [1, -1, 2, -1, 3]),
        ([-2, -1], [-2]),
        ([2 ** 31 - 1, -(2 ** 31), -1], [2 ** 31 - 1, -(2 ** 31)]),
        (list(range(1, 300)) + [-1] * 20, list(range(1, 300))),
    ]
    for method, attr in HANDLERS:
        other = "in_link_slots" if attr == "in_links" else "in_links"
        for values, expected in single:
            mod = m.Amplifier()
            reader = fresh_reader(mod)
            target = getattr(mod, attr)
            assert getattr(reader, method)(i32(*values)) is None
            assert getattr(mod, attr) is target, "list must be updated in place"
            assert target == expected, (method, values, target)
            assert getattr(mod, other) == []
            assert mod.out_links == [] and mod.out_link_slots == []
        # empty data never touches the reader's object
        reader = fresh_reader()
        assert getattr(reader, method)(b"") is None
        assert reader._object is None
        # repeated chunks accumulate; stripping looks at the whole list
        sequences = [
            ([[1, 2], [3]], [1, 2, 3]),
            ([[1, -1], [3]], [1, 3]),
            ([[1, 2], [-1, -1]], [1, 2]),
            ([[-1, 1], [-1]], [-1, 1]),
            ([[1, 2], [], [-1, 4, -1]], [1, 2, -1, 4]),
            ([[-1], [-1], [5]], [5]),
        ]
        for parts, expected in sequences:
            mod = m.Amplifier()
            reader = fresh_reader(mod)
            for part in parts:
                getattr(reader, method)(i32(*part))
            assert getattr(mod, attr) == expected, (method, parts)
        # pre-populated list: untouched by empty data, stripped as a whole otherwise
        mod = m.Amplifier()
        reader = fresh_reader(mod)
        target = getattr(mod, attr)
        target[:] = [5, -1]
        getattr(reader, method)(b"")
        assert target == [5, -1]
        getattr(reader, method)(i32(-1))
        assert target == [5] and getattr(mod, attr) is target
        target[:] = [-1, -1]
        getattr(reader, method)(i32(-1, -1))
        assert target == []
        # data that is not a whole number of int32 values is rejected untouched
        for size in (1, 2, 3, 5, 6, 7, 9, 13):
            mod = m.Amplifier()
            reader = fresh_reader(mod)
            getattr(mod, attr)[:] = [7, -1]
            try:
                getattr(reader, method)(b"\xff" * size)
            except struct.error as e:
                rec("badsize", method, size, str(e))
            else:
                raise AssertionError("expected struct.error")
            assert getattr(mod, attr) == [7, -1]
        # bytearray / memoryview-free inputs behave like bytes
        mod = m.Amplifier()
        reader = fresh_reader(mod)
        getattr(reader, method)(bytearray(i32(4, -1, 6, -1)))
        assert getattr(mod, attr) == [4, -1, 6]
    rec("direct-ok")


def scenario_other_handlers():
    """Neighbouring handlers of the same reader (strings, ints)."""
    for raw in (b"", b"abc", b"abc\0", b"abc\0def\0", b"\0abc", b"a" * 32, b"\0"):
        mod = m.Amplifier()
        reader = fresh_reader(mod)
        reader.process_SNAM(raw)
        reader.process_SMIN(raw)
        rec("names", raw, mod.name, mod.midi_out_name)
    for raw in (b"Amplifier\0", b"Amplifier", b"Amplifier\0junk", b"MultiCtl\0"):
        reader = fresh_reader()
        reader.object = m.Output()
        reader.object.name = "kept"
        reader.process_STYP(raw)
        rec("styp", raw, type(reader.object).__name__, reader.object.name,
            len(reader._controller_keys))
    for raw in (b"Nope\0", b"\0", b""):
        reader = fresh_reader(m.Amplifier())
        try:
            reader.process_STYP(raw)
        except KeyError as e:
            rec("styp-keyerror", raw, str(e))
        else:
            raise AssertionError("expected KeyError")


# --------------------------------------------------------------------------
# 2. complete files with edited SLNK / SLnK chunks
# --------------------------------------------------------------------------
def project_chunks(n_modules):
    p = Project()
    for i in range(n_modules):
        p.new_module(m.Amplifier, name="m%d" % (i + 1))
    return [(name, bytes(data)) for name, data in p.chunks()]


def with_links(chunk_list, spec):
    """spec: {module index: (links or None, slots or None, [extra chunks])}"""
    out, index = [], 0
    for name, data in chunk_list:
        if name == b"SLNK":
            links, slots, extra = spec.get(index, ([], None, []))
            out.append((b"SLNK", i32(*links)))
            if slots is not None:
                out.append((b"SLnK", i32(*slots)))
            out.extend(extra)
            continue
        if name == b"SLnK":
            continue
        out.append((name, data))
        if name == b"SEND":
            index += 1
    return out


def load(chunk_list):
    f = BytesIO()
    for name, data in chunk_list:
        write_chunk(f, name, data)
    f.seek(0)
    return read_sunvox_file(f)


def outcome(chunk_list):
    try:
        project = load(chunk_list)
    except Exception as e:  # noqa: BLE001 - the type is what we record
        return type(e).__name__
    return tables(project)


def scenario_files():
    base = project_chunks(4)
    specs = [
        {},
        # slot chunk absent everywhere: rebuilt by iteration order
        {0: ([1, 2, 3], None, []), 4: ([1, 2], None, []), 3: ([1], None, [])},
        # slot chunk present everywhere
        {0: ([1, 2, 3], [0, 0, 0], []), 4: ([1, 2], [1, 1], []), 3: ([1], [2], [])},
        # present for only some modules
        {0: ([1, 2, 3], None, []), 4: ([1, 2], [1, 1], []), 3: ([1], [2], [])},
        {0: ([1, 2, 3], [0, 0, 1], []), 4: ([1, 2], None, []), 3: ([3], None, [])},
        # trailing free entries are stripped from both arrays
        {0: ([1, -1, 2, -1, -1], [0, -1, 0, -1, -1], [])},
        {0: ([1, -1, 2, -1, -1], None, [])},
        {0: ([-1, -1], [-1, -1], []), 2: ([1, -1], [0, -1], [])},
        # all slots free but links present: slots stripped to nothing, then rebuilt
        {0: ([1, 2], [-1, -1], [])},
        {0: ([1, -1], [-1, -1], []), 2: ([1], [1], [])},
        # freed slot in the middle, explicit slots
        {2: ([1, -1, 3], [1, -1, 0], []), 0: ([1], [0], [])},
        # cycles and self links
        {1: ([2], None, []), 2: ([1, 2], None, []), 0: ([1, 2], None, [])},
        {1: ([2], [1], []), 2: ([1, 2], [0, 2], []), 0: ([1, 2], [1, 0], [])},
        # repeated link chunks inside one module accumulate
        {0: ([1], None, [(b"SLNK", i32(2, -1))])},
        {0: ([1, -1], None, [(b"SLNK", i32(2))])},
        {0: ([1], [0], [(b"SLNK", i32(2)), (b"SLnK", i32(0, -1))])},
        {0: ([1, 2], [3, 4], [(b"SLNK", b""), (b"SLnK", b"")])},
        # length mismatch between links and slots
        {0: ([1, 2], [0], [])},
        {0: ([1], [0, 0], [])},
        # references to missing / empty modules
        {0: ([9], None, [])},
        {0: ([9], [0], [])},
        {0: ([1, 9, 2], None, [])},
        # bad sizes
        {0: ([1], None, [(b"SLnK", b"\0\0")])},
        {0: ([], None, [(b"SLNK", b"\1\0\0\0\0")])},
    ]
    for number, spec in enumerate(specs):
        rec("file", number, outcome(with_links(base, spec)))

    # literal expectations for a few of them
    t = outcome(with_links(base, specs[1]))
    assert t[0][:2] == ([1, 2, 3], [2, 1, 0])
    assert t[1][2:] == ([3, 4, 0], [0, 0, 0])
    assert t[2][2:] == ([4, 0], [1, 1])
    t = outcome(with_links(base, specs[5]))
    assert t[0][:2] == ([1, -1, 2], [0, -1, 0])
    assert outcome(with_links(base, specs[6])) == t
    t = outcome(with_links(base, specs[13]))
    assert t[0][:2] == ([1, 2], [0, 0])
    t = outcome(with_links(base, specs[14]))
    assert t[0][:2] == ([1, 2], [0, 0])

    # random edited files
    rng = random.Random(8082024)
    for trial in range(150):
        n = rng.randint(1, 5)
        chunk_list = project_chunks(n)
        spec = {}
        for index in range(n + 1):
            if rng.random() < 0.3:
                continue
            count = rng.randint(0, 4)
            links = [
                -1 if rng.random() < 0.25 else rng.randint(0, n) for _ in range(count)
            ]
            mode = rng.random()
            if mode < 0.4:
                slots = None
            elif mode < 0.7:
                slots = [0 if v != -1 else -1 for v in links]
            else:
                slots = [
                    -1 if v == -1 else rng.randint(0, 3) for v in links
                ] + [-1] * rng.randint(0, 2)
            spec[index] = (links + [-1] * rng.randint(0, 2), slots, [])
        rec("fuzz", trial, spec, outcome(with_links(chunk_list, spec)))


# --------------------------------------------------------------------------
# 3. genuine projects survive save/load, with and without SLnK on disk
# --------------------------------------------------------------------------
def scenario_roundtrip():
    rng = random.Random(99)
    for trial in range(60):
        p = Project()
        mods = [p.output] + [
            p.new_module(m.Amplifier) for _ in range(rng.randint(1, 6))
        ]
        for _ in range(rng.randint(1, 30)):
            a, b = rng.choice(mods), rng.choice(mods)
            if rng.random() < 0.75:
                p.connect(a, b)
            else:
                p.connect(~a, b)
        f = BytesIO()
        p.write_to(f)
        f.seek(0)
        names = [name for name, _ in iff_chunks(f)]
        f.seek(0)
        loaded = read_sunvox_file(f)
        for before, after in zip(p.modules, loaded.modules):
            for attr in ("in_links", "in_link_slots"):
                want = list(getattr(before, attr))
                while want and want[-1] == -1:
                    want.pop()
                assert getattr(after, attr) == want
        rec("roundtrip", trial, names.count(b"SLnK"), tables(p), tables(loaded))


def main():
    scenario_direct()
    scenario_other_handlers()
    scenario_files()
    scenario_roundtrip()
    digest = hashlib.sha256("\n".join(TRACE).encode()).hexdigest()
    if "--print-digest" in sys.argv:
        print(digest)
        return 0
    if digest != EXPECTED_DIGEST:
        print("FAIL: behaviour trace digest", digest, "!=", EXPECTED_DIGEST)
        return 1
    print("PASS")
    return 0


if __name__ == "__main__":
    sys.exit(main())
