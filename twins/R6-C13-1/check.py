"""Behaviour check for the genrv Python generator (PythonGenerator.run) and enumname().

Passes on the unchanged tree and with the patch applied.
"""
import contextlib
import io
import itertools
import logging
import random
import sys
import tempfile
from pathlib import Path

import black
import genrv
import yaml
from genrv.codegen.python.gen import PythonGenerator
from genrv.tools.generate import enumname
from jinja2 import Environment, FileSystemLoader, PrefixLoader
from stringcase import camelcase, pascalcase

logging.disable(logging.CRITICAL)

ROOT = Path(genrv.__file__).resolve().parents[3]
SPECS = ROOT / "specs"
BASE_DIR = ROOT / "src" / "python" / "rv" / "modules" / "base"

failures = []


def expect(cond, msg):
    if not cond:
        failures.append(msg)


# ---------------------------------------------------------------- enumname


def enumname_reference(ekey):
    ekey = ekey.replace("/", "_div_")
    ekey = ekey.replace("*", "_mul_")
    ekey = ekey.replace(".", "_")
    ekey = ekey.replace("+", "_plus_")
    ekey = ekey.replace("-", "_neg_")
    ekey = ekey.replace("^", "_pow_")
    if ekey[0].isdigit():
        ekey = f"_{ekey}"
    elif ekey[0] == "_":
        ekey = ekey[1:]
    while "__" in ekey:
        ekey = ekey.replace("__", "_")
    ekey = ekey.lower()
    return ekey


def check_enumname():
    literal = {
        "hz/64": "hz_div_64",
        "line/2": "line_div_2",
        "1/2": "_1_div_2",
        "-12dB": "neg_12db",
        "x*2": "x_mul_2",
        "a.b": "a_b",
        "a+b": "a_plus_b",
        "x^2": "x_pow_2",
        "_lead": "lead",
        "__lead": "_lead",
        "a__b___c": "a_b_c",
        "MiXeD": "mixed",
        "9": "_9",
        "_": "",
        "/": "div_",
        ".5": "5",
        "-": "neg_",
        "a/_b": "a_div_b",
        "\u00b2x": "_\u00b2x",
    }
    for k, v in literal.items():
        expect(enumname(k) == v, f"enumname({k!r}) = {enumname(k)!r}, expected {v!r}")
    alphabet = "/*.+-^_aB9 "
    n = 0
    for length in range(1, 5):
        for chars in itertools.product(alphabet, repeat=length):
            s = "".join(chars)
            n += 1
            if enumname(s) != enumname_reference(s):
                expect(False, f"enumname({s!r}) differs from reference")
                return
    rng = random.Random(13)
    for _ in range(5000):
        s = "".join(rng.choice(alphabet + "xyzXYZ0123") for _ in range(rng.randint(1, 14)))
        expect(enumname(s) == enumname_reference(s), f"enumname({s!r}) differs")
    # every enum key (and enum default) of the real spec
    spec = yaml.safe_load((SPECS / "fileformat.yaml").read_text())
    for mt in spec["module_types"].values():
        for e in (mt.get("enums") or {}).values():
            for ekey in e:
                expect(enumname(ekey) == enumname_reference(ekey), f"spec key {ekey!r}")
    for bad, exc in (("", IndexError), (5, AttributeError), (None, AttributeError)):
        try:
            enumname(bad)
        except exc:
            pass
        except Exception as e:  # pragma: no cover
            expect(False, f"enumname({bad!r}) raised {type(e).__name__}")
        else:
            expect(False, f"enumname({bad!r}) did not raise")


# ------------------------------------------------------------ generator


def real_env():
    genrv_path = Path(genrv.__file__).parent
    env = Environment(
        loader=PrefixLoader(
            {n: FileSystemLoader(genrv_path / "codegen" / n) for n in ("python", "ts")}
        )
    )
    env.filters.update(
        camelcase=camelcase, enumname=enumname, hex=hex, pascalcase=pascalcase, repr=repr
    )
    return env


def make_generator(spec, dest):
    specdir = Path(tempfile.mkdtemp(dir=dest))
    (specdir / "fileformat.yaml").write_text(yaml.safe_dump(spec, sort_keys=False))
    return PythonGenerator(spec_base=specdir, dest_base=Path(dest) / "out")


def quiet_run(gen, env):
    out, err = io.StringIO(), io.StringIO()
    with contextlib.redirect_stdout(out), contextlib.redirect_stderr(err):
        gen.run(env)
    return out.getvalue()


def check_real_spec_reproduces_checked_in_files():
    with tempfile.TemporaryDirectory() as d:
        gen = PythonGenerator(spec_base=SPECS, dest_base=d)
        quiet_run(gen, real_env())
        outdir = Path(d) / "modules" / "base"
        produced = sorted(p.name for p in outdir.glob("*.py"))
        existing = sorted(p.name for p in BASE_DIR.glob("*.py") if p.name != "__init__.py")
        expect(len(produced) == 43, f"{len(produced)} files generated")
        expect(produced == existing, "generated file set differs from checked-in set")
        for name in produced:
            expect(
                (outdir / name).read_text() == (BASE_DIR / name).read_text(),
                f"generated {name} differs from the checked-in file",
            )


class StubTemplate:
    def __init__(self, log, content):
        self.log = log
        self.content = content

    def render(self, *args, **kwargs):
        ctx = dict(*args, **kwargs)
        self.log.append(("render", ctx))
        c = self.content
        return c(ctx) if callable(c) else c


class StubEnv:
    def __init__(self, content):
        self.log = []
        self.content = content

    def get_template(self, name):
        self.log.append(("get_template", name))
        return StubTemplate(self.log, self.content)


def reference_postprocess(content):
    mode = black.FileMode()
    content = black.format_str(content, mode=mode)
    while "\n\n" in content:
        content = content.replace("\n\n", "\n")
    return black.format_str(content, mode=mode)


def check_stubbed_runs():
    messy = (
        "import os\n\n\n\n\n\nx = 1\n\n\n\n\ny   =  2\n\n\nclass A:\n\n\n\n    z = 3\n\n\n\n\n"
        "    def f(self):\n\n\n        return os.sep\n\n\n\n\n\n\n"
    )
    spec = {
        "module_types": {
            "Alpha": {
                "group": "Synth",
                "controllers": [
                    {"a": {"min": 0, "max": 1}, "b": {"enum": "E"}},
                    {"c": {"bool": True}},
                    {"a": {"min": 5, "max": 6}},
                ],
            },
            "BetaGamma": {"group": "Effect"},
            "Delta": {"group": "Misc", "controllers": []},
        }
    }
    with tempfile.TemporaryDirectory() as d:
        gen = make_generator(spec, d)
        env = StubEnv(lambda ctx: f"NAME = {ctx['modtype_name']!r}\n\n\n\n" + messy)
        quiet_run(gen, env)
        names = [e[1] for e in env.log if e[0] == "get_template"]
        expect(names and set(names) == {"python/base_module.py.jinja2"}, f"templates {names}")
        renders = [e[1] for e in env.log if e[0] == "render"]
        expect([r["modtype_name"] for r in renders] == ["Alpha", "BetaGamma", "Delta"], "order")
        for r in renders:
            expect(set(r) == {"modtype", "modtype_name", "ctlmap"}, f"context keys {set(r)}")
            expect(r["modtype"] is not None and r["modtype"] == spec["module_types"][r["modtype_name"]], "modtype")
        expect(
            list(renders[0]["ctlmap"].items())
            == [("a", {"min": 5, "max": 6}), ("b", {"enum": "E"}), ("c", {"bool": True})],
            f"ctlmap {renders[0]['ctlmap']}",
        )
        expect(renders[1]["ctlmap"] == {} and renders[2]["ctlmap"] == {}, "empty ctlmaps")
        outdir = Path(d) / "out" / "modules" / "base"
        expect(
            sorted(p.name for p in outdir.iterdir()) == ["alpha.py", "betagamma.py", "delta.py"],
            "file names",
        )
        for name, mt in (("alpha", "Alpha"), ("betagamma", "BetaGamma"), ("delta", "Delta")):
            want = reference_postprocess(f"NAME = {mt!r}\n\n\n\n" + messy)
            got = (outdir / f"{name}.py").read_text()
            expect(got == want, f"{name}.py content differs from reference post-processing")
            expect("\n\n\n\n" not in got, "blank runs left")

    # no module types: nothing rendered, nothing written, template never requested
    with tempfile.TemporaryDirectory() as d:
        gen = make_generator({"module_types": {}}, d)
        env = StubEnv("x = 1\n")
        quiet_run(gen, env)
        expect(env.log == [], f"empty spec touched the environment: {env.log}")
        expect(not (Path(d) / "out").exists(), "empty spec wrote files")

    # missing module_types key
    with tempfile.TemporaryDirectory() as d:
        gen = make_generator({"other": 1}, d)
        try:
            quiet_run(gen, StubEnv("x = 1\n"))
        except KeyError:
            pass
        else:
            expect(False, "missing module_types did not raise KeyError")

    # unformattable output: the content is printed, the black error propagates,
    # earlier files stay written and later ones are not produced
    with tempfile.TemporaryDirectory() as d:
        spec = {"module_types": {"Good": {}, "Bad": {}, "Never": {}}}
        gen = make_generator(spec, d)
        env = StubEnv(
            lambda ctx: "class Base Oops:\n  pass\n" if ctx["modtype_name"] == "Bad" else "ok = 1\n"
        )
        out = io.StringIO()
        try:
            with contextlib.redirect_stdout(out), contextlib.redirect_stderr(io.StringIO()):
                gen.run(env)
        except black.InvalidInput:
            pass
        except Exception as e:
            expect(False, f"unexpected {type(e).__name__}")
        else:
            expect(False, "invalid content did not raise")
        expect("class Base Oops:" in out.getvalue(), "failing content was not printed")
        outdir = Path(d) / "out" / "modules" / "base"
        expect(sorted(p.name for p in outdir.iterdir()) == ["good.py"], "partial output")


def check_synthetic_spec_with_real_template():
    spec = {
        "module_types": {
            "Tiny": {
                "type": "Tiny One",
                "group": "Synth",
                "defaultFlags": 0x49,
                "enums": {"Mode": {"hz/64": 0, "1/2": 1, "-x": 2}},
                "controllers": [
                    {"zeta": {"min": 0, "max": 256, "default": 0}},
                    {"mode": {"enum": "Mode", "default": "1/2"}},
                    {"in": {"bool": True, "default": False}},
                    {"alpha": {"min": -128, "max": 128, "default": 0, "compact": True}},
                    {
                        "dep": {
                            "depends_on": "mode",
                            "default": 3,
                            "ranges": {
                                "hz/64": {"min": 1, "max": 2},
                                "1/2": {"min": 0, "max": 9},
                                "-x": {"min": -4, "max": 4},
                            },
                        }
                    },
                ],
                "options": [
                    {"opt_b": {"byte": 0, "bit": 0, "size": 1, "default": False}},
                    {"opt_a": {"byte": 1, "bit": 0, "size": 8, "min": 0, "max": 7, "default": 0, "number": 130}},
                ],
            }
        }
    }
    with tempfile.TemporaryDirectory() as d:
        gen = make_generator(spec, d)
        quiet_run(gen, real_env())
        text = (Path(d) / "out" / "modules" / "base" / "tiny.py").read_text()
        ns = {}
        exec(compile(text, "tiny.py", "exec"), ns)
        cls = ns["BaseTiny"]
        expect(cls.mtype == "Tiny One" and cls.mgroup == "Synth" and cls.flags == 0x49, "header")
        expect([m.name for m in cls.Mode] == ["hz_div_64", "_1_div_2", "neg_x"], "enum names")
        from rv.controller import CompactRange, Controller, DependentRange, Range
        ctls = sorted(
            ((k, v) for k, v in vars(cls).items() if isinstance(v, Controller)),
            key=lambda kv: kv[1]._order,
        )
        expect([k for k, _ in ctls] == ["zeta", "mode", "in_", "alpha", "dep"], "controller order")
        d_ = dict(ctls)
        expect(type(d_["zeta"].value_type) is Range and d_["zeta"].value_type.min == 0, "min 0 kept")
        expect(type(d_["alpha"].value_type) is CompactRange, "compact")
        expect(d_["mode"].default is cls.Mode._1_div_2, "enum default")
        dep = d_["dep"].value_type
        expect(isinstance(dep, DependentRange) and dep.ctl_name == "mode", "dependent")
        expect([(k.name, r.min, r.max) for k, r in dep.range_map.items()]
               == [("hz_div_64", 1, 2), ("_1_div_2", 0, 9), ("neg_x", -4, 4)], "range table")
        expect((dep.default.min, dep.default.max) == (1, 2), "fallback range is the first")
        expect("\n\n\n\n" not in text, "blank runs")


def main():
    check_enumname()
    check_real_spec_reproduces_checked_in_files()
    check_stubbed_runs()
    check_synthetic_spec_with_real_template()
    if failures:
        for f in failures[:30]:
            print("FAIL:", f)
        sys.exit(1)
    print("PASS")


if __name__ == "__main__":
    main()
