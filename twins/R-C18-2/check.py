"""Behaviour check for C18 (load restores global strictness, releases files).

Run from the repository root:
    PYTHONPATH=<root>/src/python python check.py

Exercises read_sunvox_file (path / str / file object / BytesIO sources),
the override_raise_controller_value_errors context manager, and the nested
loads done by MetaModule (embedded project) and Sampler (embedded effect),
on success, on truncated input, on injected I/O faults and on missing files.
Prints PASS and exits 0 when behaviour is as expected.
"""
import hashlib
import io
import logging
import sys
import warnings
from pathlib import Path

import rv.errors as errors
import rv.readers.reader as reader_mod
from rv.api import Project, Synth, m, read_sunvox_file
from rv.errors import ControllerValueError, override_raise_controller_value_errors
from rv.readers.initial import InitialReader

logging.disable(logging.CRITICAL)
warnings.simplefilter("ignore")

ROOT = Path.cwd()
FILES = ROOT / "tests" / "files"
FAILURES = []
COUNTS = {"checks": 0}


def expect(cond, msg):
    COUNTS["checks"] += 1
    if not cond:
        FAILURES.append(msg)


# --------------------------------------------------------------------------
# instrumentation: remember every handle Path.open hands out


class TrackedOpen:
    def __init__(self, wrap=None):
        self.handles = []
        self.wrap = wrap
        self._orig = Path.open

    def __enter__(self):
        tracker = self

        def tracked_open(self_path, *a, **kw):
            f = tracker._orig(self_path, *a, **kw)
            if tracker.wrap is not None:
                f = tracker.wrap(f)
            tracker.handles.append(f)
            return f

        Path.open = tracked_open
        return self

    def __exit__(self, *exc):
        Path.open = self._orig
        return False


class InjectedFault(OSError):
    pass


class FaultyFile:
    """File proxy whose n-th read() raises InjectedFault."""

    def __init__(self, f, fail_at):
        self._f = f
        self._fail_at = fail_at
        self.reads = 0
        self.close_calls = 0

    def read(self, *a):
        idx = self.reads
        self.reads += 1
        if self._fail_at is not None and idx == self._fail_at:
            raise InjectedFault("read #%d" % idx)
        return self._f.read(*a)

    def seek(self, *a):
        return self._f.seek(*a)

    def tell(self):
        return self._f.tell()

    def close(self):
        self.close_calls += 1
        return self._f.close()

    @property
    def closed(self):
        return self._f.closed


class FlagProbe:
    """Records the global flag each time a (possibly nested) load starts."""

    def __init__(self):
        self.seen = []
        self._orig = InitialReader.__init__

    def __enter__(self):
        probe = self
        orig = self._orig

        def init(self_reader, f):
            probe.seen.append(errors.RAISE_CONTROLLER_VALUE_ERRORS)
            orig(self_reader, f)

        InitialReader.__init__ = init
        return self

    def __exit__(self, *exc):
        InitialReader.__init__ = self._orig
        return False


def digest(obj):
    return hashlib.sha256(obj.read()).hexdigest()


def outcome(fn):
    try:
        obj = fn()
    except BaseException as e:  # noqa
        return "exc:" + type(e).__name__, None
    return "ok:" + type(obj).__name__, obj


def fixtures():
    out = sorted(
        p for p in FILES.rglob("*") if p.suffix in (".sunvox", ".sunsynth") and p.is_file()
    )
    assert len(out) >= 40, "fixtures not found; run from the repository root"
    return out


SENTINELS = [True, False]


# --------------------------------------------------------------------------
# 1. the context manager on its own


def check_context_manager():
    saved = errors.RAISE_CONTROLLER_VALUE_ERRORS
    try:
        odd = object()
        for initial in (True, False, None, 0, 1, "x", odd):
            for new in (True, False, None, odd):
                errors.RAISE_CONTROLLER_VALUE_ERRORS = initial
                cm = override_raise_controller_value_errors(new)
                # nothing changes until the block is entered
                expect(errors.RAISE_CONTROLLER_VALUE_ERRORS is initial, "cm: eager set")
                with cm as bound:
                    expect(bound is None, "cm: yields None")
                    expect(errors.RAISE_CONTROLLER_VALUE_ERRORS is new, "cm: inside")
                expect(errors.RAISE_CONTROLLER_VALUE_ERRORS is initial, "cm: restore")

                for exc_type in (ValueError, KeyboardInterrupt, InjectedFault):
                    try:
                        with override_raise_controller_value_errors(new):
                            raise exc_type("boom")
                    except exc_type as e:
                        expect(e.args == ("boom",), "cm: exception passes unchanged")
                    else:
                        expect(False, "cm: exception swallowed")
                    expect(
                        errors.RAISE_CONTROLLER_VALUE_ERRORS is initial,
                        "cm: restore after %s" % exc_type.__name__,
                    )

        # nesting, with the flag changed by hand inside the block
        errors.RAISE_CONTROLLER_VALUE_ERRORS = True
        with override_raise_controller_value_errors(False):
            with override_raise_controller_value_errors(True):
                expect(errors.RAISE_CONTROLLER_VALUE_ERRORS is True, "nest: inner")
                errors.RAISE_CONTROLLER_VALUE_ERRORS = "scribble"
            expect(errors.RAISE_CONTROLLER_VALUE_ERRORS is False, "nest: outer again")
            try:
                with override_raise_controller_value_errors(True):
                    with override_raise_controller_value_errors(False):
                        raise RuntimeError
            except RuntimeError:
                pass
            expect(errors.RAISE_CONTROLLER_VALUE_ERRORS is False, "nest: after raise")
        expect(errors.RAISE_CONTROLLER_VALUE_ERRORS is True, "nest: outermost")

        # usable as a decorator, fresh state on each call (recursion safe)
        @override_raise_controller_value_errors(False)
        def decorated(depth):
            expect(errors.RAISE_CONTROLLER_VALUE_ERRORS is False, "deco: inside")
            if depth:
                decorated(depth - 1)
                expect(errors.RAISE_CONTROLLER_VALUE_ERRORS is False, "deco: recursion")
            return depth

        expect(decorated(2) == 2, "deco: return value")
        expect(errors.RAISE_CONTROLLER_VALUE_ERRORS is True, "deco: restored")

        # a generator exit / return inside the block
        def gen():
            with override_raise_controller_value_errors(False):
                yield 1
                yield 2

        g = gen()
        next(g)
        expect(errors.RAISE_CONTROLLER_VALUE_ERRORS is False, "gen: inside")
        g.close()
        expect(errors.RAISE_CONTROLLER_VALUE_ERRORS is True, "gen: closed")

        # the flag really drives raise-or-warn
        log = logging.getLogger("c18check")
        errors.RAISE_CONTROLLER_VALUE_ERRORS = True
        try:
            errors.raise_or_warn_controller_value_validation(None, log, "bad %s", 1)
        except ControllerValueError as e:
            expect(e.args == ("bad %s", 1), "row: args")
        else:
            expect(False, "row: strict did not raise")
        with override_raise_controller_value_errors(False):
            expect(
                errors.raise_or_warn_controller_value_validation(None, log, "bad") is None,
                "row: lenient returns None",
            )
    finally:
        errors.RAISE_CONTROLLER_VALUE_ERRORS = saved


# --------------------------------------------------------------------------
# 2. successful loads from every kind of source


def check_successful_loads():
    for path in fixtures():
        data = path.read_bytes()
        ref = None
        for initial in SENTINELS:
            for kind in ("path", "str", "file", "bytesio"):
                errors.RAISE_CONTROLLER_VALUE_ERRORS = initial
                own = None
                with TrackedOpen() as t, FlagProbe() as probe:
                    if kind == "path":
                        res, obj = outcome(lambda: read_sunvox_file(path))
                    elif kind == "str":
                        res, obj = outcome(lambda: read_sunvox_file(str(path)))
                    elif kind == "file":
                        own = open(str(path), "rb")
                        res, obj = outcome(lambda: read_sunvox_file(own))
                    else:
                        own = io.BytesIO(data)
                        res, obj = outcome(lambda: read_sunvox_file(own))
                tag = "%s[%s,%s]" % (path.name, kind, initial)
                expect(errors.RAISE_CONTROLLER_VALUE_ERRORS is initial, tag + " flag")
                expect(res.startswith("ok:"), tag + " " + res)
                expect(all(v is False for v in probe.seen), tag + " lenient inside")
                expect(len(probe.seen) >= 1, tag + " probe")
                if kind in ("path", "str"):
                    expect(len(t.handles) == 1, tag + " one open")
                    expect(all(h.closed for h in t.handles), tag + " closed")
                    expect(t.handles[0].mode == "rb", tag + " mode")
                else:
                    expect(t.handles == [], tag + " no open")
                    expect(not own.closed, tag + " caller's file left open")
                    own.close()
                if obj is not None:
                    expect(isinstance(obj, (Project, Synth)), tag + " type")
                    d = (res, digest(obj), len(probe.seen))
                    if ref is None:
                        ref = d
                    expect(d == ref, tag + " same result from every source")
        errors.RAISE_CONTROLLER_VALUE_ERRORS = True


# --------------------------------------------------------------------------
# 3. failing loads: truncation, injected faults, bad paths, bad arguments


def chunk_boundaries(data):
    out, pos = [], 0
    while pos + 8 <= len(data):
        out.append(pos)
        size = int.from_bytes(data[pos + 4 : pos + 8], "little")
        out.append(pos + 8)
        pos += 8 + size
    out.append(len(data))
    return sorted(set(o for o in out if o <= len(data)))


def check_truncations(tmpdir):
    names = [
        "amplifier.sunsynth",
        "metamodule.sunsynth",
        "sampler.sunsynth",
        "empty.sunvox",
        "single-fm.sunvox",
    ]
    for name in names:
        data = (FILES / name).read_bytes()
        offsets = set(chunk_boundaries(data)[:60])
        offsets.update(range(0, min(len(data), 64)))
        offsets.update(range(0, len(data), max(1, len(data) // 40)))
        offsets.update((len(data) - 1, len(data) - 4, len(data) - 9))
        for off in sorted(o for o in offsets if 0 <= o <= len(data)):
            cut = data[:off]
            p = tmpdir / ("cut-%d-%s" % (off, name))
            p.write_bytes(cut)
            results = []
            for initial in SENTINELS:
                errors.RAISE_CONTROLLER_VALUE_ERRORS = initial
                with TrackedOpen() as t:
                    res_p, _ = outcome(lambda: read_sunvox_file(p))
                tag = "trunc %s@%d[%s]" % (name, off, initial)
                expect(errors.RAISE_CONTROLLER_VALUE_ERRORS is initial, tag + " flag/path")
                expect(len(t.handles) == 1 and t.handles[0].closed, tag + " closed")
                bio = io.BytesIO(cut)
                res_b, _ = outcome(lambda: read_sunvox_file(bio))
                expect(errors.RAISE_CONTROLLER_VALUE_ERRORS is initial, tag + " flag/bio")
                expect(not bio.closed, tag + " bio left open")
                expect(res_p == res_b, tag + " path and bytes agree: %s %s" % (res_p, res_b))
                results.append(res_p)
            expect(results[0] == results[1], "trunc %s@%d initial-independent" % (name, off))
            p.unlink()
    errors.RAISE_CONTROLLER_VALUE_ERRORS = True


def check_read_faults():
    names = ["amplifier.sunsynth", "metamodule.sunsynth", "sampler.sunsynth", "empty.sunvox"]
    for name in names:
        path = FILES / name
        # how many reads does a clean load make?
        with TrackedOpen(lambda f: FaultyFile(f, None)) as t:
            read_sunvox_file(path)
        total = t.handles[0].reads
        expect(total > 3, "fault %s: read count" % name)
        expect(t.handles[0].close_calls == 1, "fault %s: close once on success" % name)
        indices = sorted(set(list(range(0, min(total, 40))) + list(range(0, total, max(1, total // 25))) + [total - 1]))
        for idx in indices:
            for initial in SENTINELS:
                errors.RAISE_CONTROLLER_VALUE_ERRORS = initial
                with TrackedOpen(lambda f: FaultyFile(f, idx)) as t:
                    res, _ = outcome(lambda: read_sunvox_file(path))
                tag = "fault %s#%d[%s]" % (name, idx, initial)
                expect(res == "exc:InjectedFault", tag + " " + res)
                expect(errors.RAISE_CONTROLLER_VALUE_ERRORS is initial, tag + " flag")
                h = t.handles[0]
                expect(h.closed and h.close_calls == 1, tag + " closed exactly once")
                # caller-supplied faulty object: never closed by the library
                raw = open(str(path), "rb")
                ff = FaultyFile(raw, idx)
                res, _ = outcome(lambda: read_sunvox_file(ff))
                expect(res == "exc:InjectedFault", tag + " own " + res)
                expect(errors.RAISE_CONTROLLER_VALUE_ERRORS is initial, tag + " own flag")
                expect(ff.close_calls == 0 and not raw.closed, tag + " own not closed")
                raw.close()
    errors.RAISE_CONTROLLER_VALUE_ERRORS = True


def check_bad_sources(tmpdir):
    for initial in SENTINELS:
        errors.RAISE_CONTROLLER_VALUE_ERRORS = initial
        missing = tmpdir / "does-not-exist.sunvox"
        for src in (missing, str(missing)):
            with TrackedOpen() as t:
                res, _ = outcome(lambda: read_sunvox_file(src))
            expect(res == "exc:FileNotFoundError", "missing: " + res)
            expect(t.handles == [], "missing: nothing opened")
            expect(errors.RAISE_CONTROLLER_VALUE_ERRORS is initial, "missing: flag")
        with TrackedOpen() as t:
            res, _ = outcome(lambda: read_sunvox_file(tmpdir))
        expect(res in ("exc:IsADirectoryError", "exc:PermissionError"), "dir: " + res)
        expect(errors.RAISE_CONTROLLER_VALUE_ERRORS is initial, "dir: flag")

        # things that are neither path nor readable
        for bad in (None, 5, b"SVOX", object()):
            with TrackedOpen() as t:
                res, _ = outcome(lambda: read_sunvox_file(bad))
            expect(res.startswith("exc:"), "bad source %r: %s" % (bad, res))
            expect(t.handles == [], "bad source: nothing opened")
            expect(errors.RAISE_CONTROLLER_VALUE_ERRORS is initial, "bad source: flag")
        r1, _ = outcome(lambda: read_sunvox_file(None))
        r2, _ = outcome(lambda: read_sunvox_file(b"SVOX"))
        expect(r1 == "exc:AttributeError" and r2 == "exc:AttributeError", "bad source types %s %s" % (r1, r2))

        # empty / garbage content
        for content in (b"", b"XXXX", b"JUNKJUNKJUNKJUNK", b"SVOX\0\0\0\0"):
            p = tmpdir / "garbage.bin"
            p.write_bytes(content)
            with TrackedOpen() as t:
                res_p, _ = outcome(lambda: read_sunvox_file(p))
            res_b, _ = outcome(lambda: read_sunvox_file(io.BytesIO(content)))
            expect(res_p == res_b, "garbage %r: %s vs %s" % (content, res_p, res_b))
            expect(t.handles[0].closed, "garbage: closed")
            expect(errors.RAISE_CONTROLLER_VALUE_ERRORS is initial, "garbage: flag")

        # a file whose close() itself fails: error surfaces, flag still restored
        class BadClose(FaultyFile):
            def close(self):
                self.close_calls += 1
                self._f.close()
                raise InjectedFault("close")

        with TrackedOpen(lambda f: BadClose(f, None)) as t:
            res, _ = outcome(lambda: read_sunvox_file(FILES / "amplifier.sunsynth"))
        expect(res == "exc:InjectedFault", "badclose: " + res)
        expect(t.handles[0].close_calls == 1, "badclose: one close")
        expect(errors.RAISE_CONTROLLER_VALUE_ERRORS is initial, "badclose: flag")

        # read fault in flight AND close() fails: the close error wins, the
        # read error is chained as its context, flag restored, one close call
        class BadBoth(BadClose):
            pass

        with TrackedOpen(lambda f: BadBoth(f, 3)) as t:
            try:
                read_sunvox_file(FILES / "amplifier.sunsynth")
            except InjectedFault as e:
                expect(e.args == ("close",), "badboth: close error surfaces %r" % (e.args,))
                ctx = e.__context__
                expect(
                    isinstance(ctx, InjectedFault) and ctx.args == ("read #3",),
                    "badboth: read error chained %r" % (ctx,),
                )
            else:
                expect(False, "badboth: no exception")
        expect(t.handles[0].close_calls == 1, "badboth: one close")
        expect(errors.RAISE_CONTROLLER_VALUE_ERRORS is initial, "badboth: flag")

        # BaseException (KeyboardInterrupt) out of a read: same guarantees
        class Interrupting(FaultyFile):
            def read(self, *a):
                if self.reads == 2:
                    raise KeyboardInterrupt
                return FaultyFile.read(self, *a)

        with TrackedOpen(lambda f: Interrupting(f, None)) as t:
            res, _ = outcome(lambda: read_sunvox_file(str(FILES / "amplifier.sunsynth")))
        expect(res == "exc:KeyboardInterrupt", "interrupt: " + res)
        expect(t.handles[0].close_calls == 1, "interrupt: closed")
        expect(errors.RAISE_CONTROLLER_VALUE_ERRORS is initial, "interrupt: flag")
    errors.RAISE_CONTROLLER_VALUE_ERRORS = True


# --------------------------------------------------------------------------
# 4. nested loads (metamodule project, sampler effect)


def build_nested():
    """metamodule > metamodule > sampler-with-effect, all as bytes."""
    inner = Project()
    sampler = read_sunvox_file(FILES / "sampler.sunsynth").module
    sampler.effect = Synth(m.Echo())
    inner.attach_module(sampler)
    inner.attach_module(m.Amplifier(volume=300))
    mid = Project()
    mm_inner = m.MetaModule(project=inner)
    mid.attach_module(mm_inner)
    outer = Project()
    mm_outer = m.MetaModule(project=mid)
    outer.attach_module(mm_outer)
    outer.attach_module(m.Generator())
    return outer.read(), Synth(mm_outer).read()


def check_nested(tmpdir):
    for blob_no, blob in enumerate(build_nested()):
        p = tmpdir / ("nested-%d.bin" % blob_no)
        p.write_bytes(blob)
        for initial in SENTINELS:
            errors.RAISE_CONTROLLER_VALUE_ERRORS = initial
            with TrackedOpen() as t, FlagProbe() as probe:
                res, obj = outcome(lambda: read_sunvox_file(p))
            tag = "nested%d[%s]" % (blob_no, initial)
            expect(res.startswith("ok:"), tag + " " + res)
            expect(len(probe.seen) == 4, tag + " four loads (outer, mid, inner, effect): %r" % probe.seen)
            expect(all(v is False for v in probe.seen), tag + " lenient at all depths")
            expect(errors.RAISE_CONTROLLER_VALUE_ERRORS is initial, tag + " flag")
            expect(len(t.handles) == 1 and t.handles[0].closed, tag + " only outer file opened and closed")
            if obj is None:
                continue
            expect(obj.read() == blob, tag + " round trip is byte-identical")
            mm = obj.modules[1] if isinstance(obj, Project) else obj.module
            expect(type(mm).__name__ == "MetaModule", tag + " outer metamodule")
            mid = mm.project
            expect(isinstance(mid, Project), tag + " embedded project type")
            inner = mid.modules[1].project
            expect(isinstance(inner, Project), tag + " inner project type")
            smp = inner.modules[1]
            expect(type(smp).__name__ == "Sampler", tag + " sampler")
            expect(isinstance(smp.effect, Synth), tag + " effect type")
            expect(type(smp.effect.module).__name__ == "Echo", tag + " effect module")
            expect(inner.modules[2].volume == 300, tag + " amplifier volume")

        # fail at every read of the nested file, via path and via BytesIO
        with TrackedOpen(lambda f: FaultyFile(f, None)) as t:
            read_sunvox_file(p)
        total = t.handles[0].reads
        for idx in range(total):
            initial = SENTINELS[idx % 2]
            errors.RAISE_CONTROLLER_VALUE_ERRORS = initial
            with TrackedOpen(lambda f: FaultyFile(f, idx)) as t:
                res, _ = outcome(lambda: read_sunvox_file(p))
            expect(res == "exc:InjectedFault", "nested fault#%d %s" % (idx, res))
            expect(t.handles[0].close_calls == 1, "nested fault#%d closed" % idx)
            expect(errors.RAISE_CONTROLLER_VALUE_ERRORS is initial, "nested fault#%d flag" % idx)

        # corrupt the innermost payloads: truncate at many offsets
        step = max(1, len(blob) // 150)
        outcomes = []
        for off in list(range(0, len(blob), step)) + chunk_boundaries(blob)[:80]:
            initial = SENTINELS[off % 2]
            errors.RAISE_CONTROLLER_VALUE_ERRORS = initial
            bio = io.BytesIO(blob[:off])
            res, _ = outcome(lambda: read_sunvox_file(bio))
            outcomes.append(res)
            expect(errors.RAISE_CONTROLLER_VALUE_ERRORS is initial, "nested trunc@%d flag (%s)" % (off, res))
            expect(not bio.closed, "nested trunc@%d bio open" % off)
        expect(any(o.startswith("exc:") for o in outcomes), "nested trunc: some fail")

    # failure raised from inside the nested load (2nd, 3rd, 4th InitialReader)
    blob = build_nested()[0]
    for fail_depth in range(4):
        for initial in SENTINELS:
            errors.RAISE_CONTROLLER_VALUE_ERRORS = initial
            orig = InitialReader.__init__
            seen = []

            def init(self_reader, f, _orig=orig, _seen=seen, _d=fail_depth):
                _seen.append(errors.RAISE_CONTROLLER_VALUE_ERRORS)
                if len(_seen) - 1 == _d:
                    raise InjectedFault("depth %d" % _d)
                _orig(self_reader, f)

            InitialReader.__init__ = init
            try:
                res, _ = outcome(lambda: read_sunvox_file(io.BytesIO(blob)))
            finally:
                InitialReader.__init__ = orig
            tag = "nested raise depth %d[%s]" % (fail_depth, initial)
            expect(res == "exc:InjectedFault", tag + " " + res)
            expect(len(seen) == fail_depth + 1 and all(v is False for v in seen), tag + " seen %r" % seen)
            expect(errors.RAISE_CONTROLLER_VALUE_ERRORS is initial, tag + " flag")
    errors.RAISE_CONTROLLER_VALUE_ERRORS = True


def check_fixture_nested():
    for name in ("metamodule.sunsynth", "metamodule-option-78.sunsynth", "supertracks.sunvox"):
        data = (FILES / name).read_bytes()
        for initial in SENTINELS:
            errors.RAISE_CONTROLLER_VALUE_ERRORS = initial
            with FlagProbe() as probe:
                obj = read_sunvox_file(io.BytesIO(data))
            expect(all(v is False for v in probe.seen), name + " lenient inside")
            if name.startswith("metamodule"):
                expect(len(probe.seen) >= 2, name + " nested load happened")
                expect(isinstance(obj.module.project, Project), name + " project")
            expect(errors.RAISE_CONTROLLER_VALUE_ERRORS is initial, name + " flag")
    errors.RAISE_CONTROLLER_VALUE_ERRORS = True


# --------------------------------------------------------------------------
# 5. consequence: strict mode is really back after a lenient or failed load


def check_consequence():
    errors.RAISE_CONTROLLER_VALUE_ERRORS = True
    # an out-of-range stored value loads leniently...
    amp = m.Amplifier()
    with override_raise_controller_value_errors(False):
        amp.volume = 5000
    blob = Synth(amp).read()
    loaded = read_sunvox_file(io.BytesIO(blob))
    expect(loaded.module.volume == 5000, "lenient load keeps out-of-range value")
    # ...and afterwards the API is strict again
    for prep in (
        lambda: read_sunvox_file(io.BytesIO(blob)),
        lambda: outcome(lambda: read_sunvox_file(io.BytesIO(blob[: len(blob) // 2]))),
        lambda: outcome(lambda: read_sunvox_file("/nonexistent/x.sunvox")),
    ):
        prep()
        try:
            m.Amplifier().volume = 5000
        except ControllerValueError:
            pass
        else:
            expect(False, "strictness lost after load")
        COUNTS["checks"] += 1
    # clone() goes through read_sunvox_file too
    errors.RAISE_CONTROLLER_VALUE_ERRORS = True
    c = loaded.module.clone()
    expect(c.volume == 5000 and errors.RAISE_CONTROLLER_VALUE_ERRORS is True, "clone")
    p = Project()
    p.attach_module(m.Amplifier())
    expect(isinstance(p.clone(), Project) and errors.RAISE_CONTROLLER_VALUE_ERRORS is True, "project clone")
    # the read-time override value is bound at import of the reader module
    expect(reader_mod.RAISE_RANGE_ERRORS_ON_READ is False, "reader constant")
    saved = errors.RAISE_RANGE_ERRORS_ON_READ
    errors.RAISE_RANGE_ERRORS_ON_READ = True
    try:
        with FlagProbe() as probe:
            read_sunvox_file(io.BytesIO(blob))
        expect(probe.seen == [False], "errors.RAISE_RANGE_ERRORS_ON_READ not re-read at call time")
    finally:
        errors.RAISE_RANGE_ERRORS_ON_READ = saved
    reader_mod.RAISE_RANGE_ERRORS_ON_READ = True
    try:
        with FlagProbe() as probe:
            res, _ = outcome(lambda: read_sunvox_file(io.BytesIO(blob)))
        expect(probe.seen == [True], "reader-module constant is what the load uses")
        expect(res == "exc:ControllerValueError", "strict read raises: " + res)
        expect(errors.RAISE_CONTROLLER_VALUE_ERRORS is True, "strict read: flag")
        errors.RAISE_CONTROLLER_VALUE_ERRORS = False
        res, _ = outcome(lambda: read_sunvox_file(io.BytesIO(blob)))
        expect(res == "exc:ControllerValueError", "strict read from lenient: " + res)
        expect(errors.RAISE_CONTROLLER_VALUE_ERRORS is False, "strict read from lenient: flag")
    finally:
        reader_mod.RAISE_RANGE_ERRORS_ON_READ = False
        errors.RAISE_CONTROLLER_VALUE_ERRORS = True


def main():
    import tempfile

    with tempfile.TemporaryDirectory() as d:
        tmpdir = Path(d)
        check_context_manager()
        check_successful_loads()
        check_truncations(tmpdir)
        check_read_faults()
        check_bad_sources(tmpdir)
        check_nested(tmpdir)
        check_fixture_nested()
        check_consequence()
    if FAILURES:
        print("FAIL (%d of %d checks)" % (len(FAILURES), COUNTS["checks"]))
        for f in FAILURES[:40]:
            print("  -", f)
        return 1
    print("PASS (%d checks)" % COUNTS["checks"])
    return 0


if __name__ == "__main__":
    sys.exit(main())
