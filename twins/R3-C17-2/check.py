"""Behaviour check for ArrayChunk / WaveformChunk / Sampler.Envelope payloads.

Run as: cd <root> && PYTHONPATH=<root>/src/python python check.py
"""
import hashlib
import io
import logging
import struct
import sys
from enum import Enum
from pathlib import Path

import rv.api
from rv.chunks import ArrayChunk, DrawnWaveformChunk, WaveformChunk
from rv.modules.metamodule import MetaModule
from rv.modules.multictl import MultiCtl
from rv.readers.reader import read_sunvox_file
from rv.synth import Synth

logging.disable(logging.CRITICAL)
m = rv.api.m
FAILURES = []
dump = []


def check(cond, msg):
    if not cond:
        FAILURES.append(msg)


def to_bytes(mod):
    f = io.BytesIO()
    Synth(mod).write_to(f)
    return f.getvalue()


def err(fn, *a):
    try:
        return ("ok", fn(*a))
    except Exception as e:
        return ("err", type(e).__name__)


def plain(v):
    if isinstance(v, Enum):
        return f"{type(v).__name__}.{v.name}"
    if isinstance(v, (list, tuple)):
        return [plain(x) for x in v]
    if isinstance(v, (int, str, bytes, bool)) or v is None:
        return v
    return (type(v).__name__, sorted((k, plain(x)) for k, x in vars(v).items()))


# ---------------------------------------------------------------- ArrayChunk --
class Words(ArrayChunk):
    chnm = 5
    length = 6
    type = "H"
    element_size = 2
    min_value = 10
    max_value = 500
    default = [1, 2, 3, 4, 5, 6]


class Bytes0(ArrayChunk):  # falsy min_value: lower bound is NOT applied
    length = 4
    type = "b"
    element_size = 1
    min_value = 0
    max_value = 100


class Pairs(ArrayChunk):
    length = 3
    type = "Hb"
    element_size = 3
    default = 9


class Scalar(ArrayChunk):
    length = 5
    type = "B"
    element_size = 1
    default = 7


a, b = Words(), Words()
check(a.values == [1, 2, 3, 4, 5, 6] and a.values is not Words.default, "copy default")
check(a.values is not b.values, "instances own their list")
a.values[0] = 99
a.values.append(5)
check(b.values == [1, 2, 3, 4, 5, 6] == Words.default, "default list untouched")
a.reset()
check(a.values == Words.default and a.values is not Words.default, "reset copies")
check(a.bytes == struct.pack("<6H", 1, 2, 3, 4, 5, 6), "bytes getter")
check(a.chdt() == a.bytes, "chdt")
check(list(a.chunks()) == [(b"CHNM", struct.pack("<I", 5)), (b"CHDT", a.bytes)], "chunks")

held = a.values
a.bytes = struct.pack("<4H", 7, 8, 9, 65535) + b"\x01"  # trailing odd byte ignored
check(a.values == [7, 8, 9, 65535], f"set bytes {a.values}")
check(held == [1, 2, 3, 4, 5, 6] and held is not a.values, "old list not reused")
check(all(type(v) is int for v in a.values), "python_type int")
a.bytes = b""
check(a.values == [], "empty bytes -> empty list")
a.bytes = bytearray(b"\x01\x00\x02\x00")
check(a.values == [1, 2], "bytearray input")
a.bytes = memoryview(b"\x03\x00")
check(a.values == [3], "memoryview input")
dump.append(("short-pack", err(lambda: a.bytes)))  # length mismatch -> struct.error
check(err(lambda: a.bytes) == ("err", "error"), "length mismatch raises struct.error")

a.set_via_fn(lambda x: x * 200)
check(a.values == [10, 200, 400, 500, 500, 500], f"clamped {a.values}")
prev = a.values
try:
    a.set_via_fn(lambda x: 1 // (3 - x))
except ZeroDivisionError:
    pass
else:
    check(False, "fn error propagates")
check(a.values is prev, "failed set_via_fn leaves values untouched")
z = Bytes0()
check(z.values == [0, 0, 0, 0], "None default -> zeros")
z.set_via_fn(lambda x: [-50, 50, 150, 100][x])
check(z.values == [-50, 50, 100, 100], f"falsy min ignored {z.values}")
check(z.bytes == struct.pack("<4b", -50, 50, 100, 100), "signed pack")
z.bytes = bytes([0xFF, 0x7F, 0x80])
check(z.values == [-1, 127, -128], "signed unpack")


class Tup(Pairs):
    python_type = tuple


p = Tup()
check(p.values == [9, 9, 9], "scalar default replicated")
p.bytes = struct.pack("<Hb", 300, -2) + struct.pack("<Hb", 1, 2) + b"\0\0"
check(p.values == [(300, -2), (1, 2)], f"multi-field elements {p.values}")
s1, s2 = Scalar(), Scalar()
s1.values[2] = 0
check(s2.values == [7] * 5, "scalar default lists independent")
check(err(Pairs()._set_bytes, b"\1\0\2") == ("err", "TypeError"), "int(tuple) TypeError")

# module-held chunks: curves, mappings
ms_a, ms_b = m.MultiSynth(), m.MultiSynth()
ref = to_bytes(ms_b)
for ch in ("nv_curve", "vv_curve", "np_curve"):
    ca, cb = getattr(ms_a, ch), getattr(ms_b, ch)
    check(ca.values is not cb.values, f"{ch} shared")
    before = list(cb.values)
    ca.set_via_fn(lambda x: (x * 7919) % 70000)
    ca.values[0] = 1
    check(cb.values == before, f"{ch} leaked")
    dump.append((ch, ca.values, hashlib.sha256(ca.bytes).hexdigest()))
    rt = type(ca)()
    rt.bytes = ca.bytes
    check(rt.values == ca.values, f"{ch} bytes roundtrip")
check(to_bytes(ms_b) == ref, "multisynth B bytes changed")
check(to_bytes(m.MultiSynth()) == ref, "fresh multisynth differs")
clone = ms_a.clone()
check(clone.nv_curve.values == ms_a.nv_curve.values, "clone copies curve")
clone.nv_curve.values[5] = 3
check(ms_a.nv_curve.values[5] != 3 or ms_a.nv_curve.values is not clone.nv_curve.values,
      "clone independent")

mc_a, mc_b = MultiCtl.MappingArray(), MultiCtl.MappingArray()
check(len(mc_a.values) == 16 and mc_a.values[0] is not mc_a.values[1], "mapping objs")
check(mc_a.values[0] is not mc_b.values[0], "mapping objs per instance")
raw = mc_a.bytes
mc_a.values[0].min = 77
check(mc_b.bytes == raw and mc_a.bytes != raw, "multictl mapping isolation")
mc_b.bytes = mc_a.bytes[:64]
check(len(mc_b.values) == 2 and mc_b.values[0].min == 77, "partial mapping load")
dump.append(("multictl", plain(mc_b.values), mc_a.bytes.hex()))
mm = MetaModule.MappingArray()
mm.bytes = struct.pack("<HHHH", 1, 2, 3, 4)
check(len(mm.values) == 96 and (mm.values[1].module, mm.values[1].controller) == (3, 4)
      and mm.values[2].module == 0, "metamodule mappings padded")
sv = m.SpectraVoice()
check(all(isinstance(v, Enum) for v in sv.harmonic_types.values), "enum python_type")
sv.harmonic_types.bytes = bytes(range(6)) + bytes(10)
dump.append(("sv", plain(sv.harmonic_types.values), sv.harmonic_types.bytes.hex()))
check(m.SpectraVoice().harmonic_types.values != sv.harmonic_types.values, "sv isolated")

# ------------------------------------------------------------- WaveformChunk --
w = WaveformChunk()
check(w.samples == [] and w.format is None and w.freq is None, "plain waveform")
check("format" not in vars(w) and "freq" not in vars(w), "no instance attrs when unfixed")
check(w.bytes == b"", "empty bytes")
w.samples = [-1, 0, 127, -128, 255, 256, 300]
check(w.bytes == bytes([255, 0, 127, 128, 255, 0, 44]), "8-bit wrap")
w.format = WaveformChunk.Format.mono_16bit
check(err(lambda: w.bytes) == ("err", "NotImplementedError"), "other formats unsupported")
w.format = 1  # plain int is not the enum member
check(err(lambda: w.bytes) == ("err", "NotImplementedError"), "int format unsupported")
w.format = WaveformChunk.Format.mono_8bit
check(w.chff() == struct.pack("<I", 1), "chff")

d1, d2 = DrawnWaveformChunk(), DrawnWaveformChunk()
check(d1.samples == DrawnWaveformChunk.default, "default samples")
check(d1.samples is not DrawnWaveformChunk.default and d1.samples is not d2.samples,
      "samples copied")
check(vars(d1)["format"] is WaveformChunk.Format.mono_8bit and vars(d1)["freq"] == 44100,
      "fixed format/freq become instance attrs")
check(list(vars(d1)) == ["format", "freq", "samples"], f"attr order {list(vars(d1))}")
check(d1.is_default and list(d1.chunks()) == [], "default not written")
d1.samples[3] = 5
d1.samples.append(1)
check(d2.is_default and DrawnWaveformChunk().is_default, "no leak through default")
check(len(DrawnWaveformChunk.default) == 32, "class default intact")
check(d1.chfr() == struct.pack("<I", 44100), "chfr")
d1.chnm = 0
dump.append(("drawn", [(k, v.hex()) for k, v in d1.chunks()]))


class FreqOnly(WaveformChunk):
    fixed_freq = 8000
    default = [1, 2]


fo = FreqOnly()
check(list(vars(fo)) == ["freq", "samples"] and fo.format is None, "only freq fixed")
check(fo.bytes == b"\x01\x02", "None format treated as 8 bit")

ag_a, ag_b = m.AnalogGenerator(), m.AnalogGenerator()
ref = to_bytes(ag_b)
ag_a.drawn_waveform.samples[0] = 100
check(to_bytes(ag_b) == ref and to_bytes(ag_a) != ref, "analog generator isolation")
check(ag_a.clone().drawn_waveform.samples == ag_a.drawn_waveform.samples, "clone wave")
g_a, g_b = m.Generator(), m.Generator()
ref = to_bytes(g_b)
g_a.drawn_waveform.samples[:] = [0] * 32
check(to_bytes(g_b) == ref, "generator isolation")

# ----------------------------------------------------------- Sampler.Envelope --
S = m.Sampler
for cls in (S.VolumeEnvelope, S.PanningEnvelope, S.PitchEnvelope):
    e1, e2 = cls(), cls()
    check(e1.points == cls.initial_points and e1.points is not cls.initial_points,
          f"{cls.__name__} points copied")
    check(e1.points is not e2.points, "points per instance")
    state = dict(vars(e1))
    check(list(state) == ["points", "sustain_point", "loop_start_point",
                          "loop_end_point", "enable", "sustain", "loop", "ctl_index",
                          "gain_pct", "velocity", "loaded"], f"state keys {list(state)}")
    dump.append((cls.__name__, sorted(state.items()), e1.bitmask,
                 [(k, v.hex()) for k, v in e1.chunks()], e1.point_bytes.hex()))
    ref_chunks = list(e2.chunks())
    e1.points.append((0x200, cls.range[0]))
    e1.points[0] = (1, cls.range[1])
    e1.enable, e1.loop = True, True
    check(list(e2.chunks()) == ref_chunks and list(cls().chunks()) == ref_chunks,
          f"{cls.__name__} isolation")
    check(cls.initial_points == cls().points, "class initial points intact")
    # roundtrip through load_chdt
    chdt = dict(e1.chunks())[b"CHDT"]
    e3 = cls()
    old_points = e3.points
    e3.load_chdt(chdt)
    check(e3.points == e1.points and e3.points is not old_points, "load_chdt points")
    check(e3.loaded and (e3.enable, e3.sustain, e3.loop) ==
          (bool(e1.enable), bool(e1.sustain), bool(e1.loop)), "load flags")
    check(list(e3.chunks()) == list(e1.chunks()), "chunk roundtrip")
    check(old_points == cls.initial_points, "loading does not mutate old list")

check(err(S.Envelope) == ("err", "TypeError"), "abstract envelope not constructible")
ec = S.EffectControlEnvelope(0x105)
check(ec.chnm == 0x105 and ec.points == [(0, 0x8000), (0x40, 0x8000)], "effect env")
check(list(ec.chunks())[0] == (b"CHNM", struct.pack("<I", 0x105)), "effect env chnm")

e = S.VolumeEnvelope()
for value in range(-9, 20):
    e.bitmask = value
    check((e.enable, e.sustain, e.loop) ==
          (bool(value & 1), bool(value & 2), bool(value & 4)), f"bitmask set {value}")
    check(all(type(x) is bool for x in (e.enable, e.sustain, e.loop)), "flags are bools")
    check(e.bitmask == (value & 7), f"bitmask get {value}")
e.enable, e.sustain, e.loop = 1, 0, 3  # ints, as a caller might assign
check(e.bitmask == (1 | 0 | 12), "int flags keep multiplication semantics")
check(err(setattr, e, "bitmask", 1.5) == ("err", "TypeError"), "float bitmask")
check(err(setattr, e, "bitmask", None) == ("err", "TypeError"), "None bitmask")

# legacy (XI style) fixed 12-point encoding: pad and truncate
e = S.PanningEnvelope()
for n in (0, 1, 4, 11, 12, 13, 20):
    e.points = [(i * 3, -0x4000 + i * 0x400) for i in range(n)]
    xs, ys = e._x_values, e._y_values
    check(len(xs) == len(ys) == 12, "fixed length")
    check(xs == ([i * 3 for i in range(n)] + [0] * 12)[:12], f"x values {n}")
    check(ys == ([(-0x4000 + i * 0x400) // 0x200 for i in range(n)] + [0] * 12)[:12],
          f"y values {n}")
    pb = e.point_bytes
    exp = []
    for x, y in zip(xs, ys):
        exp += [x, y + 32]
    check(pb == struct.pack("<24H", *exp), f"point bytes {n}")
    check(len(e.points) == n, "points not modified by legacy encoding")
    dump.append(("pb", n, pb.hex(), [(k, v.hex()) for k, v in e.chunks()]))
e.points = [(0, -0x4000 - 0x200)]
check(err(lambda: e.point_bytes) == ("err", "error"), "negative word -> struct.error")
check(err(lambda: list(e.chunks())) == ("err", "error"), "chunks struct.error")
e.points = [(0, 0)]
e.gain_pct = 256
check(err(lambda: list(e.chunks())) == ("err", "error"), "byte overflow struct.error")

# load_chdt edge cases
e = S.VolumeEnvelope()
hdr = struct.pack("<HBBBBBBHHHH", 5, 1, 2, 3, 9, 9, 9, 2, 1, 0, 1)
e.load_chdt(hdr + b"\xAA\xBB\xCC\xDD" + struct.pack("<HHHH", 1, 2, 3, 4) + b"extra")
check((e.enable, e.sustain, e.loop, e.ctl_index, e.gain_pct, e.velocity) ==
      (True, False, True, 1, 2, 3), "header fields")
check((e.sustain_point, e.loop_start_point, e.loop_end_point) == (1, 0, 1), "points hdr")
check(e.points == [(1, 2), (3, 4)], "points loaded")
e2 = S.PanningEnvelope()
e2.load_chdt(struct.pack("<HBBBBBBHHHH", 0, 0, 100, 0, 0, 0, 0, 0, 0, 0, 0))
check(e2.points == [] and e2.loaded, "zero points, short buffer")
e3 = S.PanningEnvelope()
snapshot = dict(vars(e3))
check(err(e3.load_chdt, hdr[:15]) == ("err", "error"), "short header")
check(vars(e3) == snapshot, "short header leaves envelope untouched")
e4 = S.PanningEnvelope()
r = err(e4.load_chdt, hdr + b"\0\0\0\0" + struct.pack("<HH", 7, 0x4000))
check(r == ("err", "error"), "truncated point data")
check(e4.points == [(7, 0)] and e4.loaded is False, f"partial points {e4.points}")

# whole sampler: isolation + file roundtrip
sa, sb = S(), S()
ref = to_bytes(sb)
sa.volume_envelope.points.append((0x300, 0))
sa.panning_envelope.enable = True
sa.pitch_envelope.points[0] = (0, 0x1000)
sa.effect_control_envelopes[2].points.pop()
sa.note_samples[rv.api.NOTE.C4] = 3
check(to_bytes(sb) == ref and to_bytes(S()) == ref, "sampler isolation")
dump.append(("sampler", hashlib.sha256(to_bytes(sa)).hexdigest(),
             hashlib.sha256(ref).hexdigest()))
sc = sa.clone()
check(sc.volume_envelope.points == sa.volume_envelope.points, "clone env")
sc.volume_envelope.points.clear()
check(len(sa.volume_envelope.points) == 5, "clone env independent")

files = Path("tests/files")
for name in ("sampler.sunsynth", "multisynth.sunsynth", "multictl.sunsynth",
             "analog-generator.sunsynth", "generator.sunsynth", "spectravoice.sunsynth",
             "waveshaper.sunsynth", "metamodule-option-78.sunsynth"):
    path = files / name
    if not path.exists():
        continue
    with path.open("rb") as f:
        s1 = read_sunvox_file(f)
    with path.open("rb") as f:
        s2 = read_sunvox_file(f)
    b1 = to_bytes(s1.module)
    check(b1 == to_bytes(s2.module), f"{name}: two loads agree")
    dump.append((name, hashlib.sha256(b1).hexdigest()))
    mod = s1.module
    for attr, obj in vars(mod).items():
        if isinstance(obj, ArrayChunk) and obj.values and isinstance(obj.values[0], int):
            obj.values[0] ^= 1
        if isinstance(obj, WaveformChunk) and obj.samples:
            obj.samples[0] ^= 1
        if isinstance(obj, S.Envelope):
            obj.points.append((999, obj.range[1]))
    check(to_bytes(s2.module) == b1, f"{name}: loads are independent")

digest = hashlib.sha256(repr(dump).encode()).hexdigest()
EXPECTED = "7f8d714ea17f73efaa5d0def27e224aa2ad4f19314dd69f03431f1da2937c5d4"
if EXPECTED.startswith("@@"):
    print("digest", digest)
else:
    check(digest == EXPECTED, f"behaviour dump digest changed: {digest}")

if FAILURES:
    print("FAIL")
    for f_ in FAILURES:
        print(" -", f_)
    sys.exit(1)
print("PASS")
