"""Behaviour check for the Sampler sample codec: the per-sample meta record
(CHNM 2i+1), the data chunk with CHFF/CHFR (CHNM 2i+2), frame arithmetic and
the slot <-> chunk number mapping.

Expected bytes and decoded values are computed here with plain ``struct``
calls, independently of the library's own tables.
"""
import itertools
import logging
import random
import struct
import sys
from io import BytesIO

from rv.api import Synth, m, read_sunvox_file
from rv.modules import sampler as sampler_mod
from rv.modules.module import Chunk

logging.disable(logging.CRITICAL)

Sampler = m.Sampler
Format, Channels, LoopType = Sampler.Format, Sampler.Channels, Sampler.LoopType
rng = random.Random(0x2C16)
checks = 0


def ok(cond, msg):
    global checks
    checks += 1
    if not cond:
        print("FAIL:", msg)
        sys.exit(1)


def raises(exc_type, fn, msg):
    try:
        fn()
    except exc_type as e:
        ok(type(e) is exc_type, "%s: exact type %r" % (msg, type(e)))
        return e
    except Exception as e:  # pragma: no cover
        ok(False, "%s: raised %r instead of %r" % (msg, e, exc_type))
    ok(False, "%s: did not raise" % msg)


def make_chunk(chnm, chdt, chff=0, chfr=44100):
    c = Chunk()
    c.chnm, c.chdt, c.chff, c.chfr = chnm, chdt, chff, chfr
    return c


FORMAT_BITS = {1: 0x00, 2: 0x10, 4: 0x20}
FORMAT_SIZE = {1: 1, 2: 2, 4: 4}


def expected_meta(smp):
    frame = FORMAT_SIZE[int(smp.format)] * (2 if int(smp.channels) == 8 else 1)
    type_byte = (
        int(smp.loop_type)
        | FORMAT_BITS[int(smp.format)]
        | (0x40 if int(smp.channels) == 8 else 0)
        | (4 if smp.loop_sustain else 0)
    )
    return struct.pack(
        "<IIIBbBBbB22sI",
        len(smp.data) // frame,
        smp.loop_start,
        smp.loop_len,
        smp.volume,
        smp.finetune,
        type_byte,
        smp.panning + 0x80,
        smp.relative_note,
        smp.reserved2,
        smp.name[:22],
        smp.start_pos,
    )


def random_sample(fmt=None, ch=None, loop=None, sustain=None):
    smp = Sampler.Sample()
    smp.format = fmt if fmt is not None else rng.choice(list(Format))
    smp.channels = ch if ch is not None else rng.choice(list(Channels))
    smp.loop_type = loop if loop is not None else rng.choice(list(LoopType))
    smp.loop_sustain = sustain if sustain is not None else rng.random() < 0.5
    smp.data = bytes(rng.randrange(256) for _ in range(rng.randrange(0, 40)))
    smp.rate = rng.randrange(0, 2 ** 32)
    smp.loop_start = rng.randrange(2 ** 32)
    smp.loop_len = rng.randrange(2 ** 32)
    smp.volume = rng.randrange(256)
    smp.finetune = rng.randrange(-128, 128)
    smp.panning = rng.randrange(-128, 128)
    smp.relative_note = rng.randrange(-128, 128)
    smp.reserved2 = rng.randrange(256)
    smp.name = bytes(rng.randrange(1, 256) for _ in range(rng.randrange(0, 30)))
    smp.start_pos = rng.randrange(2 ** 32)
    return smp


def sample_state(x):
    if x is None:
        return None
    return (
        x.data, x.format, x.channels, x.rate, x.loop_start, x.loop_len,
        x.loop_type, x.loop_sustain, x.volume, x.finetune, x.panning,
        x.relative_note, x.name, x.start_pos, x.reserved2,
    )


# -------------------------------------------------------------- defaults
def check_defaults():
    smp = Sampler.Sample()
    ok(sample_state(smp) == (
        b"", Format.float32, Channels.stereo, 44100, 0, 0, LoopType.off, False,
        64, 100, 0, 16, b"", 0, 0,
    ), "Sample defaults")
    ok(smp._length == 0, "default _length")
    ok(smp.frame_size == 8 and smp.frames == 0, "default frame size")
    ok(hasattr(sampler_mod, "_StructReader") and hasattr(sampler_mod, "_StructWriter"), "helpers")
    ok(hasattr(sampler_mod, "Chunk") and hasattr(sampler_mod, "Sampler"), "module names")


# ------------------------------------------------------------ frame sizes
def check_frames():
    for fmt, ch in itertools.product(Format, Channels):
        smp = Sampler.Sample()
        smp.format, smp.channels = fmt, ch
        size = FORMAT_SIZE[fmt.value] * (2 if ch is Channels.stereo else 1)
        ok(smp.frame_size == size and type(smp.frame_size) is int, "frame_size %s %s" % (fmt, ch))
        for n in [0, 1, size - 1, size, size + 1, 7 * size + size - 1, 1000]:
            smp.data = b"\0" * n
            ok(smp.frames == n // size, "frames")
        # plain ints hash like the enum members
        smp.format, smp.channels = fmt.value, ch.value
        ok(smp.frame_size == size, "frame_size from plain ints")
    smp = Sampler.Sample()
    smp.format = 3
    e = raises(KeyError, lambda: smp.frame_size, "unknown format")
    ok(e.args == (3,), "KeyError names the format")
    raises(KeyError, lambda: smp.frames, "frames with unknown format")
    smp.channels = 5
    e = raises(KeyError, lambda: smp.frame_size, "format is looked up first")
    ok(e.args == (3,), "KeyError names the format, not the channels")
    smp.format = Format.int8
    e = raises(KeyError, lambda: smp.frame_size, "unknown channels")
    ok(e.args == (5,), "KeyError names the channels")


# ------------------------------------------------------------- writing
def check_sample_chunks():
    s = Sampler()
    combos = itertools.product(Format, Channels, LoopType, [False, True])
    for fmt, ch, loop, sustain in combos:
        for slot in [0, 1, 63, 127]:
            smp = random_sample(fmt, ch, loop, sustain)
            chunks = list(s.sample_chunks(slot, smp))
            ok([t for t, _ in chunks] == [b"CHNM", b"CHDT", b"CHNM", b"CHDT", b"CHFF", b"CHFR"], "tags")
            ok(chunks[0][1] == struct.pack("<I", 2 * slot + 1), "meta chnm")
            ok(chunks[1][1] == expected_meta(smp), "meta record %s %s %s %s" % (fmt, ch, loop, sustain))
            ok(len(chunks[1][1]) == 44 and type(chunks[1][1]) is bytes, "meta record size")
            ok(chunks[2][1] == struct.pack("<I", 2 * slot + 2), "data chnm")
            ok(chunks[3][1] is smp.data, "data passed through untouched")
            ok(chunks[4][1] == struct.pack("<I", fmt.value | ch.value), "chff")
            ok(chunks[5][1] == struct.pack("<I", smp.rate), "chfr")
    # truthy, non-bool sustain values
    smp = random_sample(Format.int8, Channels.mono, LoopType.off, None)
    for sustain, bit in [(1, 4), (0, 0), ("yes", 4), ("", 0), (None, 0), (2, 4)]:
        smp.loop_sustain = sustain
        ok(list(s.sample_chunks(0, smp))[1][1][14] == bit, "sustain %r" % (sustain,))
    # field widths
    for attr, bad in [
        ("volume", 256), ("volume", -1), ("finetune", 128), ("finetune", -129),
        ("panning", 128), ("panning", -129), ("relative_note", 128), ("reserved2", 256),
        ("loop_start", 2 ** 32), ("loop_len", -1), ("start_pos", 2 ** 32), ("volume", "x"),
    ]:
        smp = random_sample()
        setattr(smp, attr, bad)
        gen = s.sample_chunks(3, smp)
        raises(struct.error, lambda: next(gen), "%s=%r" % (attr, bad))
    smp = random_sample()
    smp.rate = 2 ** 32
    gen = s.sample_chunks(3, smp)
    ok(len([next(gen) for _ in range(5)]) == 5, "first five chunks are fine")
    raises(struct.error, lambda: next(gen), "rate too wide fails last")
    # lookups: format first, then channels, then loop type
    smp = random_sample()
    smp.format, smp.channels, smp.loop_type = 3, 5, 1
    raises(KeyError, lambda: next(s.sample_chunks(0, smp)), "format 3")
    smp.data = b""
    smp.format = Format.int16
    e = raises(KeyError, lambda: next(s.sample_chunks(0, smp)), "channels 5")
    ok(e.args == (5,), "channels key")
    smp.channels = Channels.mono
    raises(AttributeError, lambda: next(s.sample_chunks(0, smp)), "loop type needs .value")
    # plain int format / channels work for the record but not for CHFF
    smp = random_sample(Format.int16, Channels.stereo, LoopType.ping_pong, True)
    reference = expected_meta(smp)
    smp.format, smp.channels = 2, 8
    gen = s.sample_chunks(9, smp)
    got = [next(gen) for _ in range(4)]
    ok(got[1][1] == reference, "plain ints give the same record")
    raises(AttributeError, lambda: next(gen), "CHFF needs enum members")
    # a chunk number that does not fit
    smp = random_sample()
    gen = s.sample_chunks(2 ** 31, smp)
    raises(struct.error, lambda: next(gen), "slot number too large")
    gen = s.sample_chunks(-1, smp)
    raises(struct.error, lambda: next(gen), "negative chunk number")
    # names
    smp = random_sample()
    smp.name = b"a" * 30
    ok(list(s.sample_chunks(0, smp))[1][1][18:40] == b"a" * 22, "name truncated")
    smp.name = b"ab"
    ok(list(s.sample_chunks(0, smp))[1][1][18:40] == b"ab" + b"\0" * 20, "name padded")
    # sample_data_chunks walks the slots in order and skips empty ones
    s = Sampler()
    placed = {}
    for slot in [127, 0, 64, 5]:
        placed[slot] = s.samples[slot] = random_sample()
    chunks = list(s.sample_data_chunks())
    ok(len(chunks) == 6 * 4, "four samples")
    expect = []
    for slot in sorted(placed):
        expect.extend(s.sample_chunks(slot, placed[slot]))
    ok(chunks == expect, "slot order")
    ok(list(Sampler().sample_data_chunks()) == [], "no samples, no chunks")


# ------------------------------------------------------------- reading
def reference_decode(record):
    """Returns ('ok', fields) or (exception type, fields assigned so far)."""
    fields = {}
    pos = 0

    def take(fmt, default=None):
        nonlocal pos
        size = struct.calcsize(fmt)
        buf = record[pos : pos + size]
        if len(buf) < size:
            if default is None:
                raise RuntimeError
            return default
        pos += size
        return struct.unpack(fmt, buf)[0]

    try:
        fields["_length"] = take("<I")
        fields["loop_start"] = take("<I")
        fields["loop_len"] = take("<I")
        fields["volume"] = take("<B")
        fields["finetune"] = take("<b")
        t = take("<B")
        if t & 3 == 3:
            raise ValueError
        fields["loop_type"] = LoopType(t & 3)
        if t & 0x30 == 0x30:
            raise KeyError
        fields["format"] = {0: Format.int8, 0x10: Format.int16, 0x20: Format.float32}[t & 0x30]
        fields["channels"] = Channels.stereo if t & 0x40 else Channels.mono
        fields["loop_sustain"] = bool(t & 4)
        fields["panning"] = take("<B") - 0x80
        fields["relative_note"] = take("<b")
        fields["reserved2"] = take("<B")
        fields["name"] = record[pos : pos + 22].rstrip(b"\0")
        pos += 22
        fields["start_pos"] = take("<I", 0)
    except (RuntimeError, ValueError, KeyError) as e:
        return type(e), fields
    return "ok", fields


DEFAULT_FIELDS = dict(
    _length=0, loop_start=0, loop_len=0, volume=64, finetune=100,
    loop_type=LoopType.off, format=Format.float32, channels=Channels.stereo,
    loop_sustain=False, panning=0, relative_note=16, reserved2=0, name=b"", start_pos=0,
)


def check_fields(smp, fields, msg):
    for key, default in DEFAULT_FIELDS.items():
        want = fields.get(key, default)
        got = getattr(smp, key)
        ok(got == want and type(got) is type(want), "%s: %s %r != %r" % (msg, key, got, want))
    ok(smp.data == b"" and smp.rate == 44100, "%s: data untouched" % msg)


def check_load_meta():
    base = bytearray(expected_meta(random_sample(Format.int8, Channels.mono, LoopType.off, False)))
    # every possible type byte
    for type_byte in range(256):
        record = bytes(base[:14]) + bytes([type_byte]) + bytes(base[15:])
        outcome, fields = reference_decode(record)
        s = Sampler()
        chunk = make_chunk(2 * 9 + 1, record)
        if outcome == "ok":
            s.load_sample_meta(chunk)
        else:
            raises(outcome, lambda: s.load_sample_meta(chunk), "type byte %#x" % type_byte)
        smp = s.samples[9]
        ok(type(smp) is Sampler.Sample, "slot filled even on failure")
        ok([i for i, x in enumerate(s.samples) if x is not None] == [9], "only slot 9")
        check_fields(smp, fields, "type byte %#x" % type_byte)
        if outcome == "ok":
            ok(smp.format in list(Format) and smp.channels in list(Channels), "members")
            ok(smp.format is Format(smp.format) and smp.loop_type is LoopType(smp.loop_type), "identity")
    # every truncation of a record, and some padding
    full = expected_meta(random_sample())
    for size in list(range(0, len(full) + 1)) + [len(full) + 5]:
        record = (full + b"\x07" * 8)[:size]
        outcome, fields = reference_decode(record)
        s = Sampler()
        chunk = make_chunk(1, record)
        if outcome == "ok":
            s.load_sample_meta(chunk)
        else:
            e = raises(outcome, lambda: s.load_sample_meta(chunk), "record of %d bytes" % size)
            ok(str(e) == "default not provided", "short read message")
        check_fields(s.samples[0], fields, "record of %d bytes" % size)
    # names keep inner NULs, lose trailing ones
    smp = random_sample()
    smp.name = b"a\0b\0\0"
    s = Sampler()
    s.load_sample_meta(make_chunk(3, expected_meta(smp)))
    ok(s.samples[1].name == b"a\0b", "name strip")
    # random records round trip through writer and reader
    for _ in range(200):
        smp = random_sample()
        writer = Sampler()
        record = list(writer.sample_chunks(0, smp))[1][1]
        slot = rng.randrange(128)
        reader = Sampler()
        reader.load_sample_meta(make_chunk(2 * slot + 1, record))
        got = reader.samples[slot]
        for key in DEFAULT_FIELDS:
            if key == "_length":
                ok(got._length == smp.frames, "_length is the frame count")
            elif key == "name":
                ok(got.name == smp.name[:22].rstrip(b"\0"), "name")
            else:
                ok(getattr(got, key) == getattr(smp, key), key)
    # a second meta chunk for the same slot starts from a fresh Sample
    s = Sampler()
    s.load_sample_meta(make_chunk(1, full))
    first = s.samples[0]
    first.data = b"abc"
    s.load_sample_meta(make_chunk(1, full))
    ok(s.samples[0] is not first and s.samples[0].data == b"", "fresh sample")
    # slot mapping when called directly with unusual chunk numbers
    s = Sampler()
    s.load_sample_meta(make_chunk(4, full))
    ok([i for i, x in enumerate(s.samples) if x] == [1], "even chnm 4 -> slot 1")
    s = Sampler()
    s.load_sample_meta(make_chunk(0, full))
    ok([i for i, x in enumerate(s.samples) if x] == [127], "chnm 0 -> slot -1")
    s = Sampler()
    s.load_sample_meta(make_chunk(255, full))
    ok([i for i, x in enumerate(s.samples) if x] == [127], "chnm 255 -> slot 127")
    raises(IndexError, lambda: Sampler().load_sample_meta(make_chunk(257, full)), "slot 128")


def check_load_data():
    full = expected_meta(random_sample())
    for chff in list(range(0, 32)) + [0x100, 0x10F, 0xFFFFFFF2, 0xFFFFFFFF]:
        s = Sampler()
        s.load_sample_meta(make_chunk(2 * 7 + 1, full))
        before = sample_state(s.samples[7])
        payload = bytes(rng.randrange(256) for _ in range(rng.randrange(0, 20)))
        chunk = make_chunk(2 * 7 + 2, payload, chff, 12345 + chff % 7)
        low = chff & 7
        smp = s.samples[7]
        if low in (0, 1, 2, 4):
            s.load_sample_data(chunk)
            ok(smp is s.samples[7], "same Sample object")
            ok(smp.data is payload, "data chff=%#x" % chff)
            ok(smp.format is Format(low or 1), "format chff=%#x" % chff)
            ok(smp.channels is (Channels.stereo if chff & 8 else Channels.mono), "channels")
            ok(smp.rate == 12345 + chff % 7, "rate")
        else:
            raises(ValueError, lambda: s.load_sample_data(chunk), "chff=%#x" % chff)
            ok(smp.data is payload, "data assigned before the failure")
            ok(sample_state(smp)[1:] == before[1:], "nothing else assigned")
    # data without a meta record
    s = Sampler()
    raises(AttributeError, lambda: s.load_sample_data(make_chunk(2, b"")), "no meta")
    # direct calls with unusual chunk numbers
    s = Sampler()
    s.load_sample_meta(make_chunk(3, full))
    s.load_sample_data(make_chunk(5, b"xy", 1, 8000))
    ok(s.samples[1].data == b"xy" and s.samples[1].rate == 8000, "odd chnm 5 -> slot 1")
    s = Sampler()
    s.load_sample_meta(make_chunk(255, full))
    s.load_sample_data(make_chunk(0, b"zz", 2, 1))
    ok(s.samples[127].data == b"zz", "chnm 0 -> slot -1")
    s.load_sample_data(make_chunk(1, b"yy", 2, 1))
    ok(s.samples[127].data == b"yy", "chnm 1 -> slot -1")
    raises(IndexError, lambda: s.load_sample_data(make_chunk(258, b"", 1, 1)), "slot 128")


def check_dispatch():
    """load_chunk routes odd/even chunk numbers below 0x101 to the sample loaders."""
    full = expected_meta(random_sample())
    s = Sampler()
    for slot in [0, 1, 50, 127]:
        s.load_chunk(make_chunk(2 * slot + 1, full))
        s.load_chunk(make_chunk(2 * slot + 2, bytes([slot]) * 4, 2 | 8, 22050))
    ok([i for i, x in enumerate(s.samples) if x] == [0, 1, 50, 127], "slots")
    for slot in [0, 1, 50, 127]:
        smp = s.samples[slot]
        ok(smp.data == bytes([slot]) * 4 and smp.format is Format.int16, "data %d" % slot)
        ok(smp.channels is Channels.stereo and smp.rate == 22050, "chff/chfr %d" % slot)
        ok(smp.frames == 1 and smp.frame_size == 4, "frames %d" % slot)
    ok(len(s.legacy_chunks) == 8, "raw chunks recorded until the record is seen")


# -------------------------------------------------------------- round trips
def check_round_trips():
    for _ in range(30):
        s = Sampler()
        for slot in rng.sample(range(128), rng.randrange(0, 8)):
            smp = random_sample()
            smp.data = smp.data[: len(smp.data) // smp.frame_size * smp.frame_size]
            smp.name = smp.name[:22]
            s.samples[slot] = smp
        c = s.clone()
        ok([sample_state(x) for x in c.samples] == [sample_state(x) for x in s.samples], "clone")
        ok(all(x is None or x._length == x.frames for x in c.samples), "_length")
        ok(list(c.sample_data_chunks()) == list(s.sample_data_chunks()), "same chunks")
    fixture = read_sunvox_file("tests/files/sampler.sunsynth").module
    ok([i for i, x in enumerate(fixture.samples) if x] == [0, 1, 2], "fixture slots")
    f = BytesIO()
    Synth(fixture).write_to(f)
    again = read_sunvox_file(BytesIO(f.getvalue())).module
    ok([sample_state(x) for x in again.samples] == [sample_state(x) for x in fixture.samples], "fixture")
    for x in fixture.samples[:3]:
        chunks = list(fixture.sample_chunks(0, x))
        ok(chunks[1][1] == expected_meta(x), "fixture record matches the layout")


check_defaults()
check_frames()
check_sample_chunks()
check_load_meta()
check_load_data()
check_dispatch()
check_round_trips()
print("PASS (%d checks)" % checks)
