"""Behaviour check for the Sampler envelope (de)serialisation code.

Run from the repository root:
    PYTHONPATH=<root>/src/python python check.py

Covers Sampler.Envelope.chunks / load_chdt / point_bytes, the legacy point
table upgrade (Sampler._upgrade_envelopes via finalize_load) and the
load -> edit -> save -> load cycle of envelope attributes (property C06).
The expected bytes are computed here by an independent re-statement of the
file layout, plus a golden digest of the full output of several scenarios.
"""
import hashlib
import logging
import os
import struct
import sys
from io import BytesIO
from struct import pack

logging.disable(logging.CRITICAL)

from rv.api import Project, Synth, read_sunvox_file  # noqa: E402
from rv.modules.module import Chunk  # noqa: E402
from rv.modules.sampler import Sampler  # noqa: E402

ROOT = os.getcwd()
FIXTURE = os.path.join(ROOT, "tests", "files", "sampler.sunsynth")

GOLDEN = "9b19dbcaedaaa0d16414176e4ef41b9096fef4ed5a3d56f9adc40d2358b98e00"

failures = []
golden = hashlib.sha256()


def check(cond, msg):
    if not cond:
        failures.append(msg)


def record(label, data):
    if not isinstance(data, bytes):
        data = repr(data).encode()
    golden.update(label.encode() + b"\0" + pack("<I", len(data)) + data)


def raises(exc_type, fn, *args):
    try:
        fn(*args)
    except exc_type:
        return True
    except Exception as e:  # pragma: no cover
        failures.append(f"expected {exc_type.__name__}, got {type(e).__name__}: {e}")
        return True
    return False


# --------------------------------------------------------------------------
# Reference implementation of the layouts (independent of the library code)
# --------------------------------------------------------------------------


def ref_chdt(env):
    bitmask = int(env.enable) | int(env.sustain) * 2 | int(env.loop) * 4
    out = pack("<HBBB", bitmask, env.ctl_index, env.gain_pct, env.velocity)
    out += b"\0\0\0"
    out += pack(
        "<HHHH",
        len(env.points),
        env.sustain_point,
        env.loop_start_point,
        env.loop_end_point,
    )
    out += b"\0\0\0\0"
    for x, y in env.points:
        out += pack("<HH", x, y - env.range[0])
    return out


def ref_point_bytes(env):
    xs = [x for x, y in env.points]
    ys = [y // 0x200 for x, y in env.points]
    xs = (xs + [0] * 12)[:12]
    ys = (ys + [0] * 12)[:12]
    off = env.range[0] // 0x200
    out = b""
    for x, y in zip(xs, ys):
        out += pack("<HH", x, y - off)
    return out


def env_state(env):
    return (
        env.chnm,
        list(env.points),
        env.sustain_point,
        env.loop_start_point,
        env.loop_end_point,
        env.enable,
        env.sustain,
        env.loop,
        env.ctl_index,
        env.gain_pct,
        env.velocity,
        env.loaded,
    )


def all_envelopes(s):
    return [s.volume_envelope, s.panning_envelope, s.pitch_envelope] + list(
        s.effect_control_envelopes
    )


def make_envelopes():
    return [
        Sampler.VolumeEnvelope(),
        Sampler.PanningEnvelope(),
        Sampler.PitchEnvelope(),
        Sampler.EffectControlEnvelope(0x105),
        Sampler.EffectControlEnvelope(0x108),
    ]


# --------------------------------------------------------------------------
# 1. Envelope.chunks / point_bytes / load_chdt on many point sets
# --------------------------------------------------------------------------


def point_sets(env):
    lo, hi = env.range
    mid = (lo + hi) // 2
    yield []
    yield [(0, lo)]
    yield [(0, hi), (65535, lo)]
    yield [(i * 7, lo + (i * 0x333) % (hi - lo + 1)) for i in range(5)]
    yield [(i, mid) for i in range(12)]
    yield [(i * 3, lo + i * 0x200) for i in range(13)]
    yield [(i * 2, hi - i * 0x100) for i in range(40)]
    yield [(1000, lo + 0x1FF), (2000, lo + 0x200), (3000, lo + 0x3FF)]


flag_sets = [
    dict(enable=False, sustain=False, loop=False),
    dict(enable=True, sustain=False, loop=False),
    dict(enable=False, sustain=True, loop=False),
    dict(enable=False, sustain=False, loop=True),
    dict(enable=True, sustain=True, loop=True),
]

for env_index, proto in enumerate(make_envelopes()):
    for ps_index, pts in enumerate(point_sets(proto)):
        for fl_index, flags in enumerate(flag_sets):
            env = make_envelopes()[env_index]
            env.points = list(pts)
            for k, v in flags.items():
                setattr(env, k, v)
            env.sustain_point = (ps_index * 3 + fl_index) % 65536
            env.loop_start_point = ps_index
            env.loop_end_point = 65535 - fl_index
            env.ctl_index = (fl_index * 50) % 256
            env.gain_pct = 255 - ps_index
            env.velocity = fl_index
            tag = f"env{env_index}/pts{ps_index}/fl{fl_index}"
            out = list(env.chunks())
            check(len(out) == 2, f"{tag}: expected 2 chunks")
            check(out[0] == (b"CHNM", pack("<I", env.chnm)), f"{tag}: CHNM")
            check(out[1][0] == b"CHDT", f"{tag}: CHDT tag")
            check(out[1][1] == ref_chdt(env), f"{tag}: CHDT payload")
            check(env.point_bytes == ref_point_bytes(env), f"{tag}: point_bytes")
            check(len(env.point_bytes) == 48, f"{tag}: point_bytes length")
            record(tag, out[1][1] + env.point_bytes)
            # load into a fresh envelope of the same kind
            fresh = make_envelopes()[env_index]
            check(fresh.loaded is False, f"{tag}: fresh.loaded")
            fresh.load_chdt(out[1][1])
            check(env_state(fresh)[:-1] == env_state(env)[:-1], f"{tag}: roundtrip")
            check(fresh.loaded is True, f"{tag}: loaded flag")
            check(
                all(type(p) is tuple for p in fresh.points), f"{tag}: point tuples"
            )
            # trailing garbage after the points is ignored
            other = make_envelopes()[env_index]
            other.load_chdt(out[1][1] + b"\xff" * 7)
            check(env_state(other) == env_state(fresh), f"{tag}: trailing bytes")

# bitmask property
env = Sampler.VolumeEnvelope()
for value in range(16):
    env.bitmask = value
    check(
        (env.enable, env.sustain, env.loop)
        == (bool(value & 1), bool(value & 2), bool(value & 4)),
        f"bitmask set {value}",
    )
    check(env.bitmask == value & 7, f"bitmask get {value}")

# header-only payload (16 bytes, zero points) is accepted, shorter is not
env = Sampler.PitchEnvelope()
env.load_chdt(pack("<HBBBBBBHHHH", 5, 1, 2, 3, 9, 9, 9, 0, 4, 5, 6))
check(
    env_state(env)
    == (0x104, [], 4, 5, 6, True, False, True, 1, 2, 3, True),
    "16 byte header",
)
for n in (0, 1, 7, 8, 15):
    env = Sampler.PitchEnvelope()
    before = env_state(env)
    check(raises(struct.error, env.load_chdt, b"\1" * n), f"short header {n}")
    check(env_state(env) == before, f"short header {n}: state untouched")
check(raises(TypeError, Sampler.PitchEnvelope().load_chdt, None), "None chdt")

# truncated point table: struct.error, points read so far are kept, not loaded
full = ref_chdt(Sampler.VolumeEnvelope())
for cut in (1, 3, 4, 5, 9):
    env = Sampler.VolumeEnvelope()
    env.points = [(1, 1)]
    check(raises(struct.error, env.load_chdt, full[:-cut]), f"truncated {cut}")
    expect = Sampler.VolumeEnvelope.initial_points[: 4 - (cut + 3) // 4]
    check(env.points == expect, f"truncated {cut}: partial points {env.points}")
    check(env.loaded is False, f"truncated {cut}: loaded")
    check(env.sustain is True and env.enable is True, f"truncated {cut}: flags")
# header says 2 points but payload stops at 0x10 / 0x14
hdr = pack("<HBBBBBBHHHH", 1, 0, 100, 0, 0, 0, 0, 2, 0, 0, 0)
for tail in (b"", b"\0\0\0\0", b"\0\0\0\0\1\0\2\0"):
    env = Sampler.VolumeEnvelope()
    check(raises(struct.error, env.load_chdt, hdr + tail), "missing points")

# out of range values are rejected when writing
for attr, bad in [
    ("ctl_index", 256),
    ("gain_pct", -1),
    ("velocity", 300),
    ("sustain_point", 65536),
    ("loop_start_point", -1),
    ("loop_end_point", 1 << 20),
    ("ctl_index", None),
]:
    env = Sampler.PanningEnvelope()
    setattr(env, attr, bad)
    check(raises(struct.error, list, env.chunks()), f"bad {attr}={bad}")
env = Sampler.PanningEnvelope()
env.points = [(0, -0x4001)]
check(raises(struct.error, list, env.chunks()), "point below range")
check(raises(struct.error, lambda: env.point_bytes), "point_bytes below range")
env.points = [(70000, 0)]
check(raises(struct.error, list, env.chunks()), "x too large")
env.points = None
check(raises(TypeError, list, env.chunks()), "points None")

# --------------------------------------------------------------------------
# 2. Legacy point table upgrade (finalize_load without envelope chunks)
# --------------------------------------------------------------------------


def instrument_chunk(sampler):
    (_, _), (_, chdt) = sampler.global_config_chunks()
    c = Chunk()
    c.chnm = 0
    c.chdt = chdt
    return c


def upgraded_from(source):
    target = Sampler()
    target.load_chunk(instrument_chunk(source))
    target.finalize_load()
    return target


def ref_upgrade(env):
    n = len(env.points)
    pb = ref_point_bytes(env)
    pts = []
    for i in range(n):
        x, y = struct.unpack("<HH", pb[4 * i : 4 * i + 4])
        pts.append((x, y * 0x200 + env.range[0]))
    return pts


for idx, (vol_pts, pan_pts) in enumerate(
    [
        ([(0, 0x8000), (8, 0), (0x80, 0), (0x100, 0)], [(0, 0), (0x40, -0x2000)]),
        ([], []),
        ([(5, 0x4000)], [(i * 9, -0x4000 + i * 0x800) for i in range(12)]),
        ([(i, i * 0x200 + 0x1FF) for i in range(12)], [(65535, 0x4000)]),
        ([(0, 0x1234), (3, 0x7FFF)], [(1, -0x1234), (2, 0x3FFF), (3, -1)]),
    ]
):
    src = Sampler()
    src.volume_envelope.points = list(vol_pts)
    src.panning_envelope.points = list(pan_pts)
    src.volume_envelope.bitmask = idx % 8
    src.panning_envelope.bitmask = (idx * 3 + 1) % 8
    src.volume_envelope.sustain_point = idx
    src.volume_envelope.loop_start_point = idx + 1
    src.volume_envelope.loop_end_point = idx + 2
    src.panning_envelope.sustain_point = idx + 3
    src.panning_envelope.loop_start_point = idx + 4
    src.panning_envelope.loop_end_point = idx + 5
    dst = upgraded_from(src)
    tag = f"upgrade{idx}"
    for name in ("volume_envelope", "panning_envelope"):
        a, b = getattr(src, name), getattr(dst, name)
        check(b.points == ref_upgrade(a), f"{tag}: {name} points {b.points}")
        check(
            (b.bitmask, b.sustain_point, b.loop_start_point, b.loop_end_point)
            == (a.bitmask, a.sustain_point, a.loop_start_point, a.loop_end_point),
            f"{tag}: {name} header",
        )
        check(b.loaded is False, f"{tag}: {name} loaded stays False")
        check(all(type(p) is tuple for p in b.points), f"{tag}: tuples")
    check(dst.is_legacy is False and dst.legacy_chunks is None, f"{tag}: legacy")
    check(
        dst.pitch_envelope.points == Sampler.PitchEnvelope.initial_points,
        f"{tag}: pitch untouched",
    )
    record(tag, [env_state(e) for e in all_envelopes(dst)])
    record(tag + "/bytes", Synth(dst).read())

# more than 12 active points in the header: table is too small -> struct.error,
# header fields already taken over, points of both envelopes untouched
for which in ("volume_envelope", "panning_envelope"):
    s = Sampler()
    s.load_chunk(instrument_chunk(Sampler()))
    getattr(s, which)._legacy_active_points = 13
    s.volume_envelope._legacy_bitmask = 6
    s.panning_envelope._legacy_bitmask = 5
    s.volume_envelope.points = [(1, 2)]
    s.panning_envelope.points = [(3, 4)]
    check(raises(struct.error, s.finalize_load), f"13 points {which}")
    check(s.volume_envelope.points == [(1, 2)], f"13 points {which}: vol kept")
    check(s.panning_envelope.points == [(3, 4)], f"13 points {which}: pan kept")
    check(s.volume_envelope.bitmask == 6, f"13 points {which}: vol bitmask")
    check(s.panning_envelope.bitmask == 5, f"13 points {which}: pan bitmask")
# nothing loaded at all
check(raises(TypeError, Sampler().finalize_load), "finalize_load on fresh sampler")

# --------------------------------------------------------------------------
# 3. load -> edit -> save -> load (C06) on the fixture and generated files
# --------------------------------------------------------------------------


def reload_synth(module):
    return read_sunvox_file(BytesIO(Synth(module).read())).module


def reload_in_project(module):
    p = Project()
    module.parent = None
    module.index = None
    module.out_links, module.out_link_slots = [], []
    p.attach_module(module)
    p.output << module
    q = read_sunvox_file(BytesIO(p.read()))
    return q.modules[module.index]


synth = read_sunvox_file(FIXTURE)
raw = open(FIXTURE, "rb").read()
m = synth.module
check(isinstance(m, Sampler), "fixture is a sampler")
check(m.is_legacy is False, "fixture is not legacy")
first = synth.read()
record("fixture/rewrite", first)
check(read_sunvox_file(BytesIO(first)).read() == first, "fixture rewrite stable")
base_states = [env_state(e) for e in all_envelopes(m)]
record("fixture/envelopes", base_states)
for e in all_envelopes(m):
    check(e.loaded is True, "fixture envelope loaded")

edits = [
    ("points", lambda e: [(0, e.range[0]), (17, e.range[1]), (400, e.range[0] + 77)]),
    ("points", lambda e: []),
    ("points", lambda e: [(i * 5, e.range[0] + i * 0x111) for i in range(20)]),
    ("sustain_point", lambda e: 2),
    ("loop_start_point", lambda e: 1),
    ("loop_end_point", lambda e: 3),
    ("enable", lambda e: not e.enable),
    ("sustain", lambda e: not e.sustain),
    ("loop", lambda e: not e.loop),
    ("ctl_index", lambda e: 7),
    ("gain_pct", lambda e: 33),
    ("velocity", lambda e: 1),
]
for env_i in range(7):
    for attr, make in edits:
        s = read_sunvox_file(BytesIO(raw)).module
        target = all_envelopes(s)[env_i]
        new_value = make(target)
        setattr(target, attr, new_value)
        expected = [env_state(e) for e in all_envelopes(s)]
        for loader in (reload_synth, reload_in_project):
            t = loader(s)
            got = [env_state(e) for e in all_envelopes(t)]
            tag = f"edit env{env_i}.{attr} via {loader.__name__}"
            check(got == expected, tag)
            check(getattr(all_envelopes(t)[env_i], attr) == new_value, tag + " value")
            others = [g for i, g in enumerate(got) if i != env_i]
            base_others = [g for i, g in enumerate(base_states) if i != env_i]
            check(others == base_others, tag + " others unchanged")
            check(t.is_legacy is False, tag + " not legacy")
        record(f"edit/{env_i}/{attr}", Synth(s).read())

# generated sampler with everything non-default
g = Sampler()
g.volume_envelope.points = [(0, 0), (1, 0x8000), (2, 0x1234)]
g.volume_envelope.bitmask = 3
g.panning_envelope.points = [(9, -0x4000), (99, 0x4000)]
g.panning_envelope.bitmask = 4
g.pitch_envelope.points = []
g.pitch_envelope.gain_pct = 0
for i, e in enumerate(g.effect_control_envelopes):
    e.points = [(i, 0x8000 - i)] * (i + 1)
    e.ctl_index = i + 1
    e.velocity = i % 2
    e.enable = bool(i % 2)
expected = [env_state(e)[:-1] for e in all_envelopes(g)]
for loader in (reload_synth, reload_in_project):
    t = loader(g)
    check(
        [env_state(e)[:-1] for e in all_envelopes(t)] == expected,
        f"generated via {loader.__name__}",
    )
    t2 = loader(t)
    check(
        [env_state(e) for e in all_envelopes(t2)]
        == [env_state(e) for e in all_envelopes(t)],
        f"generated twice via {loader.__name__}",
    )
record("generated", Synth(g).read())

# legacy signature -> raw chunk replay stays as it is
legacy_src = Sampler()
chunk0 = instrument_chunk(legacy_src)
chunk0.chdt = chunk0.chdt.replace(b"PMAS", b"XXXX", 1)
leg = Sampler()
leg.load_chunk(chunk0)
leg.finalize_load()
check(leg.is_legacy is True and len(leg.legacy_chunks) == 1, "legacy detected")
out = list(leg.specialized_iff_chunks())
check(out[1] == (b"CHDT", chunk0.chdt), "legacy replay")
record("legacy", Synth(leg).read())

digest = golden.hexdigest()
if os.environ.get("C06_PRINT_GOLDEN"):
    print(digest)
check(digest == GOLDEN, f"golden digest mismatch: {digest}")

if failures:
    print("FAIL")
    for f in failures[:40]:
        print("  -", f)
    sys.exit(1)
print("PASS")
