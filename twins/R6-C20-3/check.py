"""Behaviour check for C20 refactoring 3 (readability/robustness of the fan-out).

Touched code: MultiCtl.on_value_changed (split into small helpers).

Drives MultiCtl values inside projects and compares every delivered value with
an independent literal copy of the scaling rules, checks range containment and
monotonicity for normal and reversed windows, and pins the order-sensitive and
failure behaviour of the fan-out loop (delivery order, unmapped / non-ranged
links, partial delivery before an IndexError, detached and non-downward
changes, self-targeting).  Must print PASS on the unchanged tree and with the
patch applied.
"""
import math
import sys

from rv.api import Project, m
from rv.controller import CompactRange, Range
from rv.errors import ControllerValueError
from rv.modules.base.multictl import BaseMultiCtl
from rv.modules.multictl import MultiCtl, convert_value

FAILURES = []


def expect(cond, msg):
    if not cond:
        FAILURES.append(msg)
        if len(FAILURES) > 20:
            finish()


def finish():
    if FAILURES:
        for f in FAILURES:
            print("FAIL:", f)
        sys.exit(1)
    print("PASS")
    sys.exit(0)


def ref_convert(gain, qsteps, smin, smax, dmin, dmax, vmax, value, curve=None):
    """Literal copy of the original scaling function."""
    value = (value * gain) / 256
    value = min(value, 32768)
    if curve is not None:
        bucket = int(value / 128)
        start = 128 * bucket
        offset = value - start
        b = curve[bucket]
        a = curve[bucket + 1] if bucket < 256 else b
        c = min(offset / 128, 1.0)
        value = int((c * a) + ((1.0 - c) * b))
    srange = smax - smin
    if qsteps < 32768:
        quant = max(qsteps - 1, 1)
        step = 32768 / quant
        value = int(value / step)
        value = (value * step) / 32768
        value = smin + int(srange * value)
    else:
        value = smin + (srange * value) // 32768
    drange = dmax - dmin
    if vmax is not None:
        value /= 32768 / vmax
    if drange > 0:
        value += dmin
    else:
        value = dmin - value
    return int(value)


def ref_delivered(vt, mp_min, mp_max, gain, quant, value, curve):
    """What the original fan-out loop writes into a ranged controller."""
    vmax = None if isinstance(vt, CompactRange) else vt.max - vt.min
    smin, smax = mp_min, mp_max
    dmin, dmax = 0, vt.max - vt.min
    if smin > smax:
        smin, smax = smax, smin
        dmin, dmax = dmax, dmin
    return ref_convert(gain, quant, smin, smax, dmin, dmax, vmax, value, curve) + vt.min


DEFAULT_CURVE = list(BaseMultiCtl.curve_chunk.default)
SQRT_CURVE = [int(round(32768 * math.sqrt(i / 256))) for i in range(257)]
SQUARE_CURVE = [(i * i * 32768) // (256 * 256) for i in range(257)]
STEP_CURVE = [0 if i < 100 else 32768 for i in range(257)]

TARGETS = [
    # (module class, controller name)
    ("Amplifier", "volume"),
    ("Amplifier", "balance"),
    ("Amplifier", "bipolar_dc_offset"),
    ("Amplifier", "fine_volume"),
    ("Generator", "polyphony"),
    ("Generator", "duty_cycle"),
    ("MultiSynth", "transpose"),
    ("MultiSynth", "finetune"),
    ("Filter", "freq"),
    ("Sampler", "vibrato_rate"),
    ("Kicker", "polyphony"),
    ("Delay", "delay_multiplier"),
]

WINDOWS = [(0, 32768), (32768, 0), (100, 20000), (20000, 100), (0, 8), (8, 0), (5, 5), (0, 256), (256, 0), (1, 16), (16, 1), (32768, 32768), (0, 0)]
CONFIGS = [
    (256, 32768, DEFAULT_CURVE),
    (256, 7, DEFAULT_CURVE),
    (0, 32768, DEFAULT_CURVE),
    (1024, 32768, SQRT_CURVE),
    (300, 2, SQUARE_CURVE),
    (511, 32767, STEP_CURVE),
    (77, 0, SQRT_CURVE),
]
VALUES = sorted(set(list(range(0, 32769, 509)) + [1, 127, 128, 129, 16383, 16384, 32767, 32768]))


def window_for(vt, i):
    """i-th test window; a compact range is not rescaled, so its window must fit its span."""
    lo, hi = WINDOWS[i]
    if isinstance(vt, CompactRange):
        span = vt.max - vt.min
        lo, hi = min(lo, span), min(hi, span)
    return lo, hi


def build():
    """A project with one module per TARGETS row, each in its own MultiCtl slot."""
    p = Project()
    mods = []
    rows = []
    for cls_name, ctl_name in TARGETS:
        mod = p.new_module(getattr(m, cls_name))
        mods.append(mod)
        rows.append((0, 32768, mod.controllers[ctl_name].number, 0, 0, 0, 0, 0))
    mc = p.new_module(MultiCtl, mappings=rows)
    mc >> mods
    return p, mc, mods


def check_delivered_values():
    p, mc, mods = build()
    expect(mc.out_links == [x.index for x in mods], "links in order")
    vts = [mod.controllers[name].value_type for mod, (_, name) in zip(mods, TARGETS)]
    expect(all(isinstance(vt, Range) for vt in vts), "all targets ranged")
    for gain, quant, curve in CONFIGS:
        mc.gain = gain
        mc.quantization = quant
        mc.curve.values = list(curve)
        for wi, (lo, hi) in enumerate(WINDOWS):
            for k, mp in enumerate(mc.mappings.values[: len(mods)]):
                # give neighbouring slots different windows
                mp.min, mp.max = window_for(vts[k], (wi + k) % len(WINDOWS))
            prev = None
            for value in VALUES:
                mc.value = value
                now = []
                for k, (mod, (_, name), vt) in enumerate(zip(mods, TARGETS, vts)):
                    mp = mc.mappings.values[k]
                    got = getattr(mod, name)
                    want = ref_delivered(vt, mp.min, mp.max, gain, quant, value, curve)
                    expect(got == want and type(got) is int, f"{name}: delivered {got!r}, expected {want!r} (v={value}, g={gain}, q={quant}, win={mp.min, mp.max})")
                    expect(vt.min <= got <= vt.max, f"{name}: {got} outside {vt}")
                    now.append(got)
                if prev is not None:
                    for k, (a, b) in enumerate(zip(prev, now)):
                        mp = mc.mappings.values[k]
                        if mp.min > mp.max:
                            expect(b <= a, f"{TARGETS[k]}: reversed window not non-increasing {a}->{b}")
                        else:
                            expect(b >= a, f"{TARGETS[k]}: window not non-decreasing {a}->{b}")
                prev = now


def check_full_axis():
    p = Project()
    flt = p.new_module(m.Filter)
    ms = p.new_module(m.MultiSynth)
    amp = p.new_module(m.Amplifier)
    mc = MultiCtl.macro(p, (flt, "freq"), (ms, "transpose"), (amp, "balance"))
    mc.mappings.values[2].min, mc.mappings.values[2].max = 30000, 2000  # reversed
    for gain, quant, curve in [(256, 32768, DEFAULT_CURVE), (700, 11, SQRT_CURVE)]:
        mc.gain, mc.quantization = gain, quant
        mc.curve.values = list(curve)
        prev = None
        for value in range(32769):
            mc.value = value
            now = (flt.freq, ms.transpose, amp.balance)
            want = (
                ref_delivered(m.Filter.freq.value_type, 0, 32768, gain, quant, value, curve),
                ref_delivered(m.MultiSynth.transpose.value_type, 0, 256, gain, quant, value, curve),
                ref_delivered(m.Amplifier.balance.value_type, 30000, 2000, gain, quant, value, curve),
            )
            if now != want:
                expect(False, f"full axis mismatch at {value}: {now} != {want}")
                break
            if prev is not None and not (now[0] >= prev[0] and now[1] >= prev[1] and now[2] <= prev[2]):
                expect(False, f"full axis not monotone at {value}: {prev}->{now}")
                break
            prev = now
        expect(0 <= flt.freq <= 14000 and -128 <= ms.transpose <= 128 and -128 <= amp.balance <= 128, "end of axis in range")


def record_changes(p, log):
    """Log every controller write that reaches the project (delivery order)."""
    original = p.on_controller_changed

    def spy(module, controller, value, down, up):
        log.append((module.index, controller.name, value))
        return original(module, controller, value, down, up)

    p.on_controller_changed = spy


def check_order_and_skips():
    p = Project()
    amp = p.new_module(m.Amplifier, volume=111)
    gen = p.new_module(m.Generator)
    dly = p.new_module(m.Delay)
    lfo = p.new_module(m.Lfo)
    spare = p.new_module(m.Amplifier, volume=222)
    flt = p.new_module(m.Filter)
    rows = [
        (0, 32768, 1, 0, 0, 0, 0, 0),  # amp.volume        ranged
        (0, 32768, 2, 0, 0, 0, 0, 0),  # gen.waveform      enum -> untouched
        (0, 32768, 3, 0, 0, 0, 0, 0),  # delay.delay_l     dependent range -> untouched
        (0, 32768, 10, 0, 0, 0, 0, 0),  # lfo.generator     bool -> untouched
        (0, 32768, 0, 0, 0, 0, 0, 0),  # spare             unmapped -> untouched
        (32768, 0, 2, 1, 9, 9, 9, 9),  # filter.freq       ranged, reversed, flags ignored
    ]
    mc = p.new_module(MultiCtl, mappings=rows)
    mc >> [amp, gen, dly, lfo, spare, flt]
    snapshot = lambda: (gen.waveform, dly.delay_l, lfo.generator, spare.volume)
    before = snapshot()
    log = []
    record_changes(p, log)
    mc.value = 8192
    expect(
        log == [(amp.index, "volume", 256), (flt.index, "freq", 10500), (mc.index, "value", 8192)],
        f"delivery log {log}",
    )
    expect(snapshot() == before, "unmapped / non-ranged links were modified")
    # down=False: value stored, nothing delivered
    del log[:]
    MultiCtl.value.propagate(mc, 32768, down=False, up=True)
    expect(mc.value == 32768 and log == [(mc.index, "value", 32768)], f"down=False delivered something: {log}")
    expect((amp.volume, flt.freq) == (256, 10500), "down=False changed targets")
    mc.on_value_changed(123, down=False, up=False)
    mc.on_value_changed(123, down=0, up=True)
    expect((amp.volume, flt.freq) == (256, 10500) and mc.value == 32768, "direct call with down falsy")
    # direct call with down=True uses the stored value, not the argument
    mc.on_value_changed(0, down=True, up=False)
    expect((amp.volume, flt.freq) == (1024, 0), f"direct call: {(amp.volume, flt.freq)}")
    expect(mc.on_value_changed(5, down=1, up=None) is None, "returns None")
    # set_initial / constructor kwargs do not fan out
    MultiCtl.value.set_initial(mc, 0)
    expect((amp.volume, flt.freq, mc.value) == (1024, 0, 0), "set_initial must not fan out")
    # detached MultiCtl: no error although it has links-less mappings
    orphan = MultiCtl(mappings=rows, value=5)
    orphan.value = 77
    orphan.on_value_changed(77, down=True, up=True)
    expect(orphan.value == 77 and orphan.parent is None, "orphan")
    # detached with stale out_links: still nothing happens
    orphan.out_links = [0, 1, 2]
    orphan.value = 78
    expect(orphan.value == 78, "orphan with stale links")


def check_partial_delivery_on_errors():
    p = Project()
    amps = [p.new_module(m.Amplifier, volume=7) for _ in range(4)]
    rows = [
        (0, 32768, 1, 0, 0, 0, 0, 0),
        (0, 32768, 10, 0, 0, 0, 0, 0),  # Amplifier has 9 controllers -> IndexError
        (0, 32768, 1, 0, 0, 0, 0, 0),
    ]
    mc = p.new_module(MultiCtl, mappings=rows)
    mc >> amps[:3]
    try:
        mc.value = 32768
    except IndexError:
        pass
    else:
        expect(False, "controller number beyond the target's controllers accepted")
    expect([a.volume for a in amps] == [1024, 7, 7, 7], "links before the failing one are served, later ones are not")
    expect(mc.value == 32768, "value itself is stored before the fan-out")
    # negative controller numbers index from the end (list semantics)
    mc.mappings.values[1].controller = -1  # index -2 -> 'gain' (0..5000)
    mc.value = 16384
    expect([a.volume for a in amps] == [512, 7, 512, 7] and amps[1].gain == 2500, f"negative controller number: {amps[1].gain}")
    # more links than mapping slots: 16 are served, the 17th raises
    q = Project()
    many = [q.new_module(m.Amplifier, volume=7) for _ in range(17)]
    mc = q.new_module(MultiCtl, mappings=[(0, 32768, 1, 0, 0, 0, 0, 0)] * 16)
    mc >> many
    try:
        mc.value = 32768
    except IndexError:
        pass
    else:
        expect(False, "17th link has no mapping slot")
    expect([a.volume for a in many] == [1024] * 16 + [7], "16 served before the IndexError")
    # a disconnected link (-1) addresses the last module of the project (list semantics)
    r = Project()
    a = r.new_module(m.Amplifier, volume=7)
    b = r.new_module(m.Amplifier, volume=7)
    mc = r.new_module(MultiCtl, mappings=[(0, 32768, 1, 0, 0, 0, 0, 0)] * 2)
    mc >> [a, b]
    last = r.new_module(m.Amplifier, volume=7)
    mc >> ~a
    expect(mc.out_links == [-1, b.index], "disconnect leaves -1")
    mc.value = 16384
    expect((a.volume, b.volume, last.volume) == (7, 512, 512), f"-1 link: {(a.volume, b.volume, last.volume)}")
    # a mapping object without a window cannot be delivered: AttributeError after earlier links
    del mc.mappings.values[1].min
    last.volume = 7
    try:
        mc.value = 32768
    except AttributeError:
        pass
    else:
        expect(False, "mapping without min accepted")
    expect((last.volume, b.volume) == (1024, 512), "first link served before the AttributeError")
    # out-of-window mapping drives the value outside the range -> validation error from the target
    s = Project()
    t = s.new_module(m.Amplifier)
    mc = s.new_module(MultiCtl, mappings=[(0, 70000, 1, 0, 0, 0, 0, 0)])
    mc >> t
    try:
        mc.value = 32768
    except ControllerValueError:
        pass
    else:
        expect(False, "window beyond 32768 should overdrive the target")
    expect(t.volume == 256, "overdriven target keeps its value")


def check_self_targeting():
    # A MultiCtl may drive its own gain: later links must see the new gain.
    p = Project()
    a = p.new_module(m.Amplifier)
    mc = p.new_module(MultiCtl)
    b = p.new_module(m.Amplifier)
    mc.mappings.values[0] = MultiCtl.Mapping((0, 32768, 1, 0, 0, 0, 0, 0))
    mc.mappings.values[1] = MultiCtl.Mapping((0, 32768, 2, 0, 0, 0, 0, 0))  # own gain
    mc.mappings.values[2] = MultiCtl.Mapping((0, 32768, 1, 0, 0, 0, 0, 0))
    mc >> a
    try:
        mc >> mc
    except Exception:
        return  # self links not supported by this tree; nothing to pin
    mc >> b
    if mc.out_links != [a.index, mc.index, b.index]:
        return
    mc.value = 16384
    # a: gain 256 -> 512; own gain becomes 16384/32768*1024 = 512; b sees gain 512 -> 1024
    expect((a.volume, mc.gain, b.volume) == (512, 512, 1024), f"self targeting: {(a.volume, mc.gain, b.volume)}")
    # a chain of MultiCtls
    q = Project()
    t = q.new_module(m.Filter)
    inner = MultiCtl.macro(q, (t, "freq"))
    outer = MultiCtl.macro(q, (inner, "value"))
    outer.value = 16384
    expect((inner.value, t.freq) == (16384, 6999), f"chained MultiCtls: {(inner.value, t.freq)}")


def check_against_library_convert_value():
    # the fan-out must use exactly the public scaling function
    p, mc, mods = build()
    mc.gain, mc.quantization = 333, 12
    for k, mp in enumerate(mc.mappings.values[: len(mods)]):
        mp.min, mp.max = window_for(mods[k].controllers[TARGETS[k][1]].value_type, k % len(WINDOWS))
    for value in (0, 1000, 16384, 32768):
        mc.value = value
        for k, (mod, (_, name)) in enumerate(zip(mods, TARGETS)):
            vt = mod.controllers[name].value_type
            mp = mc.mappings.values[k]
            span = vt.max - vt.min
            if mp.min > mp.max:
                args = (mp.max, mp.min, span, 0)
            else:
                args = (mp.min, mp.max, 0, span)
            want = vt.min + convert_value(333, 12, *args, None if isinstance(vt, CompactRange) else span, value, mc.curve.values)
            expect(getattr(mod, name) == want, f"{name}: {getattr(mod, name)} != convert_value {want}")


def main():
    check_order_and_skips()
    check_partial_delivery_on_errors()
    check_self_targeting()
    check_against_library_convert_value()
    check_delivered_values()
    check_full_axis()
    finish()


if __name__ == "__main__":
    main()
