"""Behaviour check for C05 (re-saving is stable / saving is pure).

Focus of this variant: the *reader* side -- ModuleReader.process_SLNK/SLnK/SEND
(link value decoding, trailing -1 trimming, order in which stored controller
values are applied and reported) and SunVoxReader.process_end_of_file (link
slot reconstruction, out-link rebuilding, legacy pattern fix-up), plus
idempotence of load/save for fixtures and mutated fixtures.

Run from the repository root:
    PYTHONPATH=<root>/src/python python check.py
Prints PASS and exits 0 when behaviour matches the recorded baseline.
"""
import hashlib
import io
import logging
import struct
import sys
from pathlib import Path

import rv.api as rv
from rv.errors import ControllerValueError, EmptySynthError
from rv.modules.module import Module
from rv.project import Project
from rv.readers.reader import read_sunvox_file
from rv.synth import Synth

EXPECTED = "1f59c97e6d79bb189b9e7657cda17ad6baece928fe47cee624385a86fb3ca557"

ROOT = Path.cwd()
FILES = ROOT / "tests" / "files"
assert FILES.is_dir(), "run from the repository root"

# Inputs on which the *unchanged* tree is already not idempotent (explicit
# all-zero SLnK whose rebuilt value would be non-zero).  Pinned so that a
# refactoring neither fixes nor worsens it silently.
KNOWN_DRIFT = {"links filter_lfo.sunvox addslots-fit0"}

TRACE = []
FAILURES = []


def note(*parts):
    TRACE.append(" ".join(str(p) for p in parts))


def sha(b):
    return hashlib.sha256(b).hexdigest()[:16]


class Collect(logging.Handler):
    def __init__(self):
        super().__init__(level=logging.WARNING)
        self.messages = []

    def emit(self, record):
        self.messages.append(record.getMessage())


COLLECT = Collect()
_rvlog = logging.getLogger("rv")
_rvlog.addHandler(COLLECT)
_rvlog.propagate = False
_rvlog.setLevel(logging.WARNING)


def split_chunks(data):
    """-> list of (name, payload) for the top-level IFF stream."""
    out = []
    pos = 0
    while pos + 8 <= len(data):
        name = data[pos : pos + 4]
        (size,) = struct.unpack("<I", data[pos + 4 : pos + 8])
        out.append((name, data[pos + 8 : pos + 8 + size]))
        pos += 8 + size
    return out


def join_chunks(chunks):
    return b"".join(n + struct.pack("<I", len(d)) + d for n, d in chunks)


def load(data):
    return read_sunvox_file(io.BytesIO(data))


def save(obj):
    f = io.BytesIO()
    obj.write_to(f)
    return f.getvalue()


def modules_of(obj):
    if isinstance(obj, Synth):
        return [obj.module]
    return [m for m in obj.modules if m is not None]


def snapshot(obj):
    snap = []
    if isinstance(obj, Project):
        snap.append(
            sorted(
                (k, repr(v))
                for k, v in vars(obj).items()
                if k not in ("modules", "patterns", "output", "metamodule")
            )
        )
        snap.append(len(obj.modules))
        snap.append(
            [
                None if p is None else (type(p).__name__, getattr(p, "x", 0))
                for p in obj.patterns
            ]
        )
    for m in modules_of(obj):
        snap.append(
            (
                type(m).__name__,
                m.index,
                m.name,
                m.flags,
                sorted((k, repr(v)) for k, v in m.controller_values.items()),
                sorted((k, repr(v)) for k, v in m.option_values.items()),
                sorted(m.controllers_loaded),
                list(m.in_links),
                list(m.in_link_slots),
                list(m.out_links),
                list(m.out_link_slots),
                m.mod_scale,
                m.mod_finetune,
                m.mod_relative_note,
                m.x,
                m.y,
                m.layer,
                tuple(m.color),
            )
        )
    return repr(snap)


def cycle(label, data, cycles=3):
    """load/save `cycles` times; record digest or the error type."""
    del COLLECT.messages[:]
    try:
        obj = load(data)
    except Exception as e:  # noqa: BLE001 - error type is part of behaviour
        note(label, "ERR", type(e).__name__)
        return None
    warnings = list(COLLECT.messages)
    before = snapshot(obj)
    partial = io.BytesIO()
    try:
        obj.write_to(partial)
    except Exception as e:  # noqa: BLE001 - error type and partial output matter
        note(label, "SAVE-ERR", type(e).__name__, e.args, sha(partial.getvalue()))
        if snapshot(obj) != before:
            FAILURES.append(f"{label}: failed save changed object state")
        return None
    y1 = partial.getvalue()
    after = snapshot(obj)
    if before != after:
        FAILURES.append(f"{label}: saving changed object state")
    if save(obj) != y1:
        FAILURES.append(f"{label}: saving twice gave different bytes")
    y = y1
    for n in range(cycles):
        y_next = save(load(y))
        if y_next != y:
            # Recorded, and only tolerated for the inputs listed in KNOWN_DRIFT.
            note(label, "DRIFT at cycle", n + 2, sha(y_next))
            if label not in KNOWN_DRIFT:
                FAILURES.append(f"{label}: drift at cycle {n + 2}")
            break
        y = y_next
    note(label, "OK", sha(y1), len(y1), sha("\n".join(warnings).encode()))
    return y1


def chunk_trace(obj):
    """Names, sizes and digests of every chunk the writer generates."""
    return [
        (None if n is None else n.decode("latin1"), None if d is None else sha(d))
        for n, d in obj.chunks()
    ]


def fixtures():
    return sorted(p for p in FILES.rglob("*.sun*") if p.is_file())


def check_fixtures():
    for path in fixtures():
        data = path.read_bytes()
        rel = path.relative_to(FILES)
        y1 = cycle(f"fixture {rel}", data)
        if y1 is not None:
            obj = load(data)
            note("chunks", rel, sha(repr(chunk_trace(obj)).encode()))
            # generator output must agree with what write_to() writes
            assert (
                join_chunks([(n.ljust(4), d) for n, d in obj.chunks() if n is not None])
                == y1
            )


CVAL_VALUES = (300, -5, 70000, -(2**31), 2**31 - 1)


def check_mutated_cvals():
    for path in fixtures():
        data = path.read_bytes()
        chunks = split_chunks(data)
        idxs = [i for i, (n, _) in enumerate(chunks) if n == b"CVAL"]
        if path.suffix == ".sunvox":
            idxs = idxs[:12]
        for k, i in enumerate(idxs):
            for v in CVAL_VALUES[: 5 if path.suffix == ".sunsynth" else 2]:
                mutated = list(chunks)
                mutated[i] = (b"CVAL", struct.pack("<i", v))
                cycle(f"cval {path.name}#{k}={v}", join_chunks(mutated), cycles=2)
        # all CVALs shifted up by 1000 at once (mostly out of range)
        mutated = [
            (n, struct.pack("<i", struct.unpack("<i", d)[0] + 1000))
            if n == b"CVAL"
            else (n, d)
            for n, d in chunks
        ]
        cycle(f"cval-all {path.name}", join_chunks(mutated), cycles=2)
        # extra, unknown trailing controllers
        if idxs:
            last = idxs[-1]
            mutated = list(chunks)
            mutated[last + 1 : last + 1] = [
                (b"CVAL", struct.pack("<i", 7)),
                (b"CVAL", struct.pack("<i", -9)),
            ]
            cycle(f"cval-extra {path.name}", join_chunks(mutated), cycles=2)


def check_mutated_links():
    for path in fixtures():
        if path.suffix != ".sunvox":
            continue
        chunks = split_chunks(path.read_bytes())
        slnk = [i for i, (n, d) in enumerate(chunks) if n == b"SLNK" and d]
        for variant in (
            "trail",
            "all-1",
            "mid-1",
            "slots0",
            "slots-1",
            "slotsrev",
            "dropslots",
            "addslots",
            "addslots-up",
            "addslots-mixed",
            "addslots-fit",
            "addslots-fit0",
        ):
            mutated = list(chunks)
            for i in slnk:
                n, d = mutated[i]
                count = len(d) // 4
                if variant == "trail":
                    mutated[i] = (n, d + struct.pack("<ii", -1, -1))
                elif variant == "all-1":
                    mutated[i] = (n, struct.pack("<i", -1) * count)
                elif variant == "mid-1" and count >= 2:
                    mutated[i] = (n, struct.pack("<i", -1) + d[4:])
            out = []
            for i, (n, d) in enumerate(mutated):
                if n == b"SLnK":
                    count = len(d) // 4
                    if variant == "slots0":
                        d = struct.pack("<i", 0) * count
                    elif variant == "slots-1":
                        d = struct.pack("<i", -1) * count
                    elif variant == "slotsrev":
                        vals = struct.unpack("<" + "i" * count, d)
                        d = struct.pack("<" + "i" * count, *reversed(vals))
                    elif variant == "dropslots":
                        continue
                if n == b"SLnK" and variant.startswith("addslots"):
                    continue
                out.append((n, d))
                if n == b"SLNK" and d and variant.startswith("addslots"):
                    count = len(d) // 4
                    if variant == "addslots":
                        vals = list(reversed(range(count)))
                    elif variant == "addslots-up":
                        vals = [k + 1 for k in range(count)]
                    elif variant.startswith("addslots-fit"):
                        links = list(struct.unpack("<%di" % count, d))
                        while links[-1:] == [-1]:
                            links.pop()
                        step = 1 if variant == "addslots-fit" else 0
                        vals = [
                            -1 if link == -1 else (k + 1) * step
                            for k, link in enumerate(links)
                        ]
                        if not vals:
                            continue
                    else:
                        vals = [(-1, 0, 2)[k % 3] for k in range(count)] + [-1]
                    out.append((b"SLnK", struct.pack("<%di" % len(vals), *vals)))
            cycle(f"links {path.name} {variant}", join_chunks(out), cycles=2)


def check_generated():
    # Projects built through the API: connections, disconnections, empty slots.
    p = Project()
    gen = p.new_module(rv.m.AnalogGenerator)
    flt = p.new_module(rv.m.Filter)
    amp = p.new_module(rv.m.Amplifier, dc_offset=-100, balance=50)
    lfo = p.new_module(rv.m.Lfo)
    gen >> flt >> amp >> p.output
    lfo >> p.output
    gen >> amp
    note("gen1", sha(repr(chunk_trace(p)).encode()))
    cycle("gen1", save(p))
    # disconnect: leaves -1 entries in the link lists
    p.connect(~gen, amp)
    note("gen2 links", amp.in_links, amp.in_link_slots, gen.out_links)
    note("gen2", sha(repr(chunk_trace(p)).encode()))
    cycle("gen2", save(p))
    p.connect(lfo, ~p.output)
    p.connect(~amp, ~p.output)
    note("gen3", sha(repr(chunk_trace(p)).encode()))
    cycle("gen3", save(p))
    # holes in module list
    p.modules[flt.index] = None
    amp.in_links[:] = [x if x != 2 else -1 for x in amp.in_links]
    note("gen4", sha(repr(chunk_trace(p)).encode()))
    # timeline/restart positions are optional chunks
    q = Project()
    names0 = [n for n, _ in q.chunks()]
    q.timeline_position = -3
    q.restart_position = 12
    q.name = "x" * 40
    q.receive_sync_midi = 5
    q.receive_sync_other = 3
    names1 = [n for n, _ in q.chunks()]
    assert b"TIME" not in names0 and b"REPS" not in names0
    assert names1.index(b"TIME") + 1 == names1.index(b"REPS")
    assert names1.index(b"CURL") + 1 == names1.index(b"TIME")
    assert names1.index(b"REPS") + 1 == names1.index(b"SELS")
    note("gen5", sha(repr(chunk_trace(q)).encode()))
    cycle("gen5", save(q))
    # only one of the optional position chunks
    q.timeline_position = 0
    names1b = [n for n, _ in q.chunks()]
    assert b"TIME" not in names1b and b"REPS" in names1b
    cycle("gen5b", save(q))
    # unpackable header fields fail at the same point of the stream
    for attr, bad in (
        ("initial_bpm", -1),
        ("modules_y_offset", 2**31),
        ("restart_position", 2**40),
        ("current_line", -1),
        ("global_volume", "80"),
    ):
        good = getattr(q, attr)
        setattr(q, attr, bad)
        partial = io.BytesIO()
        try:
            q.write_to(partial)
        except struct.error as e:
            note("bad header", attr, e.args, sha(partial.getvalue()), partial.tell())
        else:
            FAILURES.append(f"bad {attr} was written")
        setattr(q, attr, good)
    # link lists of different lengths / odd slot values
    r = Project()
    a1 = r.new_module(rv.m.Amplifier)
    a2 = r.new_module(rv.m.Amplifier)
    a1 >> a2 >> r.output
    a1 >> r.output
    for slots in ([0, 0], [0, -1], [-1, -1], [0, 1], [2, 0], [0], [0, 0, 0], []):
        r.output.in_link_slots[:] = slots
        partial = io.BytesIO()
        try:
            r.write_to(partial)
        except struct.error as e:
            note("slots", slots, "ERR", e.args, sha(partial.getvalue()))
        else:
            names = [n for n, _ in r.chunks()]
            note("slots", slots, names.count(b"SLnK"), sha(partial.getvalue()))
    # a pattern and an empty pattern slot
    q.attach_pattern(rv.Pattern(tracks=2, lines=4))
    q.attach_pattern(None)
    names2 = [n for n, _ in q.chunks()]
    assert names2.count(b"PEND") == 2
    note("gen6", sha(repr(chunk_trace(q)).encode()))
    cycle("gen6", save(q))
    # out-of-range values held by the object are written back unchanged
    loaded = load(save(p))
    m = loaded.modules[amp.index]
    m.controller_values["dc_offset"] = 300
    m.controller_values["volume"] = 5000
    assert m.get_raw("dc_offset") == 428 and m.get_raw("volume") == 5000
    cycle("gen7", save(loaded))
    # synths
    for cls in (rv.m.Amplifier, rv.m.Lfo, rv.m.MetaModule, rv.m.MultiSynth):
        mod = cls()
        s = Synth(mod)
        note("synth", cls.__name__, sha(repr(chunk_trace(s)).encode()))
        cycle(f"synth {cls.__name__}", save(s))
    # a module type without controllers has neither CVAL nor CMID
    s = Synth(rv.m.Feedback()) if hasattr(rv.m, "Feedback") else None
    if s is not None:
        names = [n for n, _ in s.chunks()]
        note("feedback names", names.count(b"CVAL"), names.count(b"CMID"))
    try:
        list(Synth().chunks())
    except EmptySynthError as e:
        note("empty synth", e.args)
    else:
        FAILURES.append("empty synth did not raise")
    try:
        list(Synth(Module()).chunks())
    except RuntimeError as e:
        note("base module synth", type(e).__name__, e.args)
    else:
        FAILURES.append("base Module serialised")
    # strict mode error text from set_raw
    a = rv.m.Amplifier()
    try:
        a.set_raw("dc_offset", 999)
    except ControllerValueError as e:
        note("strict", e.args)
    else:
        FAILURES.append("strict set_raw did not raise")


def describe_links(project):
    return [
        None
        if m is None
        else (m.index, m.in_links, m.in_link_slots, m.out_links, m.out_link_slots)
        for m in project.modules
    ]


def try_load(label, data):
    """Load once; record the outcome (links, warnings) or the error."""
    del COLLECT.messages[:]
    try:
        obj = load(data)
    except Exception as e:  # noqa: BLE001 - error type/text is behaviour
        note(label, "ERR", type(e).__name__, e.args, COLLECT.messages)
        return None
    if isinstance(obj, Project):
        note(label, describe_links(obj), COLLECT.messages)
    else:
        m = obj.module
        note(label, sorted(m.controller_values.items(), key=str), COLLECT.messages)
    return obj


def i32(*values):
    return struct.pack("<%di" % len(values), *values)


def check_reader_focus():
    base = (FILES / "issue109" / "filter_lfo.sunvox").read_bytes()
    chunks = split_chunks(base)
    slnk = [i for i, (n, d) in enumerate(chunks) if n == b"SLNK"]
    nonempty = [i for i in slnk if chunks[i][1]]
    def unused_inside(i):
        d = chunks[i][1]
        vals = list(struct.unpack("<%di" % (len(d) // 4), d))
        while vals[-1:] == [-1]:
            vals.pop()
        return -1 in vals

    targets = {
        "echo": next(i for i in slnk if len(chunks[i][1]) >= 12),  # [6, -1, ...]
        "vibrato": next(i for i in nonempty if unused_inside(i)),  # [1, -1, 5]
    }
    assert targets["echo"] != targets["vibrato"]
    for tag, vib in targets.items():

        def variant(label, edit, tag=tag):
            mutated = list(chunks)
            edit(mutated)
            data = join_chunks(mutated)
            if try_load(f"reader {tag} {label}", data) is not None:
                cycle(f"reader-cycle {tag} {label}", data, cycles=2)

        # payload sizes that are not a multiple of four / shorter than one entry
        for size in (1, 3, 5, 6, 13):
            variant(
                f"slnk-size-{size}",
                lambda m, size=size: m.__setitem__(vib, (b"SLNK", (i32(1, -1, 5) * 2)[:size])),
            )
            variant(
                f"slnk2-size-{size}",
                lambda m, size=size: m.insert(vib + 1, (b"SLnK", (i32(0, -1, 0) * 2)[:size])),
            )
        # SLNK split over two chunks: values accumulate, trimming sees the whole list
        variant(
            "slnk-twice",
            lambda m: m.__setitem__(slice(vib, vib + 1), [(b"SLNK", i32(1, -1)), (b"SLNK", i32(5, -1, -1))]),
        )
        variant(
            "slnk-twice-trim-across",
            lambda m: m.__setitem__(slice(vib, vib + 1), [(b"SLNK", i32(1, -1, 5)), (b"SLNK", i32(-1))]),
        )
        variant(
            "slnk-then-all-unused",
            lambda m: m.__setitem__(slice(vib, vib + 1), [(b"SLNK", i32(-1, -1)), (b"SLNK", i32(-1, -1, -1))]),
        )
        variant("slnk-only-unused", lambda m: m.__setitem__(vib, (b"SLNK", i32(-1, -1, -1))))
        variant("slnk-leading-unused", lambda m: m.__setitem__(vib, (b"SLNK", i32(-1, -1, 5))))
        variant("slnk-empty", lambda m: m.__setitem__(vib, (b"SLNK", b"")))
        variant("slnk-minus2", lambda m: m.__setitem__(vib, (b"SLNK", i32(1, -2, -1))))
        # explicit slots: matching, padded with unused, two chunks, sparse/high
        variant("slots-explicit", lambda m: m.insert(vib + 1, (b"SLnK", i32(0, -1, 0))))
        variant("slots-trailing", lambda m: m.insert(vib + 1, (b"SLnK", i32(0, -1, 0, -1, -1))))
        variant(
            "slots-twice",
            lambda m: m.__setitem__(slice(vib + 1, vib + 1), [(b"SLnK", i32(0, -1)), (b"SLnK", i32(0, -1))]),
        )
        variant("slots-high", lambda m: m.insert(vib + 1, (b"SLnK", i32(4, -1, 2))))
        variant("slots-short", lambda m: m.insert(vib + 1, (b"SLnK", i32(0))))
        variant("slots-long", lambda m: m.insert(vib + 1, (b"SLnK", i32(0, -1, 0, 3))))
        variant("slots-unused-for-link", lambda m: m.insert(vib + 1, (b"SLnK", i32(-1, -1, 1))))
        variant("slots-for-unused-link", lambda m: m.insert(vib + 1, (b"SLnK", i32(0, 2, 0))))
        variant("slots-below-unused", lambda m: m.insert(vib + 1, (b"SLnK", i32(0, -1, -3))))
        variant("slots-empty-payload", lambda m: m.insert(vib + 1, (b"SLnK", b"")))
        # links to modules that do not exist / to an empty module slot
        variant("link-missing-module", lambda m: m.__setitem__(vib, (b"SLNK", i32(1, 40, 5))))
        variant("link-empty-module", lambda m: m.__setitem__(vib, (b"SLNK", i32(1, 4, 5))))
        variant(
            "link-missing-module-slots",
            lambda m: m.__setitem__(slice(vib, vib + 1), [(b"SLNK", i32(1, 40, 5)), (b"SLnK", i32(0, 0, 0))]),
        )
        variant("link-self", lambda m: m.__setitem__(vib, (b"SLNK", i32(6, 1))))
        variant("link-duplicate", lambda m: m.__setitem__(vib, (b"SLNK", i32(1, 1, 5, 1))))
    # every module given the same input
    def all_same(m):
        for i in nonempty:
            m[i] = (b"SLNK", i32(3, -1, 3))
    variant("link-all-same", all_same)
    # trailing empty modules are removed from the module list
    variant("trailing-empty", lambda m: m.extend([(b"SEND", b""), (b"SEND", b"")]))
    # legacy files: module numbers in patterns lose their high byte
    for vers in ((1, 9, 4, 9), (1, 9, 5, 0), (1, 7, 0, 0), (2, 0, 0, 0)):
        def legacy(m, vers=vers):
            for i, (n, d) in enumerate(m):
                if n == b"VERS":
                    m[i] = (n, struct.pack("BBBB", *reversed(vers)))
                elif n == b"PDTA" and len(d) >= 8:
                    # first note: NN VV MM(lo) MM(hi)? -> write module 0x1234 raw
                    m[i] = (n, d[:2] + struct.pack("<H", 0x1234) + d[4:])
        mutated = list(chunks)
        legacy(mutated)
        data = join_chunks(mutated)
        obj = try_load(f"reader legacy {vers}", data)
        if obj is not None:
            mods = [
                [note_.module for line in pat.data for note_ in line][:4]
                for pat in obj.patterns
                if isinstance(pat, rv.Pattern)
            ]
            note("legacy modules", vers, mods[:3])
            cycle(f"reader-cycle legacy {vers}", data, cycles=2)

    # stored controller values: fewer / more than the module type has
    synth = (FILES / "amplifier.sunsynth").read_bytes()
    sch = split_chunks(synth)
    cv = [i for i, (n, _) in enumerate(sch) if n == b"CVAL"]

    def synth_variant(label, edit):
        mutated = list(sch)
        edit(mutated)
        data = join_chunks(mutated)
        if try_load("reader " + label, data) is not None:
            cycle("reader-cycle " + label, data, cycles=2)

    synth_variant("cval-none", lambda m: [m.pop(i) for i in reversed(cv)])
    synth_variant("cval-first-two", lambda m: [m.pop(i) for i in reversed(cv[2:])])
    synth_variant(
        "cval-three-extra",
        lambda m: m.__setitem__(slice(cv[-1] + 1, cv[-1] + 1), [(b"CVAL", i32(v)) for v in (11, -22, 33)]),
    )
    synth_variant(
        "cval-out-of-range-mix",
        lambda m: [m.__setitem__(i, (b"CVAL", i32(v))) for i, v in zip(cv, (5000, -1, 300, 999, -77, 2**20))],
    )
    synth_variant(
        "cval-extra-and-out-of-range",
        lambda m: (
            m.__setitem__(cv[2], (b"CVAL", i32(300))),
            m.__setitem__(slice(cv[-1] + 1, cv[-1] + 1), [(b"CVAL", i32(1)), (b"CVAL", i32(2))]),
        ),
    )
    # controller whose range depends on another controller (applied last-to-first)
    for name in ("multisynth.sunsynth", "metamodule.sunsynth", "lfo.sunsynth", "sampler.sunsynth"):
        data = (FILES / name).read_bytes()
        try_load("reader plain " + name, data)
    # strict reading: the first offending value (highest index) is reported
    import rv.readers.reader as reader_mod

    mutated = list(sch)
    for i, v in zip(cv, (5000, -1, 300, 999, -77, 2**20)):
        mutated[i] = (b"CVAL", i32(v))
    reader_mod.RAISE_RANGE_ERRORS_ON_READ = True
    try:
        try_load("reader strict", join_chunks(mutated))
    finally:
        reader_mod.RAISE_RANGE_ERRORS_ON_READ = False


def main():
    check_fixtures()
    check_reader_focus()
    check_generated()
    check_mutated_links()
    check_mutated_cvals()
    digest = hashlib.sha256("\n".join(TRACE).encode()).hexdigest()
    if FAILURES:
        print("FAIL")
        for f in FAILURES[:20]:
            print("  ", f)
        return 1
    if "--record" in sys.argv:
        print(digest, len(TRACE))
        return 0
    if "--dump" in sys.argv:
        print("\n".join(TRACE))
        return 0
    if digest != EXPECTED:
        print("FAIL: behaviour digest", digest, "!= expected", EXPECTED)
        return 1
    print("PASS", len(TRACE), "observations")
    return 0


if __name__ == "__main__":
    sys.exit(main())
