"""Behaviour check for the readability/robustness pass over the module round trip.

Covers Module.clone / get_raw / set_raw (every controller of every module
type at the ends of its range, against an independent raw-value reference;
range errors in raise and warn mode), Module.specialized_iff_chunks, the
CVAL application order of ModuleReader (dependent ranges, surplus and missing
CVALs), every type-specific load_chunk / specialized_iff_chunks pair
(MultiSynth, MultiCtl, SpectraVoice, FMX, WaveShaper, Vorbis player,
Generator, Analog generator) incl. foreign chunk numbers, read_sunvox_file
for names, paths and open files, and a round trip of every module type.
"""
import contextlib
import hashlib
import io
import logging
import os
import struct
import sys
import tempfile
from enum import Enum
from pathlib import Path
from types import SimpleNamespace

import rv.errors
from rv.api import Project
from rv.controller import NoOffsetRange, Range
from rv.errors import ControllerValueError, EmptySynthError
from rv.modules import MODULE_CLASSES, Chunk, Module
from rv.modules.metamodule import MetaModule
from rv.modules.multictl import MultiCtl
from rv.modules.spectravoice import SpectraVoice
from rv.readers.reader import read_sunvox_file
from rv.synth import Synth

logging.disable(logging.CRITICAL)

FAILURES = []


def check(cond, label):
    if not cond:
        FAILURES.append(label)
        print("FAIL:", label)


def raises(exc_type, fn, label):
    try:
        fn()
    except exc_type:
        return True
    except Exception as e:  # wrong type
        check(False, f"{label}: raised {type(e).__name__} instead of {exc_type}")
        return False
    check(False, f"{label}: did not raise")
    return False


def quiet(fn, *a, **kw):
    with contextlib.redirect_stdout(io.StringIO()):
        return fn(*a, **kw)


P = struct.pack


def iff(*chunks):
    return b"".join(n + P("<I", len(d)) + d for n, d in chunks)


def record(chnm, chdt, chff=0, chfr=44100):
    c = Chunk()
    c.chnm, c.chdt, c.chff, c.chfr = chnm, chdt, chff, chfr
    return c


# --------------------------------------------------------------------------
# get_raw / set_raw / clone
# --------------------------------------------------------------------------


def reference_raw(module, name):
    t = module.controllers[name].instance_value_type(module)
    v = module.controller_values[name]
    if isinstance(v, Enum):
        v = v.value
    if v is None:
        v = 0
    if isinstance(t, NoOffsetRange):
        return v
    if isinstance(t, Range) and t.min < 0:
        return v - t.min
    return int(v)


def check_raw_values():
    for mtype, cls in MODULE_CLASSES.items():
        if mtype == "Output":
            continue
        for variant in range(4):
            m = quiet(cls)
            m.flags = m.default_flags
            configure(m, variant)
            raws = {}
            for name in m.controllers:
                raw = m.get_raw(name)
                raws[name] = raw
                check(raw == reference_raw(m, name), f"get_raw {mtype}.{name} v{variant}")
                check(isinstance(raw, int), f"get_raw int {mtype}.{name}")
            cvals = [d for n, d in Synth(m).chunks() if n == b"CVAL"]
            attached = [n for n, c in m.controllers.items() if c.attached(m)]
            check(cvals == [P("<i", raws[n]) for n in attached], f"CVALs {mtype} v{variant}")
            # set_raw on a fresh module reproduces the value; dependants last
            fresh = quiet(cls)
            for name in reversed(list(m.controllers)):
                if name.startswith("user_defined_"):
                    continue
                fresh.set_raw(name, raws[name])
                fresh.controllers_loaded.add(name)
            for name in m.controllers:
                if name.startswith("user_defined_"):
                    continue
                check(
                    fresh.controller_values[name] == m.controller_values[name],
                    f"set_raw {mtype}.{name} v{variant}",
                )
                check(
                    type(fresh.controller_values[name]) is type(m.controller_values[name]),
                    f"set_raw type {mtype}.{name} v{variant}",
                )
            # clone
            c = quiet(m.clone)
            check(type(c) is cls and c is not m, f"clone type {mtype}")
            check(c.parent is None and c.in_links == [] and c.out_links == [], f"clone detached {mtype}")
            check(c.controller_values == m.controller_values, f"clone values {mtype} v{variant}")
            check(c.option_values == m.option_values, f"clone options {mtype}")
    # unset (None) controller values are written as 0
    amp = MODULE_CLASSES["Amplifier"]()
    amp.controller_values["volume"] = None
    check(amp.get_raw("volume") == 0, "None value is raw 0")
    amp.controller_values["balance"] = None
    check(amp.get_raw("balance") == 128, "None value in negative range")
    raises(KeyError, lambda: amp.get_raw("nope"), "get_raw unknown name")
    raises(KeyError, lambda: amp.set_raw("nope", 1), "set_raw unknown name")
    raises(RuntimeError, lambda: Module().clone(), "base module cannot be cloned")


def check_range_errors():
    amp_cls = MODULE_CLASSES["Amplifier"]
    # raise mode
    for name, raw, shown in (("volume", 1025, 1025), ("volume", -1, -1), ("balance", 257, 129), ("balance", -1, -129)):
        m = amp_cls()
        m.index = 0x1F
        before = m.controller_values[name]
        try:
            m.set_raw(name, raw)
            check(False, f"set_raw {name}={raw} should raise")
        except ControllerValueError as e:
            t = m.controllers[name].value_type
            check(
                e.args == (f"1f(Amplifier).{name}={shown} is not within [{t.min}, {t.max}]",),
                f"error text {name} {raw}: {e.args}",
            )
            check(isinstance(e, ValueError), "ControllerValueError is a ValueError")
            check(type(e.__cause__).__name__ == "RangeValidationError", "cause kept")
            check(e.__cause__.args == (shown, t.min, t.max), "cause args")
        check(m.controller_values[name] == before, f"value kept after raise {name}")
    m = amp_cls()
    try:
        m.set_raw("volume", 5000)
    except ControllerValueError as e:
        check(e.args[0].startswith("0(Amplifier).volume=5000"), "index None shown as 0")
    # warn mode: value is stored anyway
    with rv.errors.override_raise_controller_value_errors(False):
        m = amp_cls()
        m.set_raw("volume", 5000)
        check(m.controller_values["volume"] == 5000, "warn mode stores raw volume")
        m.set_raw("balance", 1000)
        check(m.controller_values["balance"] == 872, "warn mode stores shifted balance")
    check(rv.errors.RAISE_CONTROLLER_VALUE_ERRORS is True, "flag restored")
    # reading a file never raises for out-of-range values
    data = iff(
        (b"SSYN", b""),
        (b"VERS", bytes([1, 2, 1, 2])),
        (b"SFFF", P("<I", 0x51)),
        (b"SNAM", b"a".ljust(32, b"\0")),
        (b"STYP", b"Amplifier\0"),
        (b"CVAL", P("<i", 99999)),
        (b"CVAL", P("<i", -5)),
        (b"SEND", b""),
    )
    m = read_sunvox_file(io.BytesIO(data)).module
    check(m.volume == 99999 and m.balance == -5 - 128, "out of range values loaded")
    check(rv.errors.RAISE_CONTROLLER_VALUE_ERRORS is True, "flag restored after read")
    # enum / bool controllers
    f = MODULE_CLASSES["Filter"]()
    members = list(type(f.type))
    f.set_raw("type", members[-1].value)
    check(f.type is members[-1], "enum set_raw")
    raises(ValueError, lambda: f.set_raw("type", 999), "bad enum raw")
    check(f.type is members[-1], "enum kept after bad raw")


def check_placeholder():
    for mtype, cls in MODULE_CLASSES.items():
        m = quiet(cls)
        got = list(Module.specialized_iff_chunks(m))
        if cls.options:
            check(got == list(m.options_chunks()), f"base specialised = options {mtype}")
            check(len(got) == 2 and got[0][0] == b"CHNM" and got[1][0] == b"CHDT", f"shape {mtype}")
        else:
            check(got == [(None, None)], f"placeholder {mtype}")
    # the placeholder never reaches the file
    m = MODULE_CLASSES["WaveShaper"]()
    m.flags = m.default_flags
    names = []
    data = Synth(m).read()
    pos = 0
    while pos < len(data):
        names.append(data[pos : pos + 4])
        (size,) = struct.unpack("<I", data[pos + 4 : pos + 8])
        pos += 8 + size
    check(names[-5:] == [b"CMID", b"CHNK", b"CHNM", b"CHDT", b"SEND"], f"file tail {names[-5:]}")


# --------------------------------------------------------------------------
# CVAL application
# --------------------------------------------------------------------------


def module_stream(mtype, cvals, extra=()):
    return iff(
        (b"SSYN", b""),
        (b"VERS", bytes([1, 2, 1, 2])),
        (b"SFFF", P("<I", 0x51)),
        (b"SNAM", b"m".ljust(32, b"\0")),
        (b"STYP", mtype.encode() + b"\0"),
        *[(b"CVAL", P("<i", v)) for v in cvals],
        *extra,
        (b"SEND", b""),
    )


def check_cval_application():
    cls = MODULE_CLASSES["Delay"]
    names = list(cls.controllers)
    defaults = quiet(cls)
    unit_enum = type(defaults.delay_unit)
    # every unit with the top of its dependent range
    for unit in unit_enum:
        m = quiet(cls)
        m.flags = m.default_flags
        m.delay_unit = unit
        t = m.controllers["delay_l"].instance_value_type(m)
        m.delay_l = t.max
        m.delay_r = t.min
        c = quiet(m.clone)
        check(
            (c.delay_unit, c.delay_l, c.delay_r) == (unit, t.max, t.min),
            f"delay dependent range {unit}",
        )
        check(set(names) <= c.controllers_loaded, f"delay loaded set {unit}")
    # fewer CVALs than controllers: the rest keep defaults
    raws = [defaults.get_raw(n) for n in names]
    for count in (0, 1, 3, len(names)):
        vals = [r + 1 if n in ("dry", "wet") else r for n, r in zip(names, raws)][:count]
        m = read_sunvox_file(io.BytesIO(module_stream("Delay", vals))).module
        for i, n in enumerate(names):
            want = defaults.controller_values[n]
            if i < count and n in ("dry", "wet"):
                want += 1
            check(m.controller_values[n] == want, f"partial CVALs {count} {n}")
    # more CVALs than controllers: surplus is ignored
    vals = raws + [123456, -1]
    m = read_sunvox_file(io.BytesIO(module_stream("Delay", vals))).module
    check(m.controller_values == defaults.controller_values, "surplus CVALs ignored")
    # a module type without controllers ignores all of them
    m = read_sunvox_file(io.BytesIO(module_stream("Amplifier", [1] * 40))).module
    check(m.volume == 1 and len(m.controller_values) == len(m.controllers), "40 CVALs on amplifier")
    # order of application is last to first
    order = []
    orig = cls.set_raw

    def spy(self, name, raw):
        order.append(name)
        return orig(self, name, raw)

    cls.set_raw = spy
    try:
        read_sunvox_file(io.BytesIO(module_stream("Delay", raws + [7])))
    finally:
        cls.set_raw = orig
    check(order == list(reversed(names)), "CVALs applied last to first")
    # pending chunk is loaded before finalize; chunk records reach load_chunk once
    seen = []
    ws = MODULE_CLASSES["WaveShaper"]
    orig_lc = ws.load_chunk

    def spy_lc(self, chunk):
        seen.append(chunk.chnm)
        return orig_lc(self, chunk)

    ws.load_chunk = spy_lc
    try:
        extra = (
            (b"CHNK", P("<I", 1)),
            (b"CHNM", P("<I", 0)),
            (b"CHDT", P("<256H", *range(256))),
            (b"CHNM", P("<I", 9)),
            (b"CHDT", b"x"),
        )
        m = read_sunvox_file(io.BytesIO(module_stream("WaveShaper", [], extra))).module
    finally:
        ws.load_chunk = orig_lc
    check(seen == [0, 9], f"load_chunk calls {seen}")
    check(m.curve.values == list(range(256)), "curve from stream")


# --------------------------------------------------------------------------
# type specific chunks
# --------------------------------------------------------------------------


def special(m):
    return list(m.specialized_iff_chunks())


def snapshot_arrays(m, attrs):
    return {a: list(getattr(m, a).values) for a in attrs}


def check_multisynth():
    cls = MODULE_CLASSES["MultiSynth"]
    m = cls()
    nv = bytes(range(128))
    vv = bytes(255 - (i % 256) for i in range(257))
    np_ = P("<128H", *[65535 - i for i in range(128)])
    attrs = ("nv_curve", "vv_curve", "np_curve")
    for chnm, attr, data, want in (
        (0, "nv_curve", nv, list(nv)),
        (2, "vv_curve", vv, list(vv)),
        (3, "np_curve", np_, [65535 - i for i in range(128)]),
    ):
        fresh = cls()
        before = snapshot_arrays(fresh, attrs)
        fresh.load_chunk(record(chnm, data))
        after = snapshot_arrays(fresh, attrs)
        check(after[attr] == want, f"multisynth chnm {chnm}")
        for other in attrs:
            if other != attr:
                check(after[other] == before[other], f"multisynth chnm {chnm} leaves {other}")
    for foreign in (4, 5, 99, 2**32 - 1, None):
        fresh = cls()
        before = (snapshot_arrays(fresh, attrs), dict(fresh.option_values))
        fresh.load_chunk(record(foreign, b"\xff" * 300))
        check((snapshot_arrays(fresh, attrs), dict(fresh.option_values)) == before, f"multisynth foreign {foreign}")
    # options chunk (number 1) only touches options
    fresh = cls()
    before = snapshot_arrays(fresh, attrs)
    fresh.load_chunk(record(1, b"\xff" * 8))
    check(snapshot_arrays(fresh, attrs) == before, "multisynth options leave curves")
    check(all(bool(v) for v in fresh.option_values.values()), "multisynth options all set")

    # options_chnm wins over a curve with the same number
    class Odd(cls):
        mtype = None
        options_chnm = 0

    odd = Odd()
    before = snapshot_arrays(odd, attrs)
    odd.load_chunk(record(0, b"\x00" * 8))
    check(snapshot_arrays(odd, attrs) == before, "options number has priority")
    check(not any(odd.option_values.values()), "options loaded for number 0")
    # written order and the optional note->pitch curve
    m = cls()
    chnms = [struct.unpack("<I", d)[0] for n, d in special(m) if n == b"CHNM"]
    check(chnms == [0, 1, 2], f"multisynth default chunk numbers {chnms}")
    m.np_curve.values[5] += 1
    chnms = [struct.unpack("<I", d)[0] for n, d in special(m) if n == b"CHNM"]
    check(chnms == [0, 1, 2, 3], "multisynth edited pitch curve is written")
    m.np_curve.values[5] -= 1
    chnms = [struct.unpack("<I", d)[0] for n, d in special(m) if n == b"CHNM"]
    check(chnms == [0, 1, 2], "restored pitch curve is not written")
    got = special(m)
    check(got[1] == (b"CHDT", bytes([255] * 128)), "nv default data")
    check(got[4] == (b"CHNM", P("<I", 2)) and len(got[5][1]) == 257, "vv chunk")
    check(got[5][1] == bytes(m.vv_curve.values), "vv default data")
    # load error leaves the other curves alone
    fresh = cls()
    raises(TypeError, lambda: fresh.load_chunk(record(0, None)), "multisynth None data")


def check_multictl():
    cls = MODULE_CLASSES["MultiCtl"]
    rows = [(i, 32768 - i, i % 7, i & 1, 1, 2, 3, 4) for i in range(16)]
    m = cls(mappings=rows[:5], curve=[(i * 128) % 32769 for i in range(257)])
    got = special(m)
    check([n for n, _ in got] == [b"CHNM", b"CHDT", b"CHNM", b"CHDT", None], "multictl chunk names")
    check(got[0][1] == P("<I", 0) and got[2][1] == P("<I", 1), "multictl chunk numbers")
    want_rows = rows[:5] + [(0, 0x8000, 0, 0, 0, 0, 0, 0)] * 11
    check(got[1][1] == b"".join(P("<8I", *r) for r in want_rows), "multictl mapping data")
    check(got[3][1] == P("<257H", *[(i * 128) % 32769 for i in range(257)]), "multictl curve data")
    flat = m.mappings.encoded_values
    check(flat == [v for r in want_rows for v in r] and type(flat) is list, "encoded_values flat list")
    # objects that merely look like mappings are encoded too
    m.mappings.values[0] = SimpleNamespace(
        min=9, max=8, controller=7, flags=6, future_use2=5, future_use3=4, future_use4=3, future_use5=2
    )
    check(m.mappings.encoded_values[:8] == [9, 8, 7, 6, 5, 4, 3, 2], "duck-typed mapping")
    m.mappings.values[0] = object()
    raises(AttributeError, lambda: m.mappings.encoded_values, "non mapping")
    raises(ValueError, lambda: MultiCtl.Mapping((1, 2, 3)), "short mapping tuple")
    mp = MultiCtl.Mapping(tuple(range(10)))
    check((mp.min, mp.future_use5) == (0, 7), "long mapping tuple truncated")
    # load
    for foreign in (2, 3, 2**32 - 1, None):
        fresh = cls()
        b = (fresh.mappings.bytes, list(fresh.curve.values))
        fresh.load_chunk(record(foreign, b"\x01" * 600))
        check((fresh.mappings.bytes, list(fresh.curve.values)) == b, f"multictl foreign {foreign}")
    fresh = cls()
    curve_before = list(fresh.curve.values)
    fresh.load_chunk(record(0, b"".join(P("<8I", *r) for r in rows)))
    check(fresh.mappings.encoded_values == [v for r in rows for v in r], "multictl load mappings")
    check(fresh.curve.values == curve_before, "mappings chunk leaves curve")
    maps_before = fresh.mappings.bytes
    fresh.load_chunk(record(1, P("<257H", *range(257))))
    check(fresh.curve.values == list(range(257)), "multictl load curve")
    check(fresh.mappings.bytes == maps_before, "curve chunk leaves mappings")
    c = quiet(m.__class__(mappings=rows, curve=list(range(257)), gain=300).clone)
    check(c.mappings.encoded_values == [v for r in rows for v in r], "multictl clone mappings")
    check(c.curve.values == list(range(257)) and c.gain == 300, "multictl clone curve")


def check_spectravoice():
    cls = MODULE_CLASSES["SpectraVoice"]
    HT = SpectraVoice.HarmonicType
    arrays = ("harmonic_freqs", "harmonic_volumes", "harmonic_widths", "harmonic_types")
    m = cls()
    chnms = [struct.unpack("<I", d)[0] for n, d in special(m) if n == b"CHNM"]
    check(chnms == [0, 1, 2, 3], "spectravoice chunk numbers")
    check(special(m)[-1] == (None, None), "spectravoice placeholder last")
    freqs = [(i * 2000) % 32769 for i in range(16)]
    vols = [255 - i for i in range(16)]
    widths = [i * 3 for i in range(16)]
    types = [list(HT)[i % len(HT)] for i in range(16)]
    loads = (
        (0, P("<16H", *freqs), "freq_hz", freqs),
        (1, bytes(vols), "volume", vols),
        (2, bytes(widths), "width", widths),
        (3, bytes(t.value for t in types), "type", types),
    )
    for chnm, data, attr, want in loads:
        fresh = cls()
        before = {a: list(getattr(fresh, a).values) for a in arrays}
        hbefore = [(h.freq_hz, h.volume, h.width, h.type) for h in fresh.harmonics]
        fresh.load_chunk(record(chnm, data))
        check([getattr(h, attr) for h in fresh.harmonics] == want, f"harmonic {attr}")
        check(getattr(fresh, arrays[chnm]).values == want, f"array {arrays[chnm]}")
        for i, a in enumerate(arrays):
            if i != chnm:
                check(getattr(fresh, a).values == before[a], f"chnm {chnm} leaves {a}")
        other = [k for k in range(4) if k != chnm]
        hafter = [(h.freq_hz, h.volume, h.width, h.type) for h in fresh.harmonics]
        check(
            all(ha[k] == hb[k] for ha, hb in zip(hafter, hbefore) for k in other),
            f"chnm {chnm} leaves other harmonic fields",
        )
    # short data: only the harmonics covered are refreshed
    fresh = cls()
    fresh.load_chunk(record(1, bytes([9, 8, 7])))
    check(fresh.harmonic_volumes.values == [9, 8, 7], "short volumes array")
    check([h.volume for h in fresh.harmonics] == [9, 8, 7] + [0] * 13, "short volumes harmonics")
    # bad harmonic type: error, harmonics untouched
    fresh = cls()
    raises(ValueError, lambda: fresh.load_chunk(record(3, bytes([1, 200]))), "bad harmonic type")
    check(all(h.type is HT.hsin for h in fresh.harmonics), "harmonics untouched after bad type")
    for foreign in (4, 5, 2**32 - 1, None):
        fresh = cls()
        before = {a: list(getattr(fresh, a).values) for a in arrays}
        fresh.load_chunk(record(foreign, bytes(32)))
        check({a: list(getattr(fresh, a).values) for a in arrays} == before, f"spectravoice foreign {foreign}")
    full = cls(harmonics=[(f, v, w, t) for f, v, w, t in zip(freqs, vols, widths, types)])
    full.flags = full.default_flags
    c = quiet(full.clone)
    check(
        [(h.freq_hz, h.volume, h.width, h.type) for h in c.harmonics]
        == list(zip(freqs, vols, widths, types)),
        "spectravoice clone harmonics",
    )


def check_single_chunk_types():
    # FMX custom waveform
    cls = MODULE_CLASSES["FMX"]
    wave = [((i * 7) % 256 - 128) / 128 for i in range(256)]
    m = cls(custom_waveform_values=list(wave))
    got = special(m)
    check(got == [(b"CHNM", P("<I", 0)), (b"CHDT", P("<256f", *wave)), (None, None)], "fmx chunks")
    fresh = cls()
    fresh.load_chunk(record(0, got[1][1]))
    check(fresh.custom_waveform.values == list(struct.unpack("<256f", got[1][1])), "fmx load")
    for foreign in (1, 2, None, 2**32 - 1):
        fresh = cls()
        fresh.load_chunk(record(foreign, got[1][1]))
        check(fresh.custom_waveform.values == [0] * 256, f"fmx foreign {foreign}")
    # WaveShaper
    cls = MODULE_CLASSES["WaveShaper"]
    vals = [(i * 255) % 65536 for i in range(256)]
    m = cls(values=list(vals))
    got = special(m)
    check(got == [(b"CHNM", P("<I", 0)), (b"CHDT", P("<256H", *vals)), (None, None)], "waveshaper chunks")
    fresh = cls()
    default_curve = list(fresh.curve.values)
    fresh.load_chunk(record(0, got[1][1]))
    check(fresh.curve.values == vals, "waveshaper load")
    for foreign in (1, None, 77):
        fresh = cls()
        fresh.load_chunk(record(foreign, got[1][1]))
        check(fresh.curve.values == default_curve, f"waveshaper foreign {foreign}")
    # Vorbis player
    cls = MODULE_CLASSES["Vorbis player"]
    for data, want in ((None, b""), (b"", b""), (b"OggS" + bytes(range(256)), b"OggS" + bytes(range(256))), (bytearray(b"ab"), bytearray(b"ab"))):
        m = cls(data=data)
        got = special(m)
        check(got == [(b"CHNM", P("<I", 0)), (b"CHDT", want), (None, None)], f"vorbis chunks {data!r:.20}")
        if data is not None and data != b"":
            check(got[1][1] is data, "vorbis data passed through")
    m = cls()
    check(m.data is None, "vorbis default data")
    m.load_chunk(record(0, b"xyz"))
    check(m.data == b"xyz", "vorbis load")
    for foreign in (1, None, 3):
        m.load_chunk(record(foreign, b"other"))
        check(m.data == b"xyz", f"vorbis foreign {foreign}")
    m.flags = m.default_flags
    check(quiet(m.clone).data == b"xyz", "vorbis clone")
    empty = cls()
    empty.flags = empty.default_flags
    check(quiet(empty.clone).data == b"", "vorbis clone of empty player")
    # the data is looked up when the CHDT chunk is produced
    m = cls(data=b"first")
    it = m.specialized_iff_chunks()
    next(it)
    m.data = b"second"
    check(next(it) == (b"CHDT", b"second"), "vorbis data read lazily")
    # Generator / Analog generator
    for mtype in ("Generator", "Analog generator"):
        cls = MODULE_CLASSES[mtype]
        raw = bytes(range(0, 256, 8))
        want = [b - 256 if b > 127 else b for b in raw]
        fresh = quiet(cls)
        fresh.load_chunk(record(0, raw, chff=0, chfr=22050))
        w = fresh.drawn_waveform
        check(w.samples == want, f"{mtype} waveform load")
        check(w.format is w.Format.mono_8bit and w.freq == 22050, f"{mtype} waveform format/freq")
        for chff, member in ((None, 1), (1, 1), (2, 2), (0x0A, 0x0A)):
            fresh = quiet(cls)
            fresh.load_drawn_waveform(record(0, raw, chff=chff))
            check(fresh.drawn_waveform.format is w.Format(member), f"{mtype} chff {chff}")
        fresh = quiet(cls)
        raises(ValueError, lambda: fresh.load_drawn_waveform(record(0, b"\x01", chff=3)), f"{mtype} bad chff")
        check(fresh.drawn_waveform.samples == [1], f"{mtype} samples assigned before format")
        for foreign in (2, 5, None):
            fresh = quiet(cls)
            fresh.load_chunk(record(foreign, raw))
            check(fresh.drawn_waveform.is_default, f"{mtype} foreign {foreign}")
        fresh = quiet(cls)
        got = special(fresh)
        if cls.options:
            check(len(got) == 2, f"{mtype} default: options only")
        else:
            check(got == [(None, None)], f"{mtype} default: placeholder only")
        fresh.drawn_waveform.samples = list(want)
        got = special(fresh)
        check(got[:3] == [(b"CHNM", P("<I", 0)), (b"CHDT", raw), (b"CHFR", P("<I", 44100))], f"{mtype} waveform chunks")
    ag = MODULE_CLASSES["Analog generator"]
    fresh = ag()
    fresh.load_chunk(record(1, b"\xff" * 64))
    check(fresh.drawn_waveform.is_default, "analog options chunk leaves waveform")
    check(all(bool(v) for v in fresh.option_values.values()), "analog options loaded")


# --------------------------------------------------------------------------
# read_sunvox_file front door
# --------------------------------------------------------------------------


def check_read_front_door():
    m = MODULE_CLASSES["Amplifier"](volume=77)
    m.flags = m.default_flags
    data = Synth(m).read()
    with tempfile.TemporaryDirectory() as d:
        path = os.path.join(d, "a.sunsynth")
        with open(path, "wb") as f:
            f.write(data)
        for arg in (path, Path(path)):
            s = read_sunvox_file(arg)
            check(type(s) is Synth and s.module.volume == 77, f"read {type(arg).__name__}")
        with open(path, "rb") as f:
            s = read_sunvox_file(f)
            check(s.module.volume == 77, "read open file")
            check(not f.closed, "caller's file stays open")
        bio = io.BytesIO(data)
        read_sunvox_file(bio)
        check(not bio.closed, "BytesIO stays open")
        raises(FileNotFoundError, lambda: read_sunvox_file(os.path.join(d, "missing")), "missing file")
        check(rv.errors.RAISE_CONTROLLER_VALUE_ERRORS is True, "flag restored after missing file")
        bad = os.path.join(d, "bad.sunsynth")
        with open(bad, "wb") as f:
            f.write(iff((b"SSYN", b""), (b"VERS", b"\x01")))
        raises(struct.error, lambda: read_sunvox_file(bad), "bad file")
        check(rv.errors.RAISE_CONTROLLER_VALUE_ERRORS is True, "flag restored after bad file")
        os.remove(bad)  # would fail on some systems if the handle leaked
    p = Project()
    p.attach_module(m)
    p2 = read_sunvox_file(io.BytesIO(p.read()))
    check(type(p2) is Project and p2.modules[1].volume == 77, "project via same door")


# --------------------------------------------------------------------------
# whole-file round trips for every module type
# --------------------------------------------------------------------------


def candidate_values(module, name):
    ctl = module.controllers[name]
    t = ctl.instance_value_type(module)
    if t is None:
        return []
    if isinstance(t, Range):
        lo, hi = t.min, t.max
        return [lo, hi, (lo + hi) // 2, min(hi, lo + 1)]
    if t is bool:
        return [False, True, True, False]
    if isinstance(t, type) and issubclass(t, Enum):
        members = list(t)
        return [members[0], members[-1], members[len(members) // 2], members[0]]
    return []


def configure(module, variant):
    for name in module.controllers:
        if name.startswith("user_defined_"):
            continue
        values = candidate_values(module, name)
        if values:
            setattr(module, name, values[variant])


def state(m):
    s = {
        "type": type(m).__name__,
        "mtype": m.mtype,
        "name": m.name,
        "flags": m.flags,
        "cv": {
            k: (v.value if isinstance(v, Enum) else v)
            for k, v in m.controller_values.items()
        },
        "opt": dict(m.option_values),
        "cmid": {k: m.controller_midi_maps[k].cmid_data for k in m.controllers},
        "common": (
            m.mod_finetune,
            m.mod_relative_note,
            m.mod_scale,
            tuple(m.color),
            m.midi_in_always,
            m.midi_in_channel,
            m.midi_out_name,
            m.midi_out_channel,
            m.midi_out_bank,
            m.midi_out_program,
        ),
        "special": b"".join(
            (n or b"-") + (d or b"-") for n, d in m.specialized_iff_chunks()
        )
        if m.chnk
        else b"",
    }
    return s


def check_round_trips():
    digest = hashlib.sha256()
    for mtype, cls in MODULE_CLASSES.items():
        if mtype == "Output":
            continue
        for variant in range(4):
            m = quiet(cls, name=f"{mtype} v{variant}", color=(variant, 2, 3))
            m.mod_finetune = -variant
            m.mod_relative_note = variant * 3
            m.flags = m.default_flags
            configure(m, variant)
            if mtype == "Generator" and variant:
                m.drawn_waveform.samples = [(-1) ** i * (i * 4 % 128) for i in range(32)]
            if mtype == "Analog generator" and variant:
                m.drawn_waveform.samples = [127 - i * 8 for i in range(32)]
            if mtype == "WaveShaper":
                m.curve.values = [(i * 257 * (variant + 1)) % 65536 for i in range(256)]
            if mtype == "FMX":
                m.custom_waveform.values = [((i * variant) % 256 - 128) / 128 for i in range(256)]
            if mtype == "MultiSynth":
                m.nv_curve.values = [(i * (variant + 1)) % 256 for i in range(128)]
                m.vv_curve.values = [255 - (i % 256) for i in range(257)]
                if variant:
                    m.np_curve.values = [65535 - i * variant for i in range(128)]
            if mtype == "MultiCtl":
                m.curve.values = [(i * 128 + variant) % 32769 for i in range(257)]
                m.mappings.values[variant] = MultiCtl.Mapping((1, 2, 3, 1, 0, 0, 0, 9))
            if mtype == "SpectraVoice":
                for i, h in enumerate(m.harmonics):
                    h.freq_hz = (i * 1000 + variant) % 32769
                    h.volume = (i * 16 + variant) % 256
                    h.width = 255 - i
                    h.type = list(SpectraVoice.HarmonicType)[(i + variant) % len(SpectraVoice.HarmonicType)]
            if mtype == "Vorbis player":
                m.data = bytes(range(256)) * variant
            first = list(m.controllers)[0] if m.controllers else None
            if first and not first.startswith("user_defined"):
                mm = m.controller_midi_maps[first]
                mm.channel = variant
                mm.message_parameter = 1000 + variant
                from rv.cmidmap import MidiMessageType, Slope

                mm.message_type = list(MidiMessageType)[variant + 1]
                mm.slope = list(Slope)[variant]
            data = Synth(m).read()
            digest.update(data)
            clone = m.clone()
            check(type(clone) is cls, f"clone type {mtype}")
            check(state(clone) == state(m), f"clone state {mtype} v{variant}")
            check(Synth(clone).read() == data, f"clone bytes {mtype} v{variant}")
            loaded = read_sunvox_file(io.BytesIO(data)).module
            check(state(loaded) == state(m), f"loaded state {mtype} v{variant}")
            # inside a project
            p = Project()
            p.attach_module(m)
            pdata = p.read()
            digest.update(pdata)
            p2 = read_sunvox_file(io.BytesIO(pdata))
            m2 = p2.modules[1]
            check(type(m2) is cls, f"project type {mtype}")
            check(state(m2) == state(m), f"project state {mtype} v{variant}")
            check((m2.x, m2.y, m2.layer) == (m.x, m.y, m.layer), f"project xy {mtype}")
            check(p2.read() == pdata, f"project bytes {mtype} v{variant}")
    raises(EmptySynthError, lambda: Synth().read(), "empty synth")
    raises(EmptySynthError, lambda: Synth(None).write_to(io.BytesIO()), "empty synth write")
    return digest.hexdigest()



EXPECTED_DIGEST = "663bbd3dbf85f5066ce51109b459202af2a1acc09b435a73f2a657a369c33878"


def main():
    check_raw_values()
    check_range_errors()
    check_placeholder()
    check_cval_application()
    check_multisynth()
    check_multictl()
    check_spectravoice()
    check_single_chunk_types()
    check_read_front_door()
    digest = check_round_trips()
    if "--digest" in sys.argv:
        print(digest)
    check(digest == EXPECTED_DIGEST, f"serialized bytes digest {digest}")
    if FAILURES:
        print(f"FAIL ({len(FAILURES)} problems)")
        sys.exit(1)
    print("PASS")


if __name__ == "__main__":
    main()
