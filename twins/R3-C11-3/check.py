"""Behaviour check for refactoring C11-3 (Option descriptor + codegen template).

Part A drives Option.__get__/__set__ through real module classes and through
hand-built ones with a recording instance: stored values, clamping, bool
coercion, inversion, mutual exclusion and the exact sequence of callbacks.
Part B renders the code generator template for every module type in
specs/fileformat.yaml and requires the result to be byte-identical to the
generated base classes checked into the repository, and cross-checks the
declared Option attributes against the spec.
Run from the repository root. Passes on the unchanged tree and with the patch.
"""
import sys
import tempfile
from enum import IntEnum
from pathlib import Path

import yaml

from rv.api import m
from rv.modules.module import Module
from rv.option import Option

failures = []


def check(cond, msg):
    if not cond:
        failures.append(msg)
        if len(failures) < 30:
            print("FAIL:", msg)


def same(a, b):
    return a == b and type(a) is type(b)


# ------------------------------------------------------------------ part A
CLASSES = [m.AnalogGenerator, m.MetaModule, m.MultiSynth, m.Sampler, m.Sound2Ctl]


def ref_store(o, value):
    if o.min is not None and o.max is not None:
        # ties resolve to the declared bound (its type included)
        capped = value if value < o.max else o.max
        return capped if capped > o.min else o.min
    if o.size == 1:
        return (not value) if o.inverted else bool(value)
    return value


for cls in CLASSES:
    name = cls.__name__
    for oname, o in cls.options.items():
        check(oname == o.name, f"{name}.{oname}: key/name")
        check(getattr(cls, oname) is o, f"{name}.{oname}: class access gives descriptor")
        # defaults go through the descriptor at construction
        mod = cls()
        check(same(mod.option_values[oname], ref_store(o, o.default)), f"{name}.{oname} dflt")
        # constructor keyword: options are assigned in declaration order, each
        # assignment (defaults included) clearing the options it excludes
        for v in range(2**o.size):
            mod = cls(**{oname: v})
            model = {}
            for k, ko in cls.options.items():
                model[k] = ref_store(ko, v if k == oname else ko.default)
                for other in ko.exclusive_of:
                    model[other] = False
            check(mod.option_values == model, f"{name}({oname}={v}): {mod.option_values}")
            check(list(mod.option_values) == list(model), f"{name}({oname}={v}): key order")
        # every representable value, plus truthy/falsy non-ints for flags
        values = list(range(2**o.size)) + [True, False]
        if o.size == 1:
            values += ["", "x", None, [], [0], 2, -1, 0.0]
        for v in values:
            mod = cls()
            others = {k: x for k, x in mod.option_values.items() if k != oname}
            setattr(mod, oname, v)
            stored = mod.option_values[oname]
            check(same(stored, ref_store(o, v)), f"{name}.{oname}={v!r}: stored {stored!r}")
            got = getattr(mod, oname)
            check(same(got, (not stored) if o.inverted else stored), f"{name}.{oname}={v!r}: get")
            if o.size == 1 and not (o.min is not None and o.max is not None):
                check(got is bool(v), f"{name}.{oname}={v!r}: logical view")
            for k, x in others.items():
                if k in o.exclusive_of:
                    check(mod.option_values[k] is False, f"{name}.{oname}: excl {k}")
                else:
                    check(same(mod.option_values[k], x), f"{name}.{oname}={v!r}: touched {k}")

    # mutually exclusive options never end up both on, in any order of writes
    for o in cls.options.values():
        for other in o.exclusive_of:
            check(o.name in cls.options[other].exclusive_of, f"{name}: symmetric {o.name}")
            for seq in ([o.name, other], [other, o.name], [o.name, other, o.name]):
                mod = cls()
                for k in seq:
                    setattr(mod, k, True)
                check(
                    not (getattr(mod, o.name) and getattr(mod, other)),
                    f"{name}: both on after {seq}",
                )
                check(getattr(mod, seq[-1]) is True, f"{name}: last write wins {seq}")
            # switching one *off* still clears the other (long-standing behaviour)
            mod = cls()
            setattr(mod, other, True)
            setattr(mod, o.name, False)
            check(getattr(mod, other) is False, f"{name}: off clears {other}")

# declared bounds
udc = m.MetaModule.options["user_defined_controllers"]
check((udc.min, udc.max, udc.size) == (0, 96, 8), "MetaModule bound declared")
mm = m.MetaModule()
for v, want in ((-1000, 0), (-1, 0), (0, 0), (1, 1), (50, 50), (95, 95), (96, 96), (97, 96), (255, 96), (10**9, 96)):
    mm.user_defined_controllers = v
    check(same(mm.user_defined_controllers, want), f"clamp {v}")
    attached = sum(1 for c in mm.user_defined if c.attached(mm))
    check(attached == want, f"clamp {v}: callback ran, {attached} attached")
mm.user_defined_controllers = True
check(mm.option_values["user_defined_controllers"] is True, "bounded option: no bool coercion path")
mm.user_defined_controllers = False
check(same(mm.option_values["user_defined_controllers"], 0), "tie at min gives the declared min")
mm.user_defined_controllers = 33
try:
    mm.user_defined_controllers = "many"
    check(False, "str into bounded option: no error")
except TypeError:
    pass
check(same(mm.option_values["user_defined_controllers"], 33), "failed set leaves value")

# hand-built options on a recording instance
class Mode(IntEnum):
    a = 0
    b = 1
    c = 2


class Rec:
    plain = Option(name="plain", byte=0, bit=0, size=1, default=False)
    inv = Option(name="inv", byte=0, bit=1, size=1, default=True, inverted=True)
    wide = Option(name="wide", byte=1, bit=0, size=4, default=0)
    wide_inv = Option(name="wide_inv", byte=1, bit=4, size=2, default=0, inverted=True)
    ranged = Option(name="ranged", byte=2, bit=0, size=8, default=0, min=-3, max=40)
    bit_ranged = Option(name="bit_ranged", byte=3, bit=0, size=1, default=0, min=0, max=1, inverted=True)
    half_lo = Option(name="half_lo", byte=4, bit=0, size=8, default=0, min=5)
    half_hi = Option(name="half_hi", byte=5, bit=0, size=8, default=0, max=5)
    half_bit = Option(name="half_bit", byte=6, bit=0, size=1, default=0, max=0, inverted=True)
    mode = Option(name="mode", byte=7, bit=0, size=2, default=Mode.a)
    x = Option(name="x", byte=8, bit=0, size=1, default=False, exclusive_of=["y", "z"])
    y = Option(name="y", byte=8, bit=1, size=1, default=False, exclusive_of=["x"])
    z = Option(name="z", byte=8, bit=2, size=1, default=False, exclusive_of=["x"])
    quiet = Option(name="quiet", byte=9, bit=0, size=1, default=False, exclusive_of=["silent"])
    silent = Option(name="silent", byte=9, bit=1, size=1, default=False)
    boom = Option(name="boom", byte=10, bit=0, size=1, default=False, exclusive_of=["plain"])

    on_silent_changed = "not callable"  # must be ignored

    def __init__(self):
        self.option_values = {}
        self.log = []

    def _rec(self, name, value):
        self.log.append((name, value, dict(self.option_values)))

    def on_plain_changed(self, v):
        self._rec("plain", v)

    def on_inv_changed(self, v):
        self._rec("inv", v)

    def on_x_changed(self, v):
        self._rec("x", v)

    def on_y_changed(self, v):
        self._rec("y", v)

    def on_z_changed(self, v):
        self._rec("z", v)

    def on_quiet_changed(self, v):
        self._rec("quiet", v)

    def on_boom_changed(self, v):
        self._rec("boom", v)
        raise RuntimeError("boom")


check(Rec.plain is Rec.__dict__["plain"], "class access")
r = Rec()
try:
    r.plain
    check(False, "unset option: no KeyError")
except KeyError:
    pass

r.plain = 5
check(r.option_values == {"plain": True} and r.plain is True, "plain truthy")
check(r.log == [("plain", True, {"plain": True})], "plain callback gets stored value, after store")
r.plain = ""
check(r.plain is False, "plain falsy")

r.log.clear()
r.inv = True
check(r.option_values["inv"] is False and r.inv is True, "inverted on")
check(r.log == [("inv", False, {"plain": False, "inv": False})], "inverted callback sees stored form")
r.inv = 0
check(r.option_values["inv"] is True and r.inv is False, "inverted off")

r.wide = 11
check(same(r.wide, 11), "wide int")
r.wide = 99
check(same(r.wide, 99), "wide: no masking at assignment")
r.wide = True
check(r.option_values["wide"] is True, "wide: stored as given")
r.wide_inv = 2
check(same(r.option_values["wide_inv"], 2) and r.wide_inv is False, "wide inverted: raw store, negated read")
r.wide_inv = 0
check(r.wide_inv is True, "wide inverted zero")

for v, want in ((-10, -3), (-3, -3), (-2, -2), (0, 0), (40, 40), (41, 40), (7.5, 7.5),
                (40.0, 40), (-3.0, -3), (39.5, 39.5), (1e30, 40), (float("-inf"), -3)):
    r.ranged = v
    check(same(r.ranged, want), f"ranged {v}")
for v, want_stored in ((0, 0), (1, 1), (5, 1), (-5, 0), (True, 1), (False, 0)):
    r.bit_ranged = v
    check(same(r.option_values["bit_ranged"], want_stored), f"bit_ranged {v}: clamp only")
    check(r.bit_ranged is (not want_stored), f"bit_ranged {v}: read negated")
# one-sided bounds do not clamp
r.half_lo = 1
r.half_hi = 200
check(same(r.half_lo, 1) and same(r.half_hi, 200), "one-sided bounds ignored")
r.half_bit = 7
check(r.option_values["half_bit"] is False and r.half_bit is True, "one-sided single bit: bool path")
r.mode = Mode.c
check(r.mode is Mode.c, "enum kept")

# exclusion: order of stores and callbacks
r = Rec()
r.y = True
r.z = True
r.log.clear()
r.x = True
names = [(n, v) for n, v, _ in r.log]
check(names == [("x", True), ("y", False), ("z", False)], f"exclusive order {names}")
check(r.log[0][2] == {"y": True, "x": False, "z": True} or r.log[0][2] == {"y": True, "z": True, "x": True},
      "own callback runs before the others are cleared")
check(r.log[0][2]["x"] is True and r.log[0][2]["y"] is True and r.log[0][2]["z"] is True, "snapshot 0")
check(r.log[1][2]["y"] is False and r.log[1][2]["z"] is True, "snapshot 1")
check(r.log[2][2]["z"] is False, "snapshot 2")
check((r.x, r.y, r.z) == (True, False, False), "exclusive result")
r.log.clear()
r.y = 1
check([(n, v) for n, v, _ in r.log] == [("y", True), ("x", False)], "exclusive reverse")
check((r.x, r.y, r.z) == (False, True, False), "exclusive reverse result")
r.log.clear()
r.x = False
check([(n, v) for n, v, _ in r.log] == [("x", False), ("y", False), ("z", False)], "exclusive off")
check((r.x, r.y, r.z) == (False, False, False), "exclusive off result")

# non-callable hook ignored, missing hook fine
r = Rec()
r.silent = True
r.quiet = True
check(r.option_values == {"silent": False, "quiet": True}, "non-callable hook ignored")
check([(n, v) for n, v, _ in r.log] == [("quiet", True)], "only callable hooks run")

# a raising hook stops the cascade after the own value was stored
r = Rec()
r.plain = True
r.log.clear()
try:
    r.boom = True
    check(False, "raising hook: no error")
except RuntimeError:
    pass
check(r.option_values == {"plain": True, "boom": True}, "raising hook: excluded option untouched")
check([(n, v) for n, v, _ in r.log] == [("boom", True)], "raising hook: cascade stopped")


# a Module subclass picks the options up and routes kwargs through them
class Fake(Module):
    name = mtype = "C11 fake3"
    mgroup = "Misc"
    flags = default_flags = 0
    keep = Option(name="keep", byte=0, bit=0, size=1, default=True, inverted=True)
    level = Option(name="level", byte=1, bit=0, size=8, default=200, min=0, max=100)
    left = Option(name="left", byte=2, bit=0, size=1, default=True, exclusive_of=["right"])
    right = Option(name="right", byte=2, bit=1, size=1, default=True, exclusive_of=["left"])


fk = Fake()
check(fk.option_values == {"keep": False, "level": 100, "left": False, "right": True}, f"fake dflt {fk.option_values}")
check(list(fk.options_chunks())[1][1] == bytes([0, 100, 2]), "fake chunks")
fk = Fake(keep=False, level=-4, left=1, right=0)
check(fk.option_values == {"keep": True, "level": 0, "left": False, "right": False}, f"fake kw {fk.option_values}")


# ------------------------------------------------------------------ part B
def render_all(root, dest):
    import genrv
    from genrv.codegen.python.gen import PythonGenerator
    from genrv.tools.generate import enumname
    from jinja2 import Environment, FileSystemLoader, PrefixLoader

    genrv_path = Path(genrv.__file__).parent
    loader = PrefixLoader({"python": FileSystemLoader(genrv_path / "codegen" / "python")})
    env = Environment(loader=loader)
    env.filters.update(enumname=enumname, hex=hex, repr=repr)
    PythonGenerator(spec_base=root / "specs", dest_base=dest).run(env)


root = Path.cwd()
spec = yaml.safe_load((root / "specs" / "fileformat.yaml").read_text())
base_dir = root / "src" / "python" / "rv" / "modules" / "base"
check(base_dir.is_dir(), "run me from the repository root")

try:
    import black  # noqa: F401
    import isort  # noqa: F401
    import jinja2  # noqa: F401

    have_tools = True
except ImportError as e:  # pragma: no cover
    have_tools = False
    print("note: codegen tools unavailable, skipping render comparison:", e)

if have_tools:
    import contextlib
    import io

    with tempfile.TemporaryDirectory() as tmp:
        with contextlib.redirect_stdout(io.StringIO()):
            render_all(root, Path(tmp))
        produced = sorted((Path(tmp) / "modules" / "base").glob("*.py"))
        check(len(produced) == len(spec["module_types"]), "one file per module type")
        with_options = 0
        for p in produced:
            committed = base_dir / p.name
            check(committed.exists(), f"{p.name}: not in repository")
            if committed.exists():
                check(p.read_text() == committed.read_text(), f"{p.name}: generated text differs")
            with_options += " = Option(" in p.read_text()
        check(with_options == 5, f"{with_options} generated files declare options")

# the declared options agree with the spec, key by key
total = 0
for tname, t in spec["module_types"].items():
    cls = getattr(m, tname)
    declared = [(k, v) for item in t.get("options") or [] for k, v in item.items()]
    check(set(cls.options) == {k for k, _ in declared}, f"{tname}: option names")
    if declared:
        check(cls.options_chnm == t["options_chnm"], f"{tname}: chnm")
    for oname, ospec in declared:
        total += 1
        o = cls.options[oname]
        check((o.byte, o.bit, o.size) == (ospec["byte"], ospec["bit"], ospec["size"]), f"{tname}.{oname}: slot")
        check(o.number == (ospec.get("number") or None), f"{tname}.{oname}: number")
        bounded = "min" in ospec and "max" in ospec
        check((o.min, o.max) == ((ospec["min"], ospec["max"]) if bounded else (None, None)), f"{tname}.{oname}: bounds")
        check(o.inverted == (bool(ospec.get("inverted")) and not bounded), f"{tname}.{oname}: inverted")
        check(o.exclusive_of == (ospec.get("exclusive_of") or []), f"{tname}.{oname}: exclusive_of")
        if "enum" in ospec:
            check(o.default is getattr(getattr(cls, ospec["enum"]), ospec["default"]), f"{tname}.{oname}: enum default")
        else:
            check(same(o.default, ospec["default"]), f"{tname}.{oname}: default")
check(total == 49, f"{total} options in spec")

if failures:
    print(f"{len(failures)} failure(s)")
    sys.exit(1)
print("PASS")
