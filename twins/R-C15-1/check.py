"""Behaviour check for property C15 (MetaModule embedded project / user controllers).

Run from the repository root:
    PYTHONPATH=<root>/src/python python check.py

Exercises: attach-state recomputation for every count, value-type derivation from
the mappings, save/load of stand-alone and in-project MetaModules at several
nesting depths, the chunk loader, and change propagation in both directions.
Prints PASS and exits 0 when everything behaves as expected.
"""

import hashlib
import logging
import sys
from io import BytesIO
from pathlib import Path
from struct import pack

from rv.api import Project, Synth, m, read_sunvox_file
from rv.controller import Range
from rv.errors import EmptySynthError
from rv.lib.iff import chunks as iff_chunks
from rv.modules import Chunk
from rv.modules.metamodule import MAX_USER_DEFINED_CONTROLLERS, MetaModule, UserDefined
from rv.readers.module import ModuleReader

logging.basicConfig(level=logging.ERROR)

FAILURES = []


def check(cond, msg):
    if not cond:
        FAILURES.append(msg)
        print("FAIL:", msg)


def write(obj):
    f = BytesIO()
    obj.write_to(f)
    return f.getvalue()


def read(data):
    return read_sunvox_file(BytesIO(data))


def digest(data):
    return hashlib.sha256(data).hexdigest()[:16]


def raw_chunks(data):
    return list(iff_chunks(BytesIO(data)))


# ---------------------------------------------------------------- builders


# (module index, controller index) pairs covering ranges, negative ranges,
# enums and booleans, plus unusable mappings (module 0, out of range, bad ctl)
TARGETS = [
    (1, 0),  # AnalogGenerator.volume          Range 0..256
    (2, 1),  # Amplifier.balance               Range -128..128
    (3, 1),  # Distortion.type                 enum
    (1, 1),  # AnalogGenerator.waveform        enum
    (2, 5),  # Amplifier.absolute              bool
    (2, 2),  # Amplifier.dc_offset             Range -128..128
    (0, 0),  # unmapped
    (9, 0),  # module index out of range
    (3, 40),  # controller index out of range
    (4, 0),  # Lfo.volume
    (1, 3),  # AnalogGenerator.attack
]


def build_inner(depth=0):
    p = Project()
    p.name = f"inner-{depth}"
    p.initial_bpm = 100 + depth
    p.new_module(m.AnalogGenerator, volume=33 + depth, waveform="saw")
    p.new_module(m.Amplifier, balance=-7, dc_offset=-100, absolute=True)
    p.new_module(m.Distortion, type="foldback")
    p.new_module(m.Lfo)
    p.connect(p.modules[1], p.modules[2])
    p.connect(p.modules[2], p.output)
    return p


def build_metamodule(count, depth=0, label_indexes=(0, 2, 5, 95)):
    inner = build_inner(depth)
    if depth > 0:
        child = build_metamodule(max(count - 1, 0), depth - 1, label_indexes)
        inner.attach_module(child)
        inner.connect(child, inner.output)
    mm = m.MetaModule(project=inner)
    mm.name = f"MM d{depth} n{count}"
    mm.user_defined_controllers = count
    for i in range(MAX_USER_DEFINED_CONTROLLERS):
        mod, ctl = TARGETS[i % len(TARGETS)]
        mm.mappings.values[i].module = mod
        mm.mappings.values[i].controller = ctl
    for i in label_indexes:
        mm.user_defined[i].label = f"Lbl {i} é" if i % 2 else f"{i} label"
    mm.update_user_defined_controllers()
    mm.volume = 300
    mm.bpm = 222
    mm.play_patterns = "on_repeat"
    mm.arpeggiator = True
    return mm


def describe(mm, depth_limit=5):
    """A plain-data description of everything C15 talks about."""
    d = {
        "count": mm.user_defined_controllers,
        "attached": [c.attached(mm) for c in mm.user_defined],
        "proxy_attached": [
            mm.controllers[f"user_defined_{i + 1}"].attached(mm)
            for i in range(MAX_USER_DEFINED_CONTROLLERS)
        ],
        "labels": [c.label for c in mm.user_defined],
        "mappings": [(x.module, x.controller) for x in mm.mappings.values],
        "values": [
            repr(getattr(mm, f"user_defined_{i + 1}"))
            for i in range(MAX_USER_DEFINED_CONTROLLERS)
        ],
        "types": [repr(c.value_type) for c in mm.user_defined],
        "defaults": [repr(c.default) for c in mm.user_defined],
        "aliases": mm.user_defined_aliases,
        "fixed": (mm.volume, mm.input_module, mm.play_patterns, mm.bpm, mm.tpl),
        "options": dict(mm.option_values),
        "project_name": mm.project.name,
        "bpm": mm.project.initial_bpm,
        "modules": [
            None if x is None else (type(x).__name__, x.index, list(x.in_links))
            for x in mm.project.modules
        ],
        "module_values": [
            None if x is None else {k: repr(v) for k, v in x.controller_values.items()}
            for x in mm.project.modules
            if not isinstance(x, MetaModule)
        ],
    }
    if depth_limit:
        d["children"] = [
            describe(x, depth_limit - 1)
            for x in mm.project.modules
            if isinstance(x, MetaModule)
        ]
    return d


# ---------------------------------------------------------------- checks


def check_attachment_all_counts():
    mm = m.MetaModule()
    check(len(mm.user_defined) == 96, "96 per-instance controllers")
    check(all(isinstance(c, UserDefined) for c in mm.user_defined), "UserDefined type")
    check(not any(c.attached(mm) for c in mm.user_defined), "none attached initially")
    for n in list(range(0, 97)) + [50, 3, 96, 0, 1]:
        mm.user_defined_controllers = n
        got = [c.attached(mm) for c in mm.user_defined]
        check(got == [True] * n + [False] * (96 - n), f"attach state for n={n}")
        names = [k for k, c in mm.controllers.items() if c.attached(mm)]
        expect = ["volume", "input_module", "play_patterns", "bpm", "tpl"] + [
            f"user_defined_{i + 1}" for i in range(n)
        ]
        check(names == expect, f"exposed controller names for n={n}")
    # the setter clamps
    mm.user_defined_controllers = 500
    check(mm.user_defined_controllers == 96, "count clamps to 96")
    check(all(c.attached(mm) for c in mm.user_defined), "all attached at 96")
    mm.user_defined_controllers = -4
    check(mm.user_defined_controllers == 0, "count clamps to 0")
    check(not any(c.attached(mm) for c in mm.user_defined), "none attached at 0")
    # out-of-range stored option bytes (as load_options may produce)
    mm.option_values["user_defined_controllers"] = 200
    mm.recompute_controller_attachment()
    check(all(c.attached(mm) for c in mm.user_defined), "count 200 attaches all")
    mm.option_values["user_defined_controllers"] = -3
    mm.recompute_controller_attachment()
    check(not any(c.attached(mm) for c in mm.user_defined), "count -3 attaches none")
    mm.option_values["user_defined_controllers"] = True
    mm.recompute_controller_attachment()
    check(
        [c.attached(mm) for c in mm.user_defined] == [True] + [False] * 95,
        "count True attaches one",
    )
    mm.option_values["user_defined_controllers"] = 2.0
    try:
        mm.recompute_controller_attachment()
    except TypeError:
        pass
    else:
        check(False, "float count raises TypeError")
    # attach state is per instance
    a, b = m.MetaModule(), m.MetaModule()
    a.user_defined_controllers = 7
    check(sum(c.attached(b) for c in b.user_defined) == 0, "instances independent")
    check(sum(c.attached(a) for c in a.user_defined) == 7, "instance a has 7")


def check_value_type_derivation():
    mm = build_metamodule(11)
    t = [c.value_type for c in mm.user_defined]
    check(t[0] == Range(0, 256), "range target type")
    check(t[1] == Range(-128, 128), "negative range target type")
    check(t[2] is m.Distortion.Type, "enum target type")
    check(t[3] is m.AnalogGenerator.Waveform, "enum target type 2")
    check(t[4] is bool, "bool target type")
    check(t[6] == Range(0, 44100), "module 0 mapping leaves default type")
    check(t[7] == Range(0, 44100), "out-of-range module leaves default type")
    check(t[8] == Range(0, 44100), "out-of-range controller leaves default type")
    check(t[11] == Range(0, 44100), "index == count is not processed")
    check(mm.user_defined_1 == 33, "value copied from target")
    check(mm.user_defined_2 == -7, "negative value copied from target")
    check(mm.user_defined_3 == m.Distortion.Type.foldback, "enum value copied")
    check(mm.user_defined_4 == m.AnalogGenerator.Waveform.saw, "enum value copied 2")
    check(mm.user_defined_5 is True, "bool value copied")
    check(mm.user_defined_6 == -100, "negative value copied 2")
    check(mm.user_defined_7 == 0 and mm.user_defined_8 == 0, "unmapped stay 0")
    check(mm.user_defined[1].default == 0, "default copied")
    check(mm.user_defined[0].default == 80, "default copied 2")
    # a hole in the embedded module list is skipped
    mm2 = build_metamodule(3)
    mm2.project.modules[2] = None
    for c in mm2.user_defined:
        c.value_type = Range(0, 44100)
    mm2.update_user_defined_controllers()
    check(mm2.user_defined[1].value_type == Range(0, 44100), "None module skipped")
    check(mm2.user_defined[2].value_type is m.Distortion.Type, "after hole processed")
    # count 0: nothing derived
    mm3 = build_metamodule(0)
    check(
        all(c.value_type == Range(0, 44100) for c in mm3.user_defined),
        "count 0 derives nothing",
    )


EXPECTED_DIGESTS = {}


def check_roundtrip(count, depth, in_project):
    key = f"n{count}-d{depth}-{'proj' if in_project else 'synth'}"
    mm = build_metamodule(count, depth)
    before = describe(mm)
    if in_project:
        top = Project()
        top.attach_module(mm)
        top.connect(mm, top.output)
        data = write(top)
        loaded = read(data)
        mm2 = loaded.modules[1]
        check(isinstance(mm2, MetaModule), f"{key}: loaded a MetaModule")
    else:
        data = write(Synth(mm))
        loaded = read(data)
        mm2 = loaded.module
    after = describe(mm2)
    # labels on detached controllers are not written, so not expected back
    def visible(d):
        d = dict(d)
        d["labels"] = [
            lbl if i < d["count"] else None for i, lbl in enumerate(d["labels"])
        ]
        if "children" in d:
            d["children"] = [visible(c) for c in d["children"]]
        return d

    b, a = visible(before), after
    for k in b:
        check(b[k] == a[k], f"{key}: {k} preserved ({b[k]!r:.120} vs {a[k]!r:.120})")
    data2 = write(loaded)
    check(data2 == data, f"{key}: second write is byte-identical")
    check(describe(mm) == before, f"{key}: writing does not disturb the source")
    # written label chunks: exactly those with index < count and a label
    names = [
        int.from_bytes(d, "little") for n, d in top_level_chnm(data, in_project)
    ]
    expect_labels = [8 + i for i in (0, 2, 5, 95) if i < count]
    check(
        [n for n in names if n >= 8] == expect_labels,
        f"{key}: label chunks {names} vs {expect_labels}",
    )
    check(names[:3] == [0, 1, 2], f"{key}: chunk order project/mappings/options")
    EXPECTED_DIGESTS.setdefault(key, digest(data))
    return key, digest(data)


def top_level_chnm(data, in_project):
    """CHNM chunks of the outermost MetaModule only."""
    out = []
    seen_mm = False
    for name, d in raw_chunks(data):
        if name == b"STYP" and d.startswith(b"MetaModule"):
            seen_mm = True
        if seen_mm and name == b"CHNM":
            out.append((name, d))
        if seen_mm and name == b"SEND":
            break
    return out


def check_cval_count(count):
    mm = build_metamodule(count)
    data = write(Synth(mm))
    cvals = [d for n, d in raw_chunks(data) if n == b"CVAL"]
    check(len(cvals) == 5 + count, f"n={count}: {5 + count} CVALs written")
    chnk = [d for n, d in raw_chunks(data) if n == b"CHNK"]
    check(chnk == [pack("<I", 104)], "CHNK is 104")
    if count >= 2:
        check(cvals[6] == pack("<i", -7 + 128), "negative-range raw value is shifted")
    if count >= 3:
        check(cvals[7] == pack("<i", 1), "enum raw value")


def check_fixture_files():
    root = Path.cwd() / "tests" / "files"
    expect = {
        "metamodule": "",
        "metamodule-option-78": "",
        "metamodule-option-79": "",
        "metamodule-option-7a": "",
    }
    out = {}
    for name in expect:
        synth = read_sunvox_file(root / f"{name}.sunsynth")
        mm = synth.module
        data = write(synth)
        mm2 = read(data).module
        check(describe(mm) == describe(mm2), f"{name}: description preserved")
        check(write(Synth(mm2)) == data, f"{name}: stable bytes")
        n = 2 if name == "metamodule" else 0
        check(mm2.user_defined_controllers == n, f"{name}: {n} controllers")
        check(
            [c.attached(mm2) for c in mm2.user_defined] == [True] * n + [False] * (96 - n),
            f"{name}: first {n} attached",
        )
        out[name] = digest(data)
    mm = read_sunvox_file(root / "metamodule.sunsynth").module
    check([c.label for c in mm.user_defined[:3]] == ["V", "W", None], "fixture labels")
    check(mm.user_defined_aliases == ["u_v", "u_w"], "fixture aliases")
    check(mm.u_v == mm.user_defined_1 and mm.u_w == mm.user_defined_2, "alias read")
    check((mm.volume, mm.bpm, mm.tpl) == (149, 560, 30), "fixture fixed values")
    check(isinstance(mm.project.modules[1], m.AnalogGenerator), "fixture embedded gen")
    return out


def check_load_chunk_direct():
    mm = m.MetaModule()

    def chunk(chnm, chdt):
        c = Chunk()
        c.chnm, c.chdt = chnm, chdt
        return c

    # labels: with NUL, without NUL, with junk after NUL, empty
    mm.load_chunk(chunk(8, b"first\0"))
    mm.load_chunk(chunk(9, b"second"))
    mm.load_chunk(chunk(8 + 95, b"last\0junk\0more"))
    mm.load_chunk(chunk(12, b"\0"))
    mm.load_chunk(chunk(13, b""))
    mm.load_chunk(chunk(14, "é\0".encode("utf8")))
    lbl = [c.label for c in mm.user_defined]
    check(lbl[0] == "first" and lbl[1] == "second", "labels with/without NUL")
    check(lbl[95] == "last", "label truncated at first NUL")
    check(lbl[4] == "" and lbl[5] == "", "empty labels")
    check(lbl[6] == "é", "utf8 label")
    check(lbl[2] is None and lbl[3] is None, "untouched labels")
    try:
        mm.load_chunk(chunk(8 + 96, b"x\0"))
    except IndexError:
        pass
    else:
        check(False, "label index beyond 96 raises IndexError")
    # malformed chunks keep failing the same way
    for bad in (chunk(None, b"x"), chunk(20, None), chunk(1, None)):
        try:
            mm.load_chunk(bad)
        except TypeError:
            pass
        else:
            check(False, f"TypeError for malformed chunk {bad.chnm!r}")
    mm.load_chunk(chunk(1, b""))
    check(mm.load_chunk(chunk(5, b"")) is None, "load_chunk returns None")
    check(mm.load_chunk(chunk(30, b"x")) is None, "load_chunk returns None (label)")
    mm.user_defined[22].label = None
    # ignored chunk numbers
    before = describe(mm)
    for n in (3, 4, 5, 6, 7):
        mm.load_chunk(chunk(n, b"\1\2\3\4"))
    check(describe(mm) == before, "chunks 3..7 ignored")
    # mappings: short arrays are padded to 96
    mm.load_chunk(chunk(1, pack("<HHHH", 3, 4, 5, 6)))
    mv = [(x.module, x.controller) for x in mm.mappings.values]
    check(mv == [(3, 4), (5, 6)] + [(0, 0)] * 94, "short mapping array padded")
    mm.load_chunk(chunk(1, b""))
    check(
        [(x.module, x.controller) for x in mm.mappings.values] == [(0, 0)] * 96,
        "empty mapping array padded",
    )
    full = pack("<" + "HH" * 96, *range(192))
    mm.load_chunk(chunk(1, full))
    check(mm.mappings.bytes == full, "full mapping array round-trips")
    check(len({id(x) for x in mm.mappings.values}) == 96, "mappings are distinct")
    # options
    mm.load_chunk(chunk(2, bytes([17, 1, 0, 1, 2])))
    check(mm.user_defined_controllers == 17, "options chunk sets count")
    check(mm.arpeggiator is True, "options chunk sets arpeggiator")
    check(mm.event_output is False, "inverted option")
    check(mm.do_not_receive_notes_from_keyboard is True, "byte 4 bit 1")
    check(
        not any(c.attached(mm) for c in mm.user_defined),
        "load_options alone does not attach",
    )
    mm.recompute_controller_attachment()
    check(sum(c.attached(mm) for c in mm.user_defined) == 17, "17 attached")
    # project
    inner = build_inner(4)
    old = mm.project
    mm.load_chunk(chunk(0, inner.read()))
    check(mm.project is not old, "project replaced")
    check(mm.project.name == "inner-4", "project loaded")
    check(mm.project.initial_bpm == 104, "project bpm loaded")
    check(
        [type(x).__name__ for x in mm.project.modules]
        == ["Output", "AnalogGenerator", "Amplifier", "Distortion", "Lfo"],
        "project modules loaded",
    )
    check(mm.project.modules[2].balance == -7, "embedded values loaded")
    check(mm.project.metamodule is None, "loaded project has no back-reference")


def check_propagation():
    """Records what happens on changes in both directions (as-is behaviour)."""
    mm = build_metamodule(11)
    gen, amp, dist, lfo = mm.project.modules[1:5]
    trace = []

    def snap(tag):
        trace.append(
            (
                tag,
                [repr(getattr(mm, f"user_defined_{i + 1}")) for i in range(12)],
                [
                    repr(v)
                    for x in (gen, amp, dist, lfo)
                    for v in x.controller_values.values()
                ],
            )
        )

    snap("start")
    steps = [
        (mm, "user_defined_1", 99),
        (mm, "user_defined_2", 10),
        (mm, "user_defined_3", m.Distortion.Type.clipping),
        (mm, "user_defined_5", False),
        (mm, "user_defined_6", 3),
        (mm, "user_defined_7", 1),
        (mm, "user_defined_10", 17),
        (mm, "user_defined_12", 17),
        (mm, "volume", 17),
        (gen, "volume", 12),
        (gen, "waveform", "sin"),
        (amp, "volume", 7),
        (amp, "balance", -9),
        (amp, "dc_offset", 5),
        (dist, "volume", 3),
        (dist, "type", "overflow"),
        (lfo, "volume", 11),
        (gen, "attack", 77),
        (gen, "panning", -5),
    ]
    for target, name, value in steps:
        try:
            setattr(target, name, value)
        except Exception as e:  # noqa
            snap(f"{type(target).__name__}.{name} -> {type(e).__name__}")
        else:
            snap(f"{type(target).__name__}.{name}")
    check(gen.controller_values["volume"] == 12, "down/up: gen volume")
    check(trace[1][1][0] == "99" and "99" in trace[1][2], "range propagates down")
    check(trace[3][2] != trace[2][2], "enum propagates down")
    return trace


def check_reader_internals():
    mm = build_metamodule(4)
    data = write(Synth(mm))
    f = BytesIO(data)
    # skip SSYN + VERS
    it = iff_chunks(f)
    next(it), next(it)
    r = ModuleReader(f, 1)
    mod = r.object
    check(isinstance(mod, MetaModule), "ModuleReader yields MetaModule")
    check(
        r._controller_keys
        == ["volume", "input_module", "play_patterns", "bpm", "tpl"]
        + [f"user_defined_{i + 1}" for i in range(96)],
        "reader controller keys",
    )
    check(r._cvals[:5] == [300, 1, 1, 222, 6], "reader fixed cvals")
    check(r._cvals[5:] == [33, 121, 1, 1], "reader user cvals")
    check(
        mod.controllers_loaded
        == {"volume", "input_module", "play_patterns", "bpm", "tpl"}
        | {f"user_defined_{i + 1}" for i in range(96)},
        "controllers_loaded",
    )
    # a non-MetaModule gets only its own keys
    data = write(Synth(m.Amplifier()))
    f = BytesIO(data)
    it = iff_chunks(f)
    next(it), next(it)
    r = ModuleReader(f, 1)
    r.object
    check(r._controller_keys == list(m.Amplifier.controllers), "amplifier keys")
    # extra CVALs beyond the known keys are ignored with a warning
    gen = m.Generator()
    chunks_ = list(Synth(gen).chunks())
    idx = max(i for i, (n, _) in enumerate(chunks_) if n == b"CVAL")
    chunks_.insert(idx + 1, (b"CVAL", pack("<i", 5)))
    raw = b"".join(n + pack("<I", len(d)) + d for n, d in chunks_)
    g2 = read(raw).module
    check(g2.controller_values == gen.controller_values, "extra CVAL ignored")


def check_errors():
    try:
        write(Synth(None))
    except EmptySynthError:
        pass
    else:
        check(False, "EmptySynthError for empty synth")
    mm = m.MetaModule()
    try:
        mm.no_such_attribute
    except AttributeError:
        pass
    else:
        check(False, "AttributeError for unknown attribute")
    mm = build_metamodule(3, label_indexes=())
    mm.user_defined[0].label = "Cut Off"
    mm.user_defined[2].label = "9 lives"
    mm.user_defined[3].label = "detached"
    check(mm.user_defined_aliases == ["u_cut_off", None, "u__9_lives"], "aliases")
    mm.u_cut_off = 5
    check(mm.user_defined_1 == 5, "alias write")
    check(mm.project.modules[1].volume == 5, "alias write propagates")
    check(mm.u__9_lives == mm.user_defined_3, "alias read")
    check("u_cut_off" in dir(mm) and "u_detached" not in dir(mm), "alias in dir")
    # an unmapped user controller cannot be set through the descriptor
    bare = m.MetaModule()
    bare.user_defined_controllers = 1
    try:
        bare.user_defined_1 = 5
    except IndexError:
        pass
    else:
        check(False, "IndexError for unmapped write")


def main():
    check_attachment_all_counts()
    check_value_type_derivation()
    digests = {}
    for count in (0, 1, 2, 3, 6, 11, 27, 95, 96):
        for in_project in (False, True):
            k, v = check_roundtrip(count, 0, in_project)
            digests[k] = v
        check_cval_count(count)
    for depth in (1, 2, 3):
        for count in (0, 4, 96):
            for in_project in (False, True):
                k, v = check_roundtrip(count, depth, in_project)
                digests[k] = v
    digests.update(check_fixture_files())
    check_load_chunk_direct()
    prop = check_propagation()
    check_reader_internals()
    check_errors()

    summary = digest(repr((sorted(digests.items()), prop)).encode())
    if "--print" in sys.argv:
        print(summary)
    check(summary == EXPECTED_SUMMARY, f"output digest {summary} != {EXPECTED_SUMMARY}")

    if FAILURES:
        print(f"{len(FAILURES)} check(s) failed")
        sys.exit(1)
    print("PASS")


EXPECTED_SUMMARY = "0a9b9994b0ca5a48"

if __name__ == "__main__":
    main()
