"""Shared behaviour probe for the Sampler codec (property C16).

Run from the repository root:
    PYTHONPATH=<root>/src/python python check.py [--print]

`--print` prints the digests observed on the current tree instead of
comparing them with the recorded ones.
"""
import hashlib
import logging
import os
import random
import struct
import sys
from io import BytesIO

from rv.api import NOTE, Synth, m, read_sunvox_file
from rv.chunks.chunk import Chunk
from rv.lib.iff import chunks as iff_chunks
from rv.lib.iff import write_chunk
from rv.modules import sampler as sampler_module
from rv.modules.sampler import Sampler

logging.disable(logging.CRITICAL)

ENV_NAMES = ("volume_envelope", "panning_envelope", "pitch_envelope")
SCALARS = (
    "instrument_name version max_version unused1 unused2 unused3 unused4 unused5 "
    "unused6 volume_old ins_finetune ins_relative_note editor_cursor "
    "editor_selected_size vibrato_type vibrato_attack vibrato_depth vibrato_rate "
    "volume_fadeout volume panning sample_interpolation envelope_interpolation "
    "polyphony rec_threshold tick_length record start_recording_on_project_play "
    "record_in_mono record_with_reduced_sample_rate record_in_16_bit "
    "stop_recording_on_project_stop ignore_velocity_for_volume "
    "increased_freq_computation_accuracy fit_to_pattern"
).split()
SAMPLE_FIELDS = (
    "data format channels rate loop_start loop_len loop_type loop_sustain volume "
    "finetune panning relative_note reserved2 name start_pos frames frame_size"
).split()
ENV_FIELDS = (
    "chnm points sustain_point loop_start_point loop_end_point enable sustain loop "
    "ctl_index gain_pct velocity bitmask"
).split()


def envelopes(s):
    return [getattr(s, n) for n in ENV_NAMES] + list(s.effect_control_envelopes)


def state(s, with_loaded=False):
    out = {"scalars": [(n, getattr(s, n)) for n in SCALARS]}
    out["samples"] = [
        None if smp is None else [(f, getattr(smp, f)) for f in SAMPLE_FIELDS]
        for smp in s.samples
    ]
    out["envelopes"] = [
        [(f, getattr(e, f)) for f in ENV_FIELDS]
        + ([("loaded", e.loaded)] if with_loaded else [])
        for e in envelopes(s)
    ]
    out["note_samples"] = list(s.note_samples.items())
    out["effect"] = None if s.effect is None else s.effect.read()
    out["legacy"] = (s.is_legacy, s.legacy_chunks is None)
    return out


def digest(*objs):
    h = hashlib.sha256()
    for o in objs:
        h.update(repr(o).encode() if not isinstance(o, bytes) else o)
        h.update(b"|")
    return h.hexdigest()[:24]


def random_sample(rnd, nframes=None):
    smp = Sampler.Sample()
    smp.format = rnd.choice(list(Sampler.Format))
    smp.channels = rnd.choice(list(Sampler.Channels))
    if nframes is None:
        nframes = rnd.choice([0, 1, 2, 7, 33])
    smp.data = bytes(rnd.randrange(256) for _ in range(smp.frame_size * nframes))
    smp.loop_start = rnd.choice([0, 1, 2**32 - 1, rnd.randrange(2**32)])
    smp.loop_len = rnd.choice([0, 2**32 - 1, rnd.randrange(2**32)])
    smp.volume = rnd.choice([0, 64, 255, rnd.randrange(256)])
    smp.finetune = rnd.choice([-128, 127, 0, rnd.randint(-128, 127)])
    smp.rate = rnd.choice([0, 44100, 2**32 - 1, rnd.randrange(2**32)])
    smp.loop_type = rnd.choice(list(Sampler.LoopType))
    smp.loop_sustain = rnd.choice([True, False])
    smp.panning = rnd.choice([-128, 127, 0, rnd.randint(-128, 127)])
    smp.relative_note = rnd.choice([-128, 127, rnd.randint(-128, 127)])
    smp.reserved2 = rnd.randrange(256)
    smp.name = bytes(rnd.randrange(1, 256) for _ in range(rnd.choice([0, 1, 21, 22])))
    smp.start_pos = rnd.choice([0, 2**32 - 1, rnd.randrange(2**32)])
    return smp


def random_envelope(rnd, env, narrow):
    """narrow: volume/panning envelopes also live in 8-bit legacy fields."""
    top = 255 if narrow else 65535
    npoints = rnd.choice([0, 1, 2, 11, 12, 13, 40]) if narrow else rnd.choice(
        [0, 1, 5, 12, 13, 300]
    )
    lo = env.range[0]
    xs = sorted(rnd.choice([0, 65535, rnd.randrange(65536)]) for _ in range(npoints))
    env.points = [
        (x, lo + rnd.choice([0, 65535, 0x1FF, 0x200, rnd.randrange(65536)])) for x in xs
    ]
    env.sustain_point = rnd.choice([0, top, rnd.randint(0, top)])
    env.loop_start_point = rnd.choice([0, top, rnd.randint(0, top)])
    env.loop_end_point = rnd.choice([0, top, rnd.randint(0, top)])
    env.enable = rnd.choice([True, False])
    env.sustain = rnd.choice([True, False])
    env.loop = rnd.choice([True, False])
    env.ctl_index = rnd.randrange(256)
    env.gain_pct = rnd.randrange(256)
    env.velocity = rnd.randrange(256)


def build(seed):
    rnd = random.Random(seed)
    s = m.Sampler()
    k = rnd.choice([0, 1, 2, 5, 9])
    slots = rnd.sample(range(128), k)
    if seed % 5 == 0 and slots:
        slots[0] = 127
    if seed % 7 == 0 and slots:
        slots[-1] = 0
    for i in slots:
        s.samples[i] = random_sample(rnd)
    for n, e in enumerate(envelopes(s)):
        random_envelope(rnd, e, narrow=n < 2)
    tail_zero = rnd.choice([0, 0, 5, 119])
    for j, note in enumerate(s.note_samples):
        s.note_samples[note] = 0 if j >= 119 - tail_zero else rnd.randrange(256)
    s.vibrato_type = rnd.choice(list(Sampler.VibratoType))
    s.vibrato_attack = rnd.randrange(256)
    s.vibrato_depth = rnd.randrange(256)
    s.vibrato_rate = rnd.randrange(64)
    s.volume_fadeout = rnd.randrange(8193)
    s.instrument_name = bytes(
        rnd.randrange(1, 256) for _ in range(rnd.choice([0, 3, 22]))
    )
    s.unused1 = rnd.randrange(2**32)
    s.unused2 = rnd.randrange(2**16)
    s.unused3 = rnd.randrange(2**16)
    s.unused4 = rnd.randrange(2**32)
    s.unused5 = rnd.randrange(256)
    s.unused6 = rnd.randrange(2**32)
    s.volume_old = rnd.randrange(256)
    s.ins_finetune = rnd.randint(-128, 127)
    s.ins_relative_note = rnd.randint(-128, 127)
    s.editor_cursor = rnd.choice([0, -(2**31), 2**31 - 1, rnd.randint(-9999, 9999)])
    s.editor_selected_size = rnd.choice([0, -(2**31), 2**31 - 1, rnd.randint(0, 9999)])
    s.version = rnd.choice([6, 6, 5, rnd.randrange(2**32)])
    s.max_version = rnd.choice([6, 6, rnd.randrange(2**32)])
    s.volume = rnd.randint(0, 512)
    s.panning = rnd.randint(-128, 128)
    s.polyphony = rnd.randint(1, 32)
    s.record_in_mono = rnd.choice([True, False])
    s.fit_to_pattern = rnd.randrange(256)
    if rnd.random() < 0.4:
        inner = rnd.choice([m.Reverb, m.Distortion, m.Sampler])()
        if isinstance(inner, m.Sampler):
            inner.samples[3] = random_sample(rnd, 2)
        s.effect = Synth(inner)
    return s


def read_module(data):
    return read_sunvox_file(BytesIO(data)).module


def file_chunks(data):
    return list(iff_chunks(BytesIO(data)))


def join_chunks(pairs):
    f = BytesIO()
    for name, data in pairs:
        write_chunk(f, name, data)
    return f.getvalue()


def split_sampler_chunks(data):
    """-> (head pairs, [(chnm, [pairs...])...], tail pairs) of a .sunsynth image."""
    pairs = file_chunks(data)
    start = next(i for i, (n, _) in enumerate(pairs) if n == b"CHNK") + 1
    head, groups, tail = pairs[:start], [], []
    for name, payload in pairs[start:]:
        if name == b"SEND":
            tail.append((name, payload))
        elif name == b"CHNM":
            groups.append((struct.unpack("<I", payload)[0], [(name, payload)]))
        else:
            groups[-1][1].append((name, payload))
    return head, groups, tail


def rebuild(head, groups, tail):
    pairs = list(head)
    for _, g in groups:
        pairs.extend(g)
    return join_chunks(pairs + list(tail))


def expect_raises(exc_type, fn, *args, **kw):
    try:
        fn(*args, **kw)
    except exc_type as e:
        if type(e) is not exc_type:
            raise AssertionError(f"expected exactly {exc_type}, got {type(e)}")
        return e
    except Exception as e:  # noqa
        raise AssertionError(f"expected {exc_type}, got {type(e)}: {e}")
    raise AssertionError(f"expected {exc_type}, nothing raised")


class Recorder:
    def __init__(self, golden):
        self.golden = golden
        self.seen = {}
        self.failures = []
        self.printing = "--print" in sys.argv

    def record(self, key, *objs):
        d = digest(*objs)
        self.seen[key] = d
        if not self.printing and self.golden.get(key) != d:
            self.failures.append(f"digest mismatch for {key}: {d} != {self.golden.get(key)}")

    def check(self, cond, msg):
        if not cond:
            self.failures.append(msg)

    def finish(self):
        if self.printing:
            print("GOLDEN = {")
            for k, v in self.seen.items():
                print(f"    {k!r}: {v!r},")
            print("}")
            for f in self.failures:
                print("# FAILED:", f)
            return 0
        missing = set(self.golden) - set(self.seen)
        if missing:
            self.failures.append(f"golden keys never produced: {sorted(missing)}")
        if self.failures:
            print("FAIL")
            for f in self.failures[:40]:
                print("  ", f)
            return 1
        print("PASS")
        return 0


# ---------------------------------------------------------------------------
# generic scenarios shared by all three checks
# ---------------------------------------------------------------------------
def scenario_round_trips(rec, seeds):
    images = []
    for seed in seeds:
        s = build(seed)
        before = state(s)
        data = Synth(s).read()
        images.append(data)
        s2 = read_module(data)
        after = state(s2)
        before["legacy"] = after["legacy"] = None
        rec.check(before == after, f"seed {seed}: state changed across save/load")
        rec.check(s2.is_legacy is False and s2.legacy_chunks is None, f"seed {seed}: legacy flags")
        rec.check(all(e.loaded for e in envelopes(s2)), f"seed {seed}: envelopes loaded")
        data2 = Synth(s2).read()
        rec.check(data2 == data, f"seed {seed}: second save differs")
        s3 = s2.clone()
        rec.check(state(s3) == state(s2), f"seed {seed}: clone differs")
        for i, smp in enumerate(s2.samples):
            if smp is not None:
                rec.check(smp._length == smp.frames, f"seed {seed}: _length of slot {i}")
    rec.record("images", *images)
    return images


def scenario_fixture(rec):
    path = os.path.join("tests", "files", "sampler.sunsynth")
    synth = read_sunvox_file(path)
    mod = synth.module
    rec.record("fixture-state", state(mod, with_loaded=True))
    data = synth.read()
    rec.record("fixture-image", data)
    mod2 = read_module(data)
    rec.check(state(mod2, True) == state(mod, True), "fixture: state changed")
    rec.check(mod2.note_samples[NOTE.G4 - 1] == 1, "fixture: note map")
    rec.check([i for i, x in enumerate(mod2.samples) if x] == [0, 1, 2], "fixture slots")


def outcome(fn, *args):
    try:
        return ("ok", fn(*args))
    except Exception as e:  # noqa
        return ("exc", type(e).__name__)


def load_and_resave(data):
    mod = read_module(data)
    st = state(mod, with_loaded=True)
    again = Synth(mod).read()
    st2 = state(read_module(again), with_loaded=True)
    return st, again, st2


def legacy_variants(data):
    """Yield (label, image) for hand-made legacy / damaged variants of an image."""
    head, groups, tail = split_sampler_chunks(data)
    no_env = [g for g in groups if not 0x102 <= g[0] <= 0x108]
    yield "no-envelopes", rebuild(head, no_env, tail)
    only_vol = [g for g in groups if not 0x103 <= g[0] <= 0x108]
    yield "only-volume-envelope", rebuild(head, only_vol, tail)
    no_vol = [g for g in groups if g[0] != 0x102]
    yield "no-volume-envelope", rebuild(head, no_vol, tail)

    def with_instrument(transform, base=groups):
        out = []
        for chnm, g in base:
            if chnm == 0:
                g = [(n, transform(p) if n == b"CHDT" else p) for n, p in g]
            out.append((chnm, g))
        return rebuild(head, out, tail)

    yield "bad-sign", with_instrument(lambda p: p[:0xFC] + b"XMAS" + p[0x100:])
    yield "zero-sign", with_instrument(lambda p: p[:0xFC] + b"\0\0\0\0" + p[0x100:])
    yield "bad-sign-no-env", with_instrument(
        lambda p: p[:0xFC] + b"PMAZ" + p[0x100:], no_env
    )
    for cut in (0x18F, 0x18C, 0x18A, 0x188, 0x186, 0x184, 0x183, 0x110, 0x104, 0x102, 0x100, 0xFE, 0xFC, 0xF3, 0x24, 3, 0):
        yield f"cut-{cut:x}", with_instrument(lambda p, cut=cut: p[:cut])
        yield f"cut-{cut:x}-no-env", with_instrument(lambda p, cut=cut: p[:cut], no_env)
    yield "long-190", with_instrument(lambda p: p.ljust(0x190, b"\x07"))
    yield "long-191", with_instrument(lambda p: p.ljust(0x191, b"\x07"))
    yield "long-191-no-env", with_instrument(lambda p: p.ljust(0x191, b"\0"), no_env)
    # sample chunk damage
    def with_sample_meta(transform):
        out = []
        for chnm, g in groups:
            if 0 < chnm < 0x101 and chnm % 2 == 1:
                g = [(n, transform(p) if n == b"CHDT" else p) for n, p in g]
            out.append((chnm, g))
        return rebuild(head, out, tail)

    yield "meta-no-start-pos", with_sample_meta(lambda p: p[:40])
    yield "meta-half-start-pos", with_sample_meta(lambda p: p[:42])
    yield "meta-cut-name", with_sample_meta(lambda p: p[:30])
    yield "meta-cut-13", with_sample_meta(lambda p: p[:13])
    yield "meta-empty", with_sample_meta(lambda p: b"")
    yield "meta-short", with_sample_meta(lambda p: p[:20])
    yield "meta-loop3", with_sample_meta(lambda p: p[:14] + bytes([p[14] | 3]) + p[15:])
    yield "meta-fmt3", with_sample_meta(lambda p: p[:14] + bytes([p[14] | 0x30]) + p[15:])
    yield "meta-hibit", with_sample_meta(lambda p: p[:14] + bytes([p[14] | 0x88]) + p[15:])

    def with_sample_data(ff=None, drop=()):
        out = []
        for chnm, g in groups:
            if 0 < chnm < 0x101 and chnm % 2 == 0:
                g = [
                    (n, struct.pack("<I", ff) if (n == b"CHFF" and ff is not None) else p)
                    for n, p in g
                    if n not in drop
                ]
            out.append((chnm, g))
        return rebuild(head, out, tail)

    for ff in (0, 1, 2, 3, 4, 8, 9, 10, 12, 16, 0x18, 0xF4):
        yield f"chff-{ff:x}", with_sample_data(ff)
    yield "no-chff", with_sample_data(drop=(b"CHFF",))
    yield "no-chfr", with_sample_data(drop=(b"CHFR",))
    data_without_meta = [g for g in groups if not (0 < g[0] < 0x101 and g[0] % 2 == 1)]
    yield "data-without-meta", rebuild(head, data_without_meta, tail)

    def with_envelope(transform):
        out = []
        for chnm, g in groups:
            if 0x102 <= chnm <= 0x108:
                g = [(n, transform(p) if n == b"CHDT" else p) for n, p in g]
            out.append((chnm, g))
        return rebuild(head, out, tail)

    yield "env-cut-points", with_envelope(lambda p: p[:-2] if len(p) > 0x14 else p)
    yield "env-cut-header", with_envelope(lambda p: p[:0xF])
    yield "env-extra", with_envelope(lambda p: p + b"\x01\x02\x03")
    yield "env-reserved", with_envelope(lambda p: p[:5] + b"\xaa\xbb\xcc" + p[8:16] + b"\x01\x02\x03\x04" + p[20:])
    yield "env-flags-hi", with_envelope(lambda p: b"\xf8\xff" + p[2:])
    unknown = list(groups) + [(0x109, [(b"CHNM", struct.pack("<I", 0x109)), (b"CHDT", b"zz")]),
                              (0x200, [(b"CHNM", struct.pack("<I", 0x200)), (b"CHDT", b"yy")])]
    yield "unknown-chunks", rebuild(head, unknown, tail)
    dup = list(groups) + [g for g in groups if g[0] == 0]
    yield "instrument-twice", rebuild(head, dup, tail)


def scenario_legacy(rec, images):
    results = []
    for n, data in enumerate(images):
        for label, variant in legacy_variants(data):
            results.append((n, label, outcome(load_and_resave, variant)))
    kinds = {r[2][0] for r in results}
    rec.check(kinds == {"ok", "exc"}, f"legacy scenario should see both outcomes: {kinds}")
    rec.record("legacy", results)
    by_label = {}
    for n, label, res in results:
        by_label.setdefault(label, []).append(res)
    for label in ("bad-sign", "zero-sign", "long-191"):
        for res, data in zip(by_label[label], images):
            rec.check(res[0] == "ok" and res[1][0]["legacy"] == (True, False), f"{label}: legacy flag")
            rec.check(res[0] == "ok" and res[1][0] == res[1][2], f"{label}: replay state")
    for res in by_label["long-190"]:
        rec.check(res[0] == "ok" and res[1][0]["legacy"] == (False, True), "long-190 not legacy")


# ---------------------------------------------------------------------------
# checks specific to the writer side (global_config_chunks, sample_chunks,
# sample_data_chunks, specialized_iff_chunks, _StructWriter)
# ---------------------------------------------------------------------------
def scenario_struct_writer(rec):
    W = sampler_module._StructWriter
    f = BytesIO()
    w = W(f)
    cases = [
        ("int8", (-128, -1, 0, 127)),
        ("uint8", (0, 1, 255)),
        ("int16", (-32768, -2, 0, 32767)),
        ("uint16", (0, 513, 65535)),
        ("int32", (-(2**31), -3, 0, 2**31 - 1)),
        ("uint32", (0, 0x01020304, 2**32 - 1)),
    ]
    for name, values in cases:
        for v in values:
            rec.check(getattr(w, name)(v) is None, f"{name} returns None")
    for value, width in ((b"", 4), (b"ab", 4), (b"abcd", 4), (b"abcdef", 4), (b"x", 0), (b"a\0b", 22)):
        w.char(value, width)
    rec.record("struct-writer-bytes", f.getvalue())
    bad = [
        ("int8", 128), ("int8", -129), ("uint8", 256), ("uint8", -1), ("int16", 32768),
        ("int16", -32769), ("uint16", 65536), ("uint16", -1), ("int32", 2**31),
        ("int32", -(2**31) - 1), ("uint32", 2**32), ("uint32", -1), ("uint8", 1.5),
        ("uint32", None), ("int8", "1"),
    ]
    before = f.getvalue()
    for name, v in bad:
        expect_raises(struct.error, getattr(w, name), v)
    expect_raises(AttributeError, w.char, None, 4)
    expect_raises(TypeError, w.char, "abc", 4)
    rec.check(f.getvalue() == before, "failed writes must not emit bytes")


def instrument_record(s):
    pairs = list(s.global_config_chunks())
    assert [n for n, _ in pairs] == [b"CHNM", b"CHDT"], pairs
    assert pairs[0][1] == b"\0\0\0\0"
    return pairs[1][1]


def scenario_instrument_record(rec, seeds):
    records = []
    for seed in seeds:
        s = build(seed)
        record = instrument_record(s)
        rec.check(len(record) == 0x190, f"seed {seed}: record length {len(record):#x}")
        rec.check(record[0xFC:0x100] == b"PMAS", f"seed {seed}: signature position")
        rec.check(record[0x104:0x104 + 119] == s.note_samples.bytes, f"seed {seed}: map")
        rec.check(record[0x24:0x24 + 96] == s.note_samples.bytes[:96], f"seed {seed}: old map")
        rec.check(
            struct.unpack_from("<Iii", record, 0x184)
            == (s.max_version, s.editor_cursor, s.editor_selected_size),
            f"seed {seed}: trailing editor fields",
        )
        last = max([i for i, x in enumerate(s.samples) if x is not None], default=-1)
        rec.check(struct.unpack_from("<H", record, 0x1C)[0] == last + 1, f"seed {seed}: samples_num")
        records.append(record)
    rec.record("instrument-records", *records)

    # sample slot list shapes
    counts = []
    for shape in ([], [None], [None] * 3, [None] * 200):
        s = m.Sampler()
        s.samples = list(shape)
        counts.append(struct.unpack_from("<H", instrument_record(s), 0x1C)[0])
        rec.check(s.samples == shape, "samples list must not be modified by writing")
    for n, fill in ((1, [0]), (5, [2]), (128, [0, 127]), (128, [126]), (200, [150]), (3, [0, 1, 2])):
        s = m.Sampler()
        s.samples = [None] * n
        for i in fill:
            s.samples[i] = Sampler.Sample()
        snapshot = list(s.samples)
        counts.append(struct.unpack_from("<H", instrument_record(s), 0x1C)[0])
        rec.check(s.samples == snapshot, "samples list must not be modified by writing")
    rec.check(counts == [0, 0, 0, 0, 1, 3, 128, 127, 151, 3], f"samples_num values {counts}")


def scenario_writer_errors(rec):
    out = []
    too_big = {
        "unused1": 2**32, "unused2": 2**16, "unused3": -1, "unused4": -1, "unused5": 256,
        "unused6": 2**32, "volume_old": 256, "ins_finetune": 128, "ins_relative_note": -129,
        "version": -1, "max_version": 2**32, "editor_cursor": 2**31,
        "editor_selected_size": -(2**31) - 1,
    }
    for attr, v in too_big.items():
        s = build(3)
        setattr(s, attr, v)
        expect_raises(struct.error, lambda: list(s.global_config_chunks()))
        expect_raises(struct.error, Synth(s).read)
    for env_name in ("volume_envelope", "panning_envelope"):
        for attr in ("sustain_point", "loop_start_point", "loop_end_point"):
            s = build(3)
            setattr(getattr(s, env_name), attr, 256)
            expect_raises(struct.error, lambda: list(s.global_config_chunks()))
        s = build(3)
        getattr(s, env_name).points = [(i, 0) for i in range(256)]
        expect_raises(struct.error, lambda: list(s.global_config_chunks()))
        s = build(3)
        getattr(s, env_name).points = [(70000, 0)]
        expect_raises(struct.error, lambda: list(s.global_config_chunks()))
    s = build(3)
    s.instrument_name = None
    expect_raises(AttributeError, lambda: list(s.global_config_chunks()))
    # which problem is reported when two fields are bad: the earlier one in the record
    s = build(3)
    s.instrument_name = None
    s.unused1 = -1
    expect_raises(struct.error, lambda: list(s.global_config_chunks()))
    s = build(3)
    s.instrument_name = None
    s.unused2 = -1
    expect_raises(AttributeError, lambda: list(s.global_config_chunks()))
    s = build(3)
    s.volume_envelope.points = None
    s.unused4 = -1
    expect_raises(struct.error, lambda: list(s.global_config_chunks()))
    s = build(3)
    s.volume_envelope.points = None
    s.editor_cursor = 2**40
    expect_raises(TypeError, lambda: list(s.global_config_chunks()))
    s = build(3)
    s.samples = None
    s.unused2 = -5
    expect_raises(struct.error, lambda: list(s.global_config_chunks()))
    s = build(3)
    s.samples = None
    expect_raises(AttributeError, lambda: list(s.global_config_chunks()))
    # long names are truncated, short ones padded
    s = build(3)
    s.instrument_name = b"0123456789abcdefghijklmnopqrstuvwxyz"
    rec.check(instrument_record(s)[4:26] == b"0123456789abcdefghijkl", "name truncation")
    rec.check(read_module(Synth(s).read()).instrument_name == b"0123456789abcdefghijkl", "name rt")

    # per-sample header
    base = random_sample(random.Random(5), 3)
    bad_samples = {
        "loop_start": 2**32, "loop_len": -1, "volume": 256, "finetune": 128,
        "panning": 128, "relative_note": 128, "reserved2": 256, "start_pos": 2**32,
    }
    for attr, v in bad_samples.items():
        s = m.Sampler()
        smp = random_sample(random.Random(5), 3)
        setattr(smp, attr, v)
        s.samples[9] = smp
        expect_raises(struct.error, lambda: list(s.sample_chunks(9, smp)))
        expect_raises(struct.error, lambda: list(s.sample_data_chunks()))
        expect_raises(struct.error, Synth(s).read)
    s = m.Sampler()
    for attr, v, exc in (
        ("format", 3, KeyError), ("channels", 4, KeyError), ("loop_type", 1, AttributeError),
        ("name", None, AttributeError), ("panning", None, TypeError), ("format", None, KeyError),
    ):
        smp = random_sample(random.Random(6), 2)
        setattr(smp, attr, v)
        expect_raises(exc, lambda: list(s.sample_chunks(0, smp)))
    # two faults: the earlier header field wins
    smp = random_sample(random.Random(6), 2)
    smp.loop_start = -1
    smp.channels = 4
    expect_raises(KeyError, lambda: list(s.sample_chunks(0, smp)))  # frames needs channels
    smp = random_sample(random.Random(6), 2)
    smp.volume = 999
    smp.loop_type = None
    expect_raises(struct.error, lambda: list(s.sample_chunks(0, smp)))
    smp = random_sample(random.Random(6), 2)
    smp.loop_type = None
    smp.panning = 999
    expect_raises(AttributeError, lambda: list(s.sample_chunks(0, smp)))
    smp = random_sample(random.Random(6), 2)
    smp.volume = 999
    expect_raises(struct.error, lambda: list(s.sample_chunks(None, smp)))
    smp = random_sample(random.Random(6), 2)
    expect_raises(TypeError, lambda: list(s.sample_chunks(None, smp)))
    # ints usable where enums are expected, truthy non-bool sustain
    smp = random_sample(random.Random(7), 2)
    smp.loop_sustain = 5
    a = list(s.sample_chunks(4, smp))
    smp.loop_sustain = True
    rec.check(a == list(s.sample_chunks(4, smp)), "truthy loop_sustain")
    rec.check(base.data == random_sample(random.Random(5), 3).data, "determinism")


def scenario_sample_chunks(rec):
    out = []
    rnd = random.Random(77)
    s = m.Sampler()
    for fmt in Sampler.Format:
        for ch in Sampler.Channels:
            for lt in Sampler.LoopType:
                for sustain in (False, True):
                    smp = random_sample(rnd)
                    smp.format, smp.channels, smp.loop_type, smp.loop_sustain = fmt, ch, lt, sustain
                    smp.data = bytes(
                        rnd.randrange(256) for _ in range(smp.frame_size * 3 + (smp.frame_size > 1))
                    )
                    slot = rnd.randrange(128)
                    pairs = list(s.sample_chunks(slot, smp))
                    names = [n for n, _ in pairs]
                    rec.check(names == [b"CHNM", b"CHDT", b"CHNM", b"CHDT", b"CHFF", b"CHFR"], "names")
                    rec.check(len(pairs[1][1]) == 44, "sample header is 44 bytes")
                    t = pairs[1][1][14]
                    want = lt.value | {1: 0, 2: 0x10, 4: 0x20}[fmt.value] | (0x40 if ch else 0) | (4 if sustain else 0)
                    rec.check(t == want, f"type byte {t:#x} != {want:#x}")
                    rec.check(pairs[1][1][:4] == struct.pack("<I", 3), "frame count floors")
                    rec.check(pairs[0][1] == struct.pack("<I", slot * 2 + 1), "meta chnm")
                    rec.check(pairs[2][1] == struct.pack("<I", slot * 2 + 2), "data chnm")
                    rec.check(pairs[3][1] is smp.data or pairs[3][1] == smp.data, "pcm")
                    rec.check(pairs[4][1] == struct.pack("<I", fmt.value | ch.value), "chff")
                    out.append(pairs)
    rec.record("sample-chunks", out)
    # sample_data_chunks walks slots in index order and skips empty ones
    s = m.Sampler()
    for slot in (100, 3, 127, 0):
        s.samples[slot] = random_sample(rnd, 1)
    chnms = [struct.unpack("<I", d)[0] for n, d in s.sample_data_chunks() if n == b"CHNM"]
    rec.check(chnms == [1, 2, 7, 8, 201, 202, 255, 256], f"slot order {chnms}")
    rec.check(list(m.Sampler().sample_data_chunks()) == [], "no samples -> no chunks")
    # generators are lazy: nothing happens until iterated
    s.samples[0].volume = 999
    gen = s.sample_data_chunks()
    expect_raises(struct.error, next, gen)
    gen2 = s.specialized_iff_chunks()
    rec.check(next(gen2) == (b"CHNM", b"\0\0\0\0"), "first special chunk")
    next(gen2)
    expect_raises(struct.error, next, gen2)


def scenario_chunk_order(rec):
    for seed, with_effect in ((11, False), (12, True)):
        s = build(seed)
        s.effect = Synth(m.Reverb()) if with_effect else None
        pairs = list(s.specialized_iff_chunks())
        chnms = [struct.unpack("<I", d)[0] for n, d in pairs if n == b"CHNM"]
        slots = [i for i, x in enumerate(s.samples) if x is not None]
        want = [0] + [c for i in slots for c in (2 * i + 1, 2 * i + 2)] + list(range(0x101, 0x109))
        if with_effect:
            want.append(0x10A)
            rec.check(pairs[-2] == (b"CHNM", b"\x0a\x01\0\0"), "effect chnm bytes")
            rec.check(pairs[-1] == (b"CHDT", s.effect.read()), "effect payload")
        rec.check(chnms == want, f"chunk order {chnms} != {want}")
        rec.record(f"special-chunks-{seed}", pairs)
    # fewer than four effect envelopes: IndexError before anything is produced
    s = build(11)
    s.effect_control_envelopes = s.effect_control_envelopes[:3]
    expect_raises(IndexError, next, s.specialized_iff_chunks())
    s = build(11)
    s.effect_control_envelopes = s.effect_control_envelopes + [Sampler.EffectControlEnvelope(0x109)]
    rec.check(len(list(s.specialized_iff_chunks())) == len(list(build(11).specialized_iff_chunks())), "5th ignored")
    s = build(11)
    s.pitch_envelope = None
    s.effect_control_envelopes = []
    expect_raises(AttributeError, next, s.specialized_iff_chunks())
    # legacy replay: chunks stored at load time are emitted verbatim, nothing else
    data = Synth(build(13)).read()
    legacy = dict(legacy_variants(data))["bad-sign"]
    mod = read_module(legacy)
    rec.check(mod.is_legacy is True, "legacy flag set")
    mod.instrument_name = b"ignored"
    mod.samples[5] = Sampler.Sample()
    mod.effect = Synth(m.Reverb())
    _, groups, _ = split_sampler_chunks(legacy)
    got = list(mod.specialized_iff_chunks())
    rec.check(
        [n for n, _ in got] == [b"CHNM", b"CHDT", b"CHFF", b"CHFR"] * len(groups),
        "legacy replay names",
    )
    rec.check(
        [d for n, d in got if n in (b"CHNM", b"CHDT")]
        == [d for _, g in groups for n, d in g if n in (b"CHNM", b"CHDT")],
        "legacy replay payloads",
    )
    rec.record("legacy-replay", got)
    mod.is_legacy = True
    mod.legacy_chunks = []
    rec.check(list(mod.specialized_iff_chunks()) == [], "empty legacy list")


GOLDEN = {
    'images': 'f3a41dab50aba0dfceff0312',
    'fixture-state': '9f75aa6f147f7a45ec30a156',
    'fixture-image': '6ad6b302a17750ed39595188',
    'legacy': 'e66a7fa5b7bdb13bcf39b7be',
    'struct-writer-bytes': 'a69e2febc4f10bf54174d7d7',
    'instrument-records': '861ce874d05e284363c35df5',
    'sample-chunks': 'dc8e4f677c9978a5096347c8',
    'special-chunks-11': '7e948280bb3a9ed62c140e7f',
    'special-chunks-12': '2e41b0adfbfc55030e67c1da',
    'legacy-replay': '6bd034821835c2446ec3e8e0',
}


def main():
    rec = Recorder(GOLDEN)
    images = scenario_round_trips(rec, range(0, 48))
    scenario_fixture(rec)
    scenario_legacy(rec, images[:6])
    scenario_struct_writer(rec)
    scenario_instrument_record(rec, range(100, 130))
    scenario_writer_errors(rec)
    scenario_sample_chunks(rec)
    scenario_chunk_order(rec)
    return rec.finish()


if __name__ == "__main__":
    sys.exit(main())
