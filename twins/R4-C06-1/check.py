"""Behaviour check for Sampler chunk writing / loading / legacy detection.

Run from the repository root:
    PYTHONPATH=<root>/src/python python check.py

Exercises Sampler.specialized_iff_chunks, Sampler.load_chunk and the legacy
detection at the end of Sampler.load_instrument, over the fixture sampler and
a number of derived files (bad signature, over-long record, duplicated record,
missing envelope chunks, missing effect, embedded in a project).
"""
import hashlib
import logging
import struct
import sys
from io import BytesIO
from pathlib import Path

from rv.api import Project, Synth, read_sunvox_file
from rv.lib.iff import chunks as iff_chunks
from rv.modules.module import Chunk as RawChunk
from rv.modules.sampler import Sampler
from rv.note import NOTE

logging.disable(logging.CRITICAL)

ROOT = Path.cwd()
FIXTURE = ROOT / "tests" / "files" / "sampler.sunsynth"
FAILURES = []
RESULTS = {}


def check(cond, label):
    if not cond:
        FAILURES.append(label)


def sha(data: bytes) -> str:
    return hashlib.sha256(data).hexdigest()[:16]


def file_chunks(data: bytes):
    return list(iff_chunks(BytesIO(data)))


def build(chunk_list) -> bytes:
    out = BytesIO()
    for name, data in chunk_list:
        out.write(name + struct.pack("<I", len(data)) + data)
    return out.getvalue()


def edit_chdt(chunk_list, chnm, fn):
    """Return a new chunk list where the CHDT following CHNM==chnm is fn(data)."""
    out = []
    current = None
    for name, data in chunk_list:
        if name == b"CHNM":
            (current,) = struct.unpack("<I", data)
        if name == b"CHDT" and current == chnm:
            data = fn(data)
        out.append((name, data))
    return out


def drop_chnm(chunk_list, chnms):
    out = []
    current = None
    in_chnk = False
    for name, data in chunk_list:
        if name == b"CHNM":
            (current,) = struct.unpack("<I", data)
            in_chnk = True
        if name == b"SEND":
            in_chnk = False
        if in_chnk and current in chnms and name in (b"CHNM", b"CHDT", b"CHFF", b"CHFR"):
            continue
        out.append((name, data))
    return out


def dup_chnm(chunk_list, chnm, fn=lambda d: d):
    """Append a second copy of the CHNM/CHDT pair for chnm just before SEND."""
    pair = None
    current = None
    for name, data in chunk_list:
        if name == b"CHNM":
            (current,) = struct.unpack("<I", data)
        if name == b"CHDT" and current == chnm:
            pair = [(b"CHNM", struct.pack("<I", chnm)), (b"CHDT", fn(data))]
    out = []
    for name, data in chunk_list:
        if name == b"SEND":
            out.extend(pair)
        out.append((name, data))
    return out


def specialized_section(data: bytes):
    """The chunks between CHNK and SEND."""
    out, on = [], False
    for name, d in file_chunks(data):
        if name == b"SEND":
            on = False
        if on:
            out.append((name, d))
        if name == b"CHNK":
            on = True
    return out


def describe_envelope(e):
    return (
        e.chnm, list(e.points), e.sustain_point, e.loop_start_point, e.loop_end_point,
        e.enable, e.sustain, e.loop, e.ctl_index, e.gain_pct, e.velocity, e.loaded,
    )


def describe(mod: Sampler):
    samples = []
    for s in mod.samples:
        if s is None:
            samples.append(None)
        else:
            samples.append((
                sha(s.data), s._length, s.loop_start, s.loop_len, s.volume, s.finetune,
                int(s.format), int(s.channels), s.rate, int(s.loop_type), s.loop_sustain,
                s.panning, s.relative_note, s.reserved2, s.name, s.start_pos,
            ))
    effect = None
    if mod.effect is not None:
        effect = (type(mod.effect).__name__, sha(mod.effect.read()))
    return repr((
        mod.name, mod.flags, dict(mod.controller_values), dict(mod.option_values),
        [describe_envelope(e) for e in (
            mod.volume_envelope, mod.panning_envelope, mod.pitch_envelope,
            *mod.effect_control_envelopes)],
        sha(mod.note_samples.bytes), samples, mod.instrument_name, mod.version,
        mod.max_version, mod.unused1, mod.unused2, mod.unused3, mod.unused4,
        mod.unused5, mod.unused6, mod.volume_old, mod.ins_finetune,
        mod.ins_relative_note, mod.editor_cursor, mod.editor_selected_size, effect,
        mod.is_legacy,
        None if mod.legacy_chunks is None else [
            (c.chnm, sha(c.chdt), c.chff, c.chfr) for c in mod.legacy_chunks],
        getattr(mod, "_unknown_0x101", "unset"),
    ))


def load(data: bytes):
    return read_sunvox_file(BytesIO(data))


def record(label, data: bytes, mod: Sampler | None = None):
    RESULTS[label + ":bytes"] = sha(data)
    if mod is not None:
        RESULTS[label + ":state"] = sha(describe(mod).encode())


def roundtrip(label, data: bytes):
    synth = load(data)
    mod = synth.module
    record(label + ":loaded", b"", mod)
    out = synth.read()
    record(label + ":saved", out, load(out).module)
    return synth, out


ORIG = FIXTURE.read_bytes()
ORIG_CHUNKS = file_chunks(ORIG)

# ---------------------------------------------------------------- plain fixture
synth, out = roundtrip("fixture", ORIG)
mod = synth.module
check(mod.is_legacy is False and mod.legacy_chunks is None, "fixture not legacy")
check(out == synth.read(), "saving twice gives identical bytes")
# order of CHNM numbers in the written specialized section
chnms = [struct.unpack("<I", d)[0] for n, d in specialized_section(out) if n == b"CHNM"]
check(chnms == [0, 1, 2, 3, 4, 5, 6, 0x101, 0x102, 0x103, 0x104, 0x105, 0x106,
                0x107, 0x108, 0x10A], f"chunk order {chnms}")
check(specialized_section(out)[-2] == (b"CHNM", b"\x0a\x01\0\0"), "effect CHNM bytes")

# ------------------------------------------------------- edits are what is saved
synth = load(ORIG)
mod = synth.module
before = describe(load(synth.read()).module)
mod.volume_envelope.points = [(0, 0x1000), (5, 0x8000), (30, 0x200)]
mod.volume_envelope.sustain_point = 2
mod.volume_envelope.loop = True
mod.panning_envelope.points.append((0x200, -0x4000))
mod.pitch_envelope.enable = True
mod.effect_control_envelopes[3].ctl_index = 7
mod.effect_control_envelopes[0].gain_pct = 33
mod.samples[1].loop_start = 3
mod.samples[1].loop_len = 5
mod.samples[1].volume = 11
mod.samples[1].panning = -20
mod.samples[2].name = b"edited"
mod.samples[0].data = bytes(range(64))
mod.samples[0].rate = 22050
mod.samples[5] = Sampler.Sample()
mod.samples[5].data = b"\x01\x02\x03\x04" * 4
mod.samples[5].format = Sampler.Format.int16
mod.samples[5].channels = Sampler.Channels.mono
mod.note_samples[NOTE.C4] = 2
mod.instrument_name = b"renamed"
mod.vibrato_depth = 9
mod.volume_fadeout = 1234
mod.record_in_mono = True
mod.volume = 300
mod.editor_cursor = -3
mod.name = "Edited Sampler"
out = synth.read()
again = load(out).module
record("edited:saved", out, again)
check(again.volume_envelope.points == [(0, 0x1000), (5, 0x8000), (30, 0x200)], "vol points")
check(again.volume_envelope.sustain_point == 2 and again.volume_envelope.loop is True, "vol flags")
check(again.panning_envelope.points[-1] == (0x200, -0x4000), "pan points")
check(again.pitch_envelope.enable is True, "pitch enable")
check(again.effect_control_envelopes[3].ctl_index == 7, "effect env ctl index")
check(again.effect_control_envelopes[0].gain_pct == 33, "effect env gain")
s1 = again.samples[1]
check((s1.loop_start, s1.loop_len, s1.volume, s1.panning) == (3, 5, 11, -20), "sample 1")
check(again.samples[2].name == b"edited", "sample 2 name")
check(again.samples[0].data == bytes(range(64)) and again.samples[0].rate == 22050, "sample 0")
check(again.samples[5] is not None and again.samples[5].data == b"\x01\x02\x03\x04" * 4, "sample 5")
check(again.samples[5].format == Sampler.Format.int16, "sample 5 format")
check(again.samples[5].channels == Sampler.Channels.mono, "sample 5 channels")
check(again.samples[4] is None and again.samples[3] is None, "gap slots stay empty")
check(again.note_samples[NOTE.C4] == 2, "note map")
check(again.instrument_name == b"renamed", "instrument name")
check(again.vibrato_depth == 9 and again.volume_fadeout == 1234, "vibrato/fadeout")
check(again.record_in_mono is True and again.volume == 300, "option/controller")
check(again.editor_cursor == -3 and again.name == "Edited Sampler", "cursor/name")
check(describe(again) != before, "edit visible")
check(again.is_legacy is False and again.legacy_chunks is None, "edited stays current")

# dropping / replacing the effect
synth = load(ORIG)
synth.module.effect = None
out = synth.read()
record("no-effect:saved", out, load(out).module)
check(load(out).module.effect is None, "effect removed")
check(b"\x0a\x01\0\0" not in [d for n, d in specialized_section(out) if n == b"CHNM"],
      "no effect chunk")
synth = load(ORIG)
inner = load(ORIG)
inner.module.effect = None
synth.module.effect = inner
out = synth.read()
record("nested-effect:saved", out, load(out).module)
check(isinstance(load(out).module.effect.module, Sampler), "nested sampler effect")

# --------------------------------------------------------- legacy: bad signature
RECORD0 = ORIG_CHUNKS[24][1]
SIGN_AT = RECORD0.find(b"PMAS")
check(ORIG_CHUNKS[23] == (b"CHNM", b"\0\0\0\0") and len(RECORD0) == 0x190, "fixture layout")
check(SIGN_AT == 0xFC, "signature offset")


def bad_sign(d):
    return d[:SIGN_AT] + b"XXXX" + d[SIGN_AT + 4:]


def good_sign(d):
    return d[:SIGN_AT] + b"PMAS" + d[SIGN_AT + 4:]

legacy = build(edit_chdt(ORIG_CHUNKS, 0, bad_sign))
synth, out = roundtrip("badsign", legacy)
mod = synth.module
check(mod.is_legacy is True, "bad signature => legacy")
check(len(mod.legacy_chunks) == 16, f"legacy chunk count {len(mod.legacy_chunks)}")
check(all(isinstance(c, RawChunk) for c in mod.legacy_chunks), "legacy chunk type")
check([c.chnm for c in mod.legacy_chunks] == chnms, "legacy chunk order")
# current behaviour: raw chunks are replayed, and each carries CHFF/CHFR
sec = specialized_section(out)
check([n for n, _ in sec[:4]] == [b"CHNM", b"CHDT", b"CHFF", b"CHFR"], "replayed layout")
check(sec[1][1] == bad_sign(ORIG_CHUNKS[24][1]), "replayed record 0 verbatim")
mod.volume_envelope.points = [(0, 0), (1, 0x8000)]
mod.instrument_name = b"zzz"
out2 = synth.read()
record("badsign:edited-saved", out2, load(out2).module)
check(specialized_section(out2) == sec, "legacy replay ignores edits (current behaviour)")
mod.name = "Other"
check(load(synth.read()).module.name == "Other", "common fields still live for legacy")

# ------------------------------------------------------- legacy: over-long record
for extra, expect in ((0, False), (1, True), (4, True), (64, True)):
    data = build(edit_chdt(ORIG_CHUNKS, 0, lambda d, n=extra: d + b"\0" * n))
    synth, out = roundtrip(f"pad{extra}", data)
    check(synth.module.is_legacy is expect, f"pad {extra} => legacy {expect}")
    check((synth.module.legacy_chunks is None) == (not expect), f"pad {extra} chunks kept")

# truncated (old, short) records are current-format, defaults filled in
for cut in (0x184, 0x188, 0x18C, 0x18E):
    data = build(edit_chdt(ORIG_CHUNKS, 0, lambda d, n=cut: d[:n]))
    synth, out = roundtrip(f"cut{cut:x}", data)
    check(synth.module.is_legacy is False, f"cut {cut:x} not legacy")
# too short: version field missing => RuntimeError from the struct reader
try:
    load(build(edit_chdt(ORIG_CHUNKS, 0, lambda d: d[:SIGN_AT + 6])))
    check(False, "short record should fail")
except RuntimeError as e:
    check(str(e) == "default not provided", f"short record error {e!r}")

# ------------------------------------------------- record 0 appearing twice
data = build(dup_chnm(ORIG_CHUNKS, 0))
synth, out = roundtrip("dup-ok-ok", data)
check(synth.module.is_legacy is False and synth.module.legacy_chunks is None, "dup ok/ok")
data = build(dup_chnm(edit_chdt(ORIG_CHUNKS, 0, bad_sign), 0, good_sign))
synth, out = roundtrip("dup-bad-ok", data)
check(synth.module.is_legacy is True and len(synth.module.legacy_chunks) == 17, "dup bad/ok sticky")
data = build(dup_chnm(ORIG_CHUNKS, 0, bad_sign))
synth = load(data)
check(synth.module.is_legacy is True and synth.module.legacy_chunks is None, "dup ok/bad")
try:
    synth.read()
    check(False, "dup ok/bad write should fail")
except TypeError:
    pass

# ------------------------------------------- instrument without its record 0
data = build(drop_chnm(ORIG_CHUNKS, {0}))
synth = load(data)
check(synth.module.is_legacy is None and len(synth.module.legacy_chunks) == 15, "no record: undecided")
out = synth.read()
record("norecord:saved", out, load(out).module)
check(load(out).module.is_legacy is False, "undecided is written in current format")

# --------------------------------------------- missing envelopes / effect chunks
data = build(drop_chnm(ORIG_CHUNKS, set(range(0x102, 0x109))))
synth, out = roundtrip("noenv", data)
check(synth.module.volume_envelope.loaded is False, "noenv: upgraded")
data = build(drop_chnm(ORIG_CHUNKS, {0x10A}))
synth, out = roundtrip("noeffect", data)
check(synth.module.effect is None, "noeffect")
data = build(drop_chnm(ORIG_CHUNKS, {0x101}))
synth, out = roundtrip("noopts", data)
data = build(drop_chnm(ORIG_CHUNKS, {3, 4}))
synth, out = roundtrip("nosample1", data)
check(synth.module.samples[1] is None and synth.module.samples[2] is not None, "gap sample")

# unknown chunk numbers are ignored (but captured for legacy files)
extra_chunks = [(b"CHNM", struct.pack("<I", 0x109)), (b"CHDT", b"abc"),
                (b"CHNM", struct.pack("<I", 0x200)), (b"CHDT", b"defg")]
with_extra = []
for name, d in ORIG_CHUNKS:
    if name == b"SEND":
        with_extra.extend(extra_chunks)
    with_extra.append((name, d))
synth, out = roundtrip("extra", build(with_extra))
check(out == load(ORIG).read(), "unknown chunks dropped for current format")
synth, out = roundtrip("extra-legacy", build(edit_chdt(with_extra, 0, bad_sign)))
check([c.chnm for c in synth.module.legacy_chunks][-2:] == [0x109, 0x200], "unknown chunks captured")

# --------------------------------------------------------- load_chunk directly
m = Sampler()
c = RawChunk()
c.chnm, c.chdt = None, b""
try:
    m.load_chunk(c)
    check(False, "None chnm should raise")
except TypeError:
    pass
check(m.legacy_chunks == [c], "chunk captured before dispatch")
c2 = RawChunk()
c2.chnm, c2.chdt = 0x101, b"\x01\x01\x00\x01\x00\x00\x01\x00"
m.load_chunk(c2)
check(not hasattr(m, "_unknown_0x101"), "0x101 goes to options")
check(m.record_in_mono is True, "options loaded")
c3 = RawChunk()
c3.chnm, c3.chdt = 0x106, ORIG_CHUNKS[[i for i, (n, d) in enumerate(ORIG_CHUNKS) if n == b"CHNM" and d == b"\x06\x01\0\0"][0] + 1][1]
m.load_chunk(c3)
check(m.effect_control_envelopes[1].loaded and not m.effect_control_envelopes[0].loaded, "0x106 -> slot 1")
c4 = RawChunk()
c4.chnm, c4.chdt = 4, b"\x00" * 8
try:
    m.load_chunk(c4)  # data for a sample slot with no header yet
    check(False, "sample data without meta should raise")
except AttributeError:
    pass
check(len(m.legacy_chunks) == 4 and m.is_legacy is None, "all captured while undecided")

# --------------------------------------------------------- fresh sampler
m = Sampler()
check(m.is_legacy is None and m.legacy_chunks == [], "fresh state")
out = Synth(m).read()
record("fresh:saved", out, load(out).module)
back = load(out).module
check(back.is_legacy is False and back.legacy_chunks is None, "fresh reload current")
check(back.effect is None and all(s is None for s in back.samples), "fresh reload empty")
m.effect_control_envelopes.pop()
try:
    Synth(m).read()
    check(False, "3 effect envelopes should raise")
except IndexError:
    pass
m = Sampler()
m.effect_control_envelopes.append(Sampler.EffectControlEnvelope(0x109))
check(Synth(m).read() == out, "fifth effect envelope is not written")
m = Sampler()
m.is_legacy = True
m.legacy_chunks = None
try:
    Synth(m).read()
    check(False, "legacy without chunks should raise")
except TypeError:
    pass
m = Sampler()
m.is_legacy = True  # legacy with no captured chunks: nothing is written
check(specialized_section(Synth(m).read()) == [], "empty legacy replay")
# laziness: the generator itself never fails on creation
m.legacy_chunks = None
gen = m.specialized_iff_chunks()
try:
    next(gen)
    check(False, "expected TypeError on first next")
except TypeError:
    pass

# --------------------------------------------------------- sampler in a project
project = Project()
smp = load(ORIG).module
project.attach_module(smp)
project.connect(smp, project.output)
leg = load(legacy).module
project.attach_module(leg)
data = project.read()
p2 = load(data)
record("project:saved", data, p2.modules[1])
record("project:saved-legacy", b"", p2.modules[2])
check(p2.modules[1].is_legacy is False and p2.modules[2].is_legacy is True, "project legacy flags")
p2.modules[1].pitch_envelope.points = [(0, 0), (9, 0x4000)]
check(load(p2.read()).modules[1].pitch_envelope.points == [(0, 0), (9, 0x4000)], "project edit")
clone = smp.clone()
check(describe(clone) == describe(load(Synth(smp).read()).module), "clone")

EXPECTED = {
    'fixture:loaded:bytes': 'e3b0c44298fc1c14',
    'fixture:loaded:state': 'fdea5c6c4d918263',
    'fixture:saved:bytes': '3b0f2915c2ec0456',
    'fixture:saved:state': 'fdea5c6c4d918263',
    'edited:saved:bytes': '9f91deb3f31599ab',
    'edited:saved:state': 'aa45ce156eb7a7f2',
    'no-effect:saved:bytes': 'ee310b26860b8d4d',
    'no-effect:saved:state': '5739ba0a4cb59039',
    'nested-effect:saved:bytes': 'ac09568168ce023a',
    'nested-effect:saved:state': 'db66996fec1808a3',
    'badsign:loaded:bytes': 'e3b0c44298fc1c14',
    'badsign:loaded:state': '05d219f5c1acff91',
    'badsign:saved:bytes': '5c83f62634b47a13',
    'badsign:saved:state': '05d219f5c1acff91',
    'badsign:edited-saved:bytes': '5c83f62634b47a13',
    'badsign:edited-saved:state': '05d219f5c1acff91',
    'pad0:loaded:bytes': 'e3b0c44298fc1c14',
    'pad0:loaded:state': 'fdea5c6c4d918263',
    'pad0:saved:bytes': '3b0f2915c2ec0456',
    'pad0:saved:state': 'fdea5c6c4d918263',
    'pad1:loaded:bytes': 'e3b0c44298fc1c14',
    'pad1:loaded:state': 'f8e3f996f1893483',
    'pad1:saved:bytes': '4871bffb9b8daefa',
    'pad1:saved:state': 'f8e3f996f1893483',
    'pad4:loaded:bytes': 'e3b0c44298fc1c14',
    'pad4:loaded:state': 'd83d9fb4b8fbdbbd',
    'pad4:saved:bytes': '617d6ba06ded829c',
    'pad4:saved:state': 'd83d9fb4b8fbdbbd',
    'pad64:loaded:bytes': 'e3b0c44298fc1c14',
    'pad64:loaded:state': 'a2ad2565fe80a5ae',
    'pad64:saved:bytes': 'ec9b15e86d539f61',
    'pad64:saved:state': 'a2ad2565fe80a5ae',
    'cut184:loaded:bytes': 'e3b0c44298fc1c14',
    'cut184:loaded:state': '0632043f32ad229f',
    'cut184:saved:bytes': '129245352a380a82',
    'cut184:saved:state': '0632043f32ad229f',
    'cut188:loaded:bytes': 'e3b0c44298fc1c14',
    'cut188:loaded:state': '0632043f32ad229f',
    'cut188:saved:bytes': '129245352a380a82',
    'cut188:saved:state': '0632043f32ad229f',
    'cut18c:loaded:bytes': 'e3b0c44298fc1c14',
    'cut18c:loaded:state': 'fdea5c6c4d918263',
    'cut18c:saved:bytes': '3b0f2915c2ec0456',
    'cut18c:saved:state': 'fdea5c6c4d918263',
    'cut18e:loaded:bytes': 'e3b0c44298fc1c14',
    'cut18e:loaded:state': 'fdea5c6c4d918263',
    'cut18e:saved:bytes': '3b0f2915c2ec0456',
    'cut18e:saved:state': 'fdea5c6c4d918263',
    'dup-ok-ok:loaded:bytes': 'e3b0c44298fc1c14',
    'dup-ok-ok:loaded:state': 'fdea5c6c4d918263',
    'dup-ok-ok:saved:bytes': '3b0f2915c2ec0456',
    'dup-ok-ok:saved:state': 'fdea5c6c4d918263',
    'dup-bad-ok:loaded:bytes': 'e3b0c44298fc1c14',
    'dup-bad-ok:loaded:state': '6f83d354d76a30b5',
    'dup-bad-ok:saved:bytes': 'aca875deb7431b0e',
    'dup-bad-ok:saved:state': '6f83d354d76a30b5',
    'norecord:saved:bytes': '149cdf0f9c8cd2c9',
    'norecord:saved:state': 'b5adcdd6bb099268',
    'noenv:loaded:bytes': 'e3b0c44298fc1c14',
    'noenv:loaded:state': 'ec701b5ee46f2534',
    'noenv:saved:bytes': '064a013266a6f66d',
    'noenv:saved:state': 'ae27bc38c601e0cb',
    'noeffect:loaded:bytes': 'e3b0c44298fc1c14',
    'noeffect:loaded:state': '5739ba0a4cb59039',
    'noeffect:saved:bytes': 'ee310b26860b8d4d',
    'noeffect:saved:state': '5739ba0a4cb59039',
    'noopts:loaded:bytes': 'e3b0c44298fc1c14',
    'noopts:loaded:state': 'b5d35e5559b62f45',
    'noopts:saved:bytes': 'a8a375a34b8475b4',
    'noopts:saved:state': 'b5d35e5559b62f45',
    'nosample1:loaded:bytes': 'e3b0c44298fc1c14',
    'nosample1:loaded:state': '3e2d1289970cf128',
    'nosample1:saved:bytes': '4277c753e90579bf',
    'nosample1:saved:state': '3e2d1289970cf128',
    'extra:loaded:bytes': 'e3b0c44298fc1c14',
    'extra:loaded:state': 'fdea5c6c4d918263',
    'extra:saved:bytes': '3b0f2915c2ec0456',
    'extra:saved:state': 'fdea5c6c4d918263',
    'extra-legacy:loaded:bytes': 'e3b0c44298fc1c14',
    'extra-legacy:loaded:state': '2b9cb519ee437b2d',
    'extra-legacy:saved:bytes': '5e98101574d2c8d1',
    'extra-legacy:saved:state': '2b9cb519ee437b2d',
    'fresh:saved:bytes': 'c665ea9372f6fad3',
    'fresh:saved:state': '4fe83a9f54bee485',
    'project:saved:bytes': 'abec533de916aefe',
    'project:saved:state': 'fdea5c6c4d918263',
    'project:saved-legacy:bytes': 'e3b0c44298fc1c14',
    'project:saved-legacy:state': '05d219f5c1acff91',
}

if "--record" in sys.argv:
    for k, v in RESULTS.items():
        print(f"    {k!r}: {v!r},")
    sys.exit(0)

for k, v in RESULTS.items():
    if EXPECTED.get(k) != v:
        FAILURES.append(f"digest {k}: {v} != {EXPECTED.get(k)}")
check(set(EXPECTED) == set(RESULTS), "digest key sets differ")

if FAILURES:
    print("FAIL")
    for f in FAILURES:
        print("  -", f)
    sys.exit(1)
print("PASS")
