"""Behaviour check for the SunVoxReader.process_end_of_file() / Pattern tidy-up.

Part A re-implements the end-of-file link reconstruction long-hand on plain
records, snapshots the state of every module right before the library runs
its own end-of-file step, and compares the two results (or the two exception
types) over generated and hand-damaged .sunvox byte streams.

Part B checks Pattern.raw_data (getter and setter), set_via_fn and
set_via_gen against values computed with struct directly.

Run:  cd <root> && PYTHONPATH=<root>/src/python /venv/bin/python check.py
"""
import glob
import logging
import os
import random
import struct
import sys
from io import BytesIO
from struct import pack, unpack

from rv.api import NOTECMD, Note, Pattern, PatternClone, Project, m, read_sunvox_file
from rv.lib.iff import chunks as read_chunks
from rv.lib.iff import write_chunk
from rv.modules import MODULE_CLASSES
from rv.readers.reader import ReaderFinished
from rv.readers.sunvox import SunVoxReader

FAILURES = []
WARNINGS = []


class _Collect(logging.Handler):
    def emit(self, record):
        if record.levelno >= logging.WARNING and record.name == "rv.readers.sunvox":
            WARNINGS.append(record.getMessage())


logging.getLogger("rv.readers.sunvox").addHandler(_Collect())
logging.getLogger("rv.readers.sunvox").propagate = False
logging.getLogger().addHandler(logging.NullHandler())
for noisy in ("rv.readers.reader", "rv.readers.module", "rv.modules.module"):
    logging.getLogger(noisy).disabled = True


def expect(cond, label):
    if not cond:
        FAILURES.append(label)
        print("FAIL:", label)


# --------------------------------------------------------------------------
# Part A: reference end-of-file processing on plain records
# --------------------------------------------------------------------------
class Rec:
    def __init__(self, mod):
        self.index = mod.index
        self.in_links = list(mod.in_links)
        self.in_link_slots = list(mod.in_link_slots)
        self.out_links = list(mod.out_links)
        self.out_link_slots = list(mod.out_link_slots)

    def state(self):
        return (self.index, self.in_links, self.in_link_slots, self.out_links, self.out_link_slots)


def reference_end_of_file(recs, version, pattern_modules):
    """recs: list of Rec/None.  Returns (recs, warnings, pattern_modules)."""
    warnings = []
    while len(recs) > 0 and recs[len(recs) - 1] is None:
        del recs[len(recs) - 1]
    order = recs[1:] + recs[:1]
    for r in order:
        if r is None:
            continue
        if len(r.in_link_slots) != 0:
            continue
        i = 0
        while i < len(r.in_links):
            num = r.in_links[i]
            i += 1
            if num == -1:
                r.in_link_slots.append(-1)
                continue
            if num >= len(recs):
                warnings.append(
                    "Found SLNK on %r referencing non-existent module %r" % (r.index, num)
                )
                continue
            other = recs[num]
            a = len(other.out_link_slots)  # AttributeError if other is None
            b = len(r.in_link_slots)
            r.in_link_slots.append(a)
            other.out_links.append(r.index)
            other.out_link_slots.append(b)
    for r in recs:
        if r is None:
            continue
        i = 0
        while i < len(r.in_links):
            slot = r.in_link_slots[i]
            src = recs[r.in_links[i]]
            if src is None:
                raise RuntimeError()
            while slot >= len(src.out_links):
                src.out_links.append(-1)
            while slot >= len(src.out_link_slots):
                src.out_link_slots.append(-1)
            if slot != -1:
                src.out_links[slot] = r.index
                src.out_link_slots[slot] = i
            i += 1
    if version < (1, 9, 5, 0):
        pattern_modules = [
            None if mods is None else [v % 256 for v in mods] for mods in pattern_modules
        ]
    return recs, warnings, pattern_modules


class SnapshotReader(SunVoxReader):
    """Records the state of the project just before end-of-file processing."""

    def process_end_of_file(self):
        project = self.object
        self.snapshot = [None if mod is None else Rec(mod) for mod in project.modules]
        self.snapshot_version = project.loaded_sunvox_version
        self.snapshot_pattern_modules = [
            [note.module for line in pat.data for note in line] if isinstance(pat, Pattern) else None
            for pat in project.patterns
        ]
        super().process_end_of_file()


def load_with_snapshot(data):
    f = BytesIO(data)
    first = f.read(8)
    assert first == b"SVOX" + b"\0" * 4, first
    reader = SnapshotReader(f)
    error = None
    project = None
    try:
        project = reader.object
    except Exception as e:  # noqa
        error = e
    return reader, project, error


def compare_with_reference(data, label, expect_error=None, expect_warning=None):
    del WARNINGS[:]
    reader, project, error = load_with_snapshot(data)
    if not hasattr(reader, "snapshot"):
        expect(False, label + ": never reached end of file (%r)" % (error,))
        return None
    ref_error = None
    try:
        recs, ref_warnings, ref_pmods = reference_end_of_file(
            reader.snapshot, reader.snapshot_version, reader.snapshot_pattern_modules
        )
    except Exception as e:  # noqa
        ref_error = e
    expect(type(error) is type(ref_error), label + ": error %r vs reference %r" % (error, ref_error))
    if expect_error is not None:
        expect(type(error) is expect_error, label + ": expected %s, got %r" % (expect_error.__name__, error))
    else:
        expect(error is None, label + ": unexpected error %r" % (error,))
    if expect_warning is not None:
        expect(any(expect_warning in w for w in WARNINGS), label + ": expected warning, got %r" % WARNINGS)
    if error is not None or ref_error is not None:
        return None
    expect(WARNINGS == ref_warnings, label + ": warnings %r vs %r" % (WARNINGS, ref_warnings))
    got = [None if mod is None else Rec(mod).state() for mod in project.modules]
    want = [None if r is None else r.state() for r in recs]
    expect(got == want, label + ": link tables equal reference\n  got  %r\n  want %r" % (got, want))
    got_pmods = [
        [note.module for line in pat.data for note in line] if isinstance(pat, Pattern) else None
        for pat in project.patterns
    ]
    expect(got_pmods == ref_pmods, label + ": pattern module numbers equal reference")
    return project


def rewrite(data, fn):
    """Apply fn(list of [name, data]) to the chunk list of a .sunvox byte string."""
    items = [[name, body] for name, body in read_chunks(BytesIO(data))]
    items = fn(items) or items
    out = BytesIO()
    for name, body in items:
        write_chunk(out, name, body)
    return out.getvalue()


def drop(tag):
    return lambda items: [it for it in items if it[0] != tag]


def set_version(version):
    def fn(items):
        for it in items:
            if it[0] == b"VERS":
                it[1] = bytes(reversed(version))

    return fn


def nth(tag, n, new_body):
    def fn(items):
        seen = -1
        for it in items:
            if it[0] == tag:
                seen += 1
                if seen == n:
                    it[1] = new_body

    return fn


ATTACHABLE = sorted(k for k in MODULE_CLASSES if k != "Output")


def random_project(rng, n):
    p = Project()
    mods = [p.output]
    for _ in range(n):
        if rng.random() < 0.2:
            p.attach_module(None)
        mods.append(p.new_module(MODULE_CLASSES[rng.choice(ATTACHABLE)]))
    for _ in range(n * 3):
        a, b = rng.choice(mods), rng.choice(mods)
        if a is b:
            continue
        if rng.random() < 0.2:
            p.connect(~a, b)
        else:
            p.connect(a, b)
    for _ in range(rng.randrange(0, 4)):
        r = rng.random()
        if r < 0.25:
            p.attach_pattern(None)
        elif r < 0.4 and p.patterns and isinstance(p.patterns[0], Pattern):
            p.attach_pattern(PatternClone(source=0))
        else:
            pat = Pattern(tracks=rng.randrange(1, 5), lines=rng.randrange(1, 7))
            for line in pat.data:
                for note in line:
                    note.module = rng.choice([0, 1, 255, 256, 257, 0x1234, 0xFFFF])
            p.attach_pattern(pat)
    for _ in range(rng.randrange(0, 3)):
        p.attach_module(None)  # trailing empty slots
    return p


def part_a():
    rng = random.Random(8128)

    # fixtures shipped with the test-suite
    root = os.getcwd()
    files = sorted(glob.glob(os.path.join(root, "tests", "files", "**", "*.sunvox"), recursive=True))
    expect(len(files) >= 4, "fixtures found (run from the repository root)")
    for path in files:
        with open(path, "rb") as f:
            data = f.read()
        compare_with_reference(data, "fixture " + os.path.basename(path))
        for v in [(1, 9, 4, 9), (1, 9, 5, 0), (1, 7, 0, 0)]:
            compare_with_reference(rewrite(data, set_version(v)), "fixture %s as %r" % (os.path.basename(path), v))
        compare_with_reference(rewrite(data, drop(b"SLnK")), "fixture %s without SLnK" % os.path.basename(path))

    # generated projects: as written, without SLnK, as legacy version
    for i in range(60):
        p = random_project(rng, rng.randrange(0, 9))
        data = p.read()
        q = compare_with_reference(data, "random %d" % i)
        if q is not None:
            expect(all(mod is not None for mod in q.modules[-1:]), "random %d: trailing empty slots dropped" % i)
            expect(len(q.modules) == len(p.modules) - _trailing_nones(p.modules), "random %d: module count" % i)
        compare_with_reference(rewrite(data, drop(b"SLnK")), "random %d no SLnK" % i)
        old = compare_with_reference(rewrite(data, set_version((1, 9, 4, 255))), "random %d legacy" % i)
        if old is not None:
            for pat in old.patterns:
                if isinstance(pat, Pattern):
                    expect(all(n.module < 256 for line in pat.data for n in line), "random %d legacy: high byte cleared" % i)
        new = compare_with_reference(rewrite(data, set_version((1, 9, 5, 0))), "random %d 1.9.5.0" % i)
        if new is not None and q is not None:
            expect(
                [pat.raw_data if isinstance(pat, Pattern) else None for pat in new.patterns]
                == [pat.raw_data if isinstance(pat, Pattern) else None for pat in q.patterns],
                "random %d 1.9.5.0: pattern data untouched" % i,
            )

    # hand-made link tables
    p = Project()
    a = p.new_module(m.Generator)
    b = p.new_module(m.Generator)
    c = p.new_module(m.Amplifier)
    p.connect([a, b], c)
    p.connect(c, p.output)
    p.connect(a, p.output)
    base = p.read()
    compare_with_reference(base, "hand: base")
    # module order in file: output(0) a(1) b(2) c(3); SLNK index == module index
    i32 = lambda *v: pack("<%di" % len(v), *v)  # noqa
    no_slots = rewrite(base, drop(b"SLnK"))
    compare_with_reference(rewrite(no_slots, nth(b"SLNK", 3, i32(1, -1, 2))), "hand: hole in the middle")
    compare_with_reference(rewrite(no_slots, nth(b"SLNK", 3, i32(-1, 1, 2))), "hand: hole first")
    compare_with_reference(rewrite(no_slots, nth(b"SLNK", 3, i32(1, 1, 1))), "hand: same source three times")
    compare_with_reference(rewrite(no_slots, nth(b"SLNK", 3, i32(3))), "hand: self link")
    compare_with_reference(rewrite(no_slots, nth(b"SLNK", 0, i32(3, 1, 2))), "hand: output fed by all")
    compare_with_reference(rewrite(no_slots, nth(b"SLNK", 3, i32(1, -2))), "hand: negative index other than -1")
    compare_with_reference(
        rewrite(no_slots, nth(b"SLNK", 3, i32(1, 9))),
        "hand: link to non-existent module",
        expect_error=IndexError,
        expect_warning="Found SLNK on 3 referencing non-existent module 9",
    )
    # explicit slot tables
    with_slots = rewrite(
        base,
        lambda items: [it for it in items if it[0] != b"SLnK"],
    )

    def add_slots(n, links, slots):
        def fn(items):
            seen = -1
            out = []
            for it in items:
                if it[0] == b"SLNK":
                    seen += 1
                    if seen == n:
                        out.append([b"SLNK", i32(*links)])
                        out.append([b"SLnK", i32(*slots)])
                        continue
                out.append(it)
            return out

        return fn

    compare_with_reference(rewrite(with_slots, add_slots(3, (1, 2), (5, 0))), "hand: large slot pads out_links")
    compare_with_reference(rewrite(with_slots, add_slots(3, (1, 2), (0, 0))), "hand: zero slots given explicitly")
    compare_with_reference(rewrite(with_slots, add_slots(3, (1, -1, 2), (1, -1, 3))), "hand: -1 link with -1 slot")
    compare_with_reference(rewrite(with_slots, add_slots(3, (1, -1, 2), (1, 2, 3))), "hand: -1 link with real slot")
    compare_with_reference(
        rewrite(with_slots, add_slots(3, (1, 2, 1), (0, 1))), "hand: slot table too short", expect_error=IndexError
    )

    # links into an empty slot
    p = Project()
    p.attach_module(None)
    g = p.new_module(m.Generator)
    assert g.index == 1 or True
    p2 = Project()
    x = p2.new_module(m.Generator)
    y = p2.new_module(m.Generator)
    z = p2.new_module(m.Amplifier)
    p2.connect(x, z)
    p2.connect(y, z)
    p2.connect(z, p2.output)
    data = p2.read()

    def blank_module(n):
        # replace the n-th module by an empty slot (keep only its SEND)
        def fn(items):
            out, mod_no, inside = [], -1, False
            for it in items:
                if it[0] == b"SFFF":
                    mod_no += 1
                    inside = True
                if inside and mod_no == n and it[0] != b"SEND":
                    continue
                if it[0] == b"SEND":
                    inside = False
                out.append(it)
            return out

        return fn

    compare_with_reference(
        rewrite(data, blank_module(1)), "hand: link to empty slot, no slots", expect_error=AttributeError
    )
    damaged = rewrite(rewrite(data, blank_module(1)), add_slots(2, (1, 2), (0, 0)))
    compare_with_reference(damaged, "hand: link to empty slot, slots given", expect_error=RuntimeError)
    compare_with_reference(rewrite(data, blank_module(3)), "hand: last module blanked -> trimmed, output link dangling", expect_error=IndexError)

    # public entry point agrees with the direct reader
    for i in range(10):
        p = random_project(rng, 6)
        data = p.read()
        q = read_sunvox_file(BytesIO(data))
        _, r, err = load_with_snapshot(data)
        expect(err is None and r.read() == q.read(), "api %d: same result through read_sunvox_file" % i)
        expect(q.read() == read_sunvox_file(BytesIO(q.read())).read(), "api %d: stable" % i)


def _trailing_nones(seq):
    n = 0
    for item in reversed(seq):
        if item is not None:
            break
        n += 1
    return n


# --------------------------------------------------------------------------
# Part B: Pattern data
# --------------------------------------------------------------------------
def part_b():
    rng = random.Random(4096)
    for tracks, lines in [(1, 1), (1, 5), (5, 1), (4, 32), (3, 7), (32, 2)]:
        cells = []
        for _ in range(tracks * lines):
            cells.append(
                (
                    rng.choice([0, 1, 60, 120, 128, 129, 133]),
                    rng.randrange(0, 130),
                    rng.randrange(0, 0x10000),
                    rng.randrange(0, 0x10000),
                    rng.randrange(0, 0x10000),
                )
            )
        raw = b"".join(pack("<BBHHH", *cell) for cell in cells)
        label = "pattern %dx%d" % (tracks, lines)
        pat = Pattern(tracks=tracks, lines=lines)
        pat.raw_data = raw
        expect(pat.raw_data == raw, label + ": raw_data round trip")
        for k, cell in enumerate(cells):
            note = pat.data[k // tracks][k % tracks]
            got = (int(note.note), note.vel, note.module, note.ctl, note.val)
            expect(got == cell, label + ": cell %d" % k)
            expect(note.pattern is pat, label + ": note.pattern")
        # extra bytes at the end are ignored
        pat2 = Pattern(tracks=tracks, lines=lines)
        pat2.raw_data = raw + b"\xff" * 11
        expect(pat2.raw_data == raw, label + ": trailing bytes ignored")
        # bytearray / memoryview input
        pat3 = Pattern(tracks=tracks, lines=lines)
        pat3.raw_data = memoryview(bytearray(raw))
        expect(pat3.raw_data == raw, label + ": memoryview input")
        # short input: notes before the cut are set, then struct.error
        cut = (tracks * lines // 2) * 8 + 3
        pat4 = Pattern(tracks=tracks, lines=lines)
        try:
            pat4.raw_data = raw[:cut]
            expect(False, label + ": short input should raise")
        except struct.error:
            pass
        flat = [n for line in pat4.data for n in line]
        done = cut // 8
        expect(
            b"".join(n.raw_data for n in flat[:done]) == raw[: done * 8], label + ": notes before the cut were set"
        )
        expect(all(n.raw_data == b"\0" * 8 for n in flat[done:]), label + ": notes after the cut untouched")
        # through a file
        p = Project()
        p.attach_pattern(pat)
        q = read_sunvox_file(BytesIO(p.read()))
        expect(q.patterns[0].raw_data == raw, label + ": file round trip")
        expect(q.patterns[0].tracks == tracks and q.patterns[0].lines == lines, label + ": shape")

    # empty default data
    pat = Pattern(tracks=2, lines=3)
    expect(pat.raw_data == b"\0" * 48, "default raw data")
    expect(dict(pat.iff_chunks())[b"PDTA"] == b"\0" * 48, "default PDTA")

    # set_via_fn
    pat = Pattern(tracks=3, lines=4)
    before = pat.data
    calls = []

    def fn(pattern, line, track):
        calls.append((line, track))
        expect(pattern is pat, "set_via_fn: receives pattern")
        expect(pattern.data is before, "set_via_fn: old data visible while running")
        return Note(note=NOTECMD.C4, vel=line + 1, module=track + 1)

    ret = pat.set_via_fn(fn)
    expect(ret is pat, "set_via_fn: returns pattern")
    expect(calls == [(l, t) for l in range(4) for t in range(3)], "set_via_fn: call order")
    expect(pat.data is not before, "set_via_fn: new array installed")
    expect(all(n.pattern is pat for line in pat.data for n in line), "set_via_fn: notes adopted")
    expect(
        [[(n.vel, n.module) for n in line] for line in pat.data]
        == [[(l + 1, t + 1) for t in range(3)] for l in range(4)],
        "set_via_fn: contents",
    )

    def bad_fn(pattern, line, track):
        if (line, track) == (2, 1):
            raise KeyError("boom")
        return Note(vel=99)

    kept = pat.data
    kept_raw = pat.raw_data
    try:
        pat.set_via_fn(bad_fn)
        expect(False, "set_via_fn: error should propagate")
    except KeyError:
        pass
    expect(pat.data is kept and pat.raw_data == kept_raw, "set_via_fn: data kept on error")

    # set_via_gen
    pat = Pattern(tracks=2, lines=2)
    before = pat.data

    def gen(pattern, new):
        expect(new is not before and len(new) == 2 and len(new[0]) == 2, "set_via_gen: gets a copy")
        yield 0, 1, Note(note=NOTECMD.D4, vel=5)
        expect(new[0][1].vel == 5, "set_via_gen: intermediate state visible")
        expect(pattern.data is before, "set_via_gen: not committed yet")
        yield 1, 0, Note(note=NOTECMD.E4, vel=6)

    ret = pat.set_via_gen(gen)
    expect(ret is pat, "set_via_gen: returns pattern")
    expect([[n.vel for n in line] for line in pat.data] == [[0, 5], [6, 0]], "set_via_gen: contents")
    expect(all(n.pattern is pat for line in pat.data for n in line), "set_via_gen: notes adopted")
    expect(pat.data is not before, "set_via_gen: new array installed")

    def bad_gen(pattern, new):
        yield 0, 0, Note(vel=77)
        raise ValueError("boom")

    kept = pat.data
    try:
        pat.set_via_gen(bad_gen)
        expect(False, "set_via_gen: error should propagate")
    except ValueError:
        pass
    expect(pat.data is kept and pat.data[0][0].vel == 0, "set_via_gen: data kept on error")

    def empty_gen(pattern, new):
        return iter(())

    kept = pat.data
    pat.set_via_gen(empty_gen)
    expect(pat.data is not kept and pat.raw_data == b"".join(n.raw_data for l in kept for n in l), "set_via_gen: empty generator copies")


def main():
    part_a()
    part_b()
    if FAILURES:
        print("%d check(s) failed" % len(FAILURES))
        sys.exit(1)
    print("PASS")


if __name__ == "__main__":
    main()
