"""Behaviour check for SunVoxReader.process_end_of_file: trailing empty
modules are dropped, missing in_link_slots are inferred, out_links and
out_link_slots are rebuilt from the incoming tables, and module numbers in
patterns of pre-1.9.5 files are masked.

Files are hand-crafted so that the SLnK chunk is present, absent, or present
for only some modules, including malformed tables; the loaded link tables (or
the exception type) are compared with a reference model.

Run from the repository root:
    PYTHONPATH=<root>/src/python python check.py
"""
import logging
import random
import sys
from io import BytesIO
from struct import pack

from rv.api import NOTE, Pattern, PatternClone, Project, m, read_sunvox_file
from rv.lib.iff import write_chunk

FAILURES = []


def check(cond, msg):
    if not cond:
        FAILURES.append(msg)


def ints(*values):
    return pack("<" + "i" * len(values), *values)


def strip(values):
    values = list(values)
    while values[-1:] == [-1]:
        values.pop()
    return values


# --------------------------------------------------------------------------
# reference model
# --------------------------------------------------------------------------
class RefMod:
    def __init__(self, index, links, slots):
        self.index = index
        self.in_links = strip(links)
        self.in_link_slots = strip(slots or [])
        self.out_links = []
        self.out_link_slots = []


def ref_load(spec):
    """spec: list of None | (links, slots-or-None). Returns (kind, payload, warnings)."""
    modules = [None if s is None else RefMod(i, s[0], s[1]) for i, s in enumerate(spec)]
    warnings = []
    try:
        while modules and modules[-1] is None:
            modules.pop()
        for mod in modules[1:] + modules[:1]:
            if not mod or mod.in_link_slots:
                continue
            for num in mod.in_links:
                if num == -1:
                    mod.in_link_slots.append(-1)
                    continue
                if num >= len(modules):
                    warnings.append((mod.index, num))
                    continue
                other = modules[num]
                in_slot = len(other.out_link_slots)
                out_slot = len(mod.in_link_slots)
                mod.in_link_slots.append(in_slot)
                other.out_links.append(mod.index)
                other.out_link_slots.append(out_slot)
        for mod in modules:
            if not mod:
                continue
            for i, src in enumerate(mod.in_links):
                j = mod.in_link_slots[i]
                src_mod = modules[src]
                if not src_mod:
                    raise RuntimeError()
                while j >= len(src_mod.out_links):
                    src_mod.out_links.append(-1)
                while j >= len(src_mod.out_link_slots):
                    src_mod.out_link_slots.append(-1)
                if j != -1:
                    src_mod.out_links[j] = mod.index
                    src_mod.out_link_slots[j] = i
    except Exception as e:  # noqa
        return "error", type(e), warnings
    return "ok", [
        None if mod is None else
        (mod.in_links, mod.in_link_slots, mod.out_links, mod.out_link_slots)
        for mod in modules
    ], warnings


# --------------------------------------------------------------------------
# crafting files
# --------------------------------------------------------------------------
def craft(spec, version=None, patterns=()):
    project = Project()
    if version is not None:
        project.sunvox_version = version
    for pattern in patterns:
        project.attach_pattern(pattern)
    for _ in range(len(spec) - 1):
        project.new_module(m.Amplifier)
    out = []
    index = 0
    for name, data in project.chunks():
        if name is None:
            continue
        entry = spec[index] if index < len(spec) else None
        if name == b"SEND":
            index += 1
            out.append((name, data))
            continue
        if entry is None:
            continue  # empty module slot (never slot 0): only its SEND remains
        if name == b"SLNK":
            links, slots = entry
            out.append((b"SLNK", ints(*links)))
            if slots is not None:
                out.append((b"SLnK", ints(*slots)))
            continue
        if name == b"SLnK":
            continue
        out.append((name, data))
    f = BytesIO()
    for name, data in out:
        write_chunk(f, name, data)
    f.seek(0)
    return f


class Capture(logging.Handler):
    def __init__(self):
        super().__init__()
        self.records = []

    def emit(self, record):
        self.records.append(record)


def lib_load(spec, **kw):
    logger = logging.getLogger("rv.readers.sunvox")
    cap = Capture()
    logger.addHandler(cap)
    old = logger.level
    logger.setLevel(logging.WARNING)
    try:
        try:
            project = read_sunvox_file(craft(spec, **kw))
        except Exception as e:  # noqa
            kind, payload = "error", type(e)
        else:
            kind, payload = "ok", [
                None if mod is None else
                (mod.in_links, mod.in_link_slots, mod.out_links, mod.out_link_slots)
                for mod in project.modules
            ]
            for i, mod in enumerate(project.modules):
                if mod is not None:
                    check(mod.index == i and mod.parent is project, "module index/parent")
    finally:
        logger.removeHandler(cap)
        logger.setLevel(old)
    warnings = [r.args for r in cap.records if r.levelno == logging.WARNING]
    for r in cap.records:
        if r.levelno == logging.WARNING:
            check(r.msg == "Found SLNK on %r referencing non-existent module %r", "warning text")
    return kind, payload, warnings


def compare(spec, label):
    got = lib_load(spec)
    want = ref_load(spec)
    check(got[0] == want[0], "%s: outcome %r vs %r for %r" % (label, got[:2], want[:2], spec))
    check(got[1] == want[1], "%s: tables %r vs %r for %r" % (label, got[1], want[1], spec))
    check([tuple(w) for w in got[2]] == want[2], "%s: warnings %r vs %r" % (label, got[2], want[2]))
    return got


# --------------------------------------------------------------------------
# tests
# --------------------------------------------------------------------------
def test_explicit_specs():
    E = ([], None)
    cases = {
        "single output": [E],
        "chain, no slots": [([2], None), E, ([1], None)],
        "fan-in to output, no slots": [([1, 2, 3], None), E, E, E],
        "fan-out from 1, no slots": [E, E, ([1], None), ([1], None), ([1], None)],
        "fan-out from 1, explicit reversed slots":
            [E, E, ([1], [2]), ([1], [1]), ([1], [0])],
        "fan-out, slots only on one module":
            [E, E, ([1], None), ([1], [3]), ([1], None)],
        "fan-out, explicit slot collides with inferred":
            [E, E, ([1], None), ([1], [0]), ([1], None)],
        "hole in the middle of in_links":
            [([1, -1, 2], None), E, E],
        "hole with explicit slots":
            [([1, -1, 2], [0, -1, 0]), E, E],
        "leading holes":
            [([-1, -1, 2], None), E, E],
        "trailing holes are stripped":
            [([1, 2, -1, -1], None), E, E],
        "trailing holes stripped from both tables":
            [([1, 2, -1, -1], [1, 0, -1, -1]), E, ([1], [0])],
        "cycle": [([3], None), ([3], None), ([1], None), ([2], None)],
        "self loop": [([1], None), ([1, 0], None)],
        "output feeds a module": [E, ([0], None)],
        "duplicate source": [([1, 1], None), E],
        "empty slot between modules": [([3], None), E, None, ([1], None)],
        "trailing empty slots": [([1], None), E, None, None],
        "only empty slots after the output": [E, None, None],
        "all slots zero but explicit": [([1, 2], [0, 0]), E, E],
        "sparse explicit slot": [([1], [4]), E],
        "explicit slot on a hole (unused)": [([-1, 1], [-1, 0]), E],
        # malformed tables
        "link to a module beyond the end": [([5], None), E],
        "link beyond the end, explicit slot": [([5], [0]), E],
        "link to an empty slot, inferred": [([2], None), E, None, E],
        "link to an empty slot, explicit": [([2], [1]), E, None, E],
        "SLnK shorter than SLNK": [([1, 2], [1]), E, E],
        "SLnK longer than SLNK": [([1], [1, 0, 2]), E, E],
        "hole with a used slot": [([-1, 1], [2, 0]), E, E],
        "negative source below -1": [([-2], None), E, E],
        "negative slot below -1": [([1], [-2]), ([0, 0], None)],
        "negative slot below -1, empty target": [([1], [-2]), E],
    }
    outcomes = {}
    for label, spec in cases.items():
        outcomes[label] = compare(spec, label)

    # a few results spelled out, so the model itself is pinned down
    def ok(label):
        kind, payload, _ = outcomes[label]
        check(kind == "ok", label + " should load")
        return payload if kind == "ok" else None

    check(ok("chain, no slots") == [
        ([2], [0], [], []), ([], [], [2], [0]), ([1], [0], [0], [0]),
    ], "chain tables")
    check(ok("fan-out from 1, explicit reversed slots")[1] == ([], [], [4, 3, 2], [0, 0, 0]),
          "explicit reversed slots")
    check(ok("fan-out, slots only on one module")[1] == ([], [], [2, 4, -1, 3], [0, 0, -1, 0]),
          "partial explicit slots")
    check(ok("hole in the middle of in_links")[0] == ([1, -1, 2], [0, -1, 0], [], []),
          "inferred slot for a hole is -1")
    check(ok("trailing holes are stripped")[0][0] == [1, 2], "trailing holes stripped")
    check(len(ok("trailing empty slots")) == 2, "trailing empty modules dropped")
    check(len(ok("only empty slots after the output")) == 1, "only output left")
    check(ok("empty slot between modules")[2] is None, "inner empty slot kept")
    check(ok("sparse explicit slot")[1] == ([], [], [-1, -1, -1, -1, 0], [-1, -1, -1, -1, 0]),
          "sparse slot pads with -1")
    check(ok("self loop") == [
        ([1], [1], [1], [1]), ([1, 0], [0, 0], [1, 0], [0, 0]),
    ], "self loop tables")
    check(outcomes["link to a module beyond the end"][:2] == ("error", IndexError), "beyond the end")
    check(outcomes["link to a module beyond the end"][2] == [(0, 5)], "beyond the end warns")
    check(outcomes["link beyond the end, explicit slot"][:2] == ("error", IndexError), "beyond, explicit")
    check(outcomes["link beyond the end, explicit slot"][2] == [], "no warning with explicit slots")
    check(outcomes["link to an empty slot, inferred"][:2] == ("error", AttributeError), "empty inferred")
    check(outcomes["link to an empty slot, explicit"][:2] == ("error", RuntimeError), "empty explicit")
    check(outcomes["SLnK shorter than SLNK"][:2] == ("error", IndexError), "short SLnK")


def test_random_specs():
    rng = random.Random(303)
    for k in range(400):
        n = rng.randint(1, 6)
        well_formed = rng.random() < 0.7
        spec = []
        for i in range(n):
            if i and rng.random() < 0.12:
                spec.append(None)
                continue
            count = rng.choice([0, 0, 1, 2, 3, 4])
            pool = [-1] + list(range(n)) if well_formed else [-1, -2] + list(range(n + 2))
            links = [rng.choice(pool) for _ in range(count)]
            mode = rng.random()
            if mode < 0.5:
                slots = None
            else:
                slots = [(-1 if (l == -1 and well_formed) else rng.choice([-1, 0, 0, 1, 2, 3, 5]))
                         for l in links]
                if not well_formed and rng.random() < 0.2 and slots:
                    slots.pop()
            spec.append((links, slots))
        compare(spec, "random %d" % k)


def test_api_roundtrips():
    rng = random.Random(44)
    for k in range(80):
        project = Project()
        mods = [project.output] + [
            project.new_module(rng.choice([m.Amplifier, m.MultiCtl, m.Reverb]))
            for _ in range(rng.randint(2, 6))
        ]
        for _ in range(rng.randint(0, 24)):
            src, dst = rng.choice(mods[1:]), rng.choice(mods)
            if rng.random() < 0.3:
                project.connect(~src, dst)
            else:
                project.connect(src, dst)
        loaded = read_sunvox_file(BytesIO(project.read()))
        for before, after in zip(project.modules, loaded.modules):
            for attr in ("in_links", "in_link_slots", "out_links", "out_link_slots"):
                check(strip(getattr(before, attr)) == strip(getattr(after, attr)),
                      "roundtrip %d %s" % (k, attr))
            check(after.in_links == strip(before.in_links), "in_links exact")
        spec = [(list(mod.in_links), list(mod.in_link_slots)) for mod in project.modules]
        compare(spec, "api graph %d explicit" % k)
        spec = [(list(mod.in_links), None) for mod in project.modules]
        compare(spec, "api graph %d inferred" % k)


def test_legacy_pattern_masking():
    def make_patterns():
        pat = Pattern(tracks=2, lines=3)
        pat.data[0][0].note = NOTE.C4
        pat.data[0][0].module = 0x0105
        pat.data[1][1].module = 0xFF00
        pat.data[2][0].module = 0x00FE
        return [pat, None, PatternClone(source=0, x=16)]

    E = ([], None)
    for version, masked in [
        ((1, 9, 4, 9), True),
        ((1, 9, 5, 0), False),
        ((1, 7, 0, 0), True),
        ((2, 1, 2, 1), False),
        ((0, 255, 255, 255), True),
    ]:
        project = read_sunvox_file(craft([E, E], version=version, patterns=make_patterns()))
        check(project.loaded_sunvox_version == version, "loaded version %r" % (version,))
        pat = project.patterns[0]
        got = [pat.data[0][0].module, pat.data[1][1].module, pat.data[2][0].module, pat.data[0][1].module]
        want = [0x05, 0x00, 0xFE, 0] if masked else [0x0105, 0xFF00, 0x00FE, 0]
        check(got == want, "masking for %r: %r" % (version, got))
        check(pat.data[0][0].note == NOTE.C4, "note kept")
        check(project.patterns[1] is None, "empty pattern kept")
        check(isinstance(project.patterns[2], PatternClone) and project.patterns[2].source == 0,
              "clone kept")
        check(len(project.modules) == 2, "modules loaded")


def test_no_modules_and_versions():
    # header only: no module section at all
    project = Project()
    f = BytesIO()
    for name, data in project.chunks():
        if name == b"SFFF":
            break
        if name == b"BVER":
            continue
        write_chunk(f, name, data)
    f.seek(0)
    loaded = read_sunvox_file(f)
    check(loaded.modules == [], "no modules")
    check(loaded.based_on_version == (1, 7, 0, 0), "legacy based_on_version default")
    loaded = read_sunvox_file(BytesIO(Project().read()))
    check(loaded.based_on_version == (2, 1, 2, 1), "BVER read back")
    check(len(loaded.modules) == 1 and loaded.output is loaded.modules[0], "output attached")


def main():
    test_explicit_specs()
    test_random_specs()
    test_api_roundtrips()
    test_legacy_pattern_masking()
    test_no_modules_and_versions()
    if FAILURES:
        for f in FAILURES[:30]:
            print("FAIL:", f)
        print("%d failure(s)" % len(FAILURES))
        sys.exit(1)
    print("PASS")


if __name__ == "__main__":
    main()
