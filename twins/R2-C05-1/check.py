"""check.py for C05-1: get_raw/set_raw, Range raw conversion and validation.

Runs the C05 property (re-saving is stable, saving is pure) over every fixture and
over fixtures whose CVAL chunks are mutated to in- and out-of-range values, plus
direct unit checks of the touched functions.  All observed bytes, errors and log
records are folded into a digest that was recorded on the unpatched tree.
"""
# ---------------------------------------------------------------------------
# shared harness (copied verbatim into every check.py; standalone on purpose)
# ---------------------------------------------------------------------------
import hashlib
import io
import logging
import struct
import sys
from enum import Enum
from pathlib import Path

import rv
from rv.api import Project, Synth, m, read_sunvox_file
from rv.lib.iff import chunks as iff_chunks

ROOT = Path(rv.__file__).resolve().parents[3]
FILES = ROOT / "tests" / "files"
FAILURES = []


def check(cond, label):
    if not cond:
        FAILURES.append(label)
        print("FAIL:", label)


class _Capture(logging.Handler):
    """Collects (logger, level, message) of everything the library logs."""

    def __init__(self):
        super().__init__(level=logging.INFO)
        self.records = []

    def emit(self, record):
        self.records.append((record.name, record.levelname, record.getMessage()))


CAPTURE = _Capture()
_rvlog = logging.getLogger("rv")
_rvlog.addHandler(CAPTURE)
_rvlog.setLevel(logging.INFO)
_rvlog.propagate = False


def snap(o, path=()):
    """Structural snapshot of an object graph (cycle safe, order preserving)."""
    if isinstance(o, Enum):
        return repr(o)
    if o is None or isinstance(o, (bool, int, float, str, bytes, bytearray)):
        return repr(o)
    if id(o) in path:
        return "<cycle>"
    path = path + (id(o),)
    if isinstance(o, dict):
        return ("dict", tuple((snap(k, path), snap(v, path)) for k, v in o.items()))
    if isinstance(o, (list, tuple)):
        return (type(o).__name__, tuple(snap(x, path) for x in o))
    if isinstance(o, (set, frozenset)):
        return ("set", tuple(sorted(repr(snap(x, path)) for x in o)))
    state = {}
    for klass in type(o).__mro__:
        for s in getattr(klass, "__slots__", ()):
            if hasattr(o, s):
                state[s] = getattr(o, s)
    state.update(getattr(o, "__dict__", {}))
    if not state:
        return repr(o) if type(o).__repr__ is not object.__repr__ else type(o).__name__
    return (type(o).__name__, snap(state, path))


def parse(blob):
    return [(n, d) for n, d in iff_chunks(io.BytesIO(blob))]


def build(chunk_list):
    out = io.BytesIO()
    for n, d in chunk_list:
        out.write(n)
        out.write(struct.pack("<I", len(d)))
        out.write(d)
    return out.getvalue()


def save(obj):
    f = io.BytesIO()
    obj.write_to(f)
    return f.getvalue()


def cycle(blob, n=3):
    """Load/save `blob` n times.  Returns ("ok", [Y1..Yn]) or ("err", type, msg)."""
    outs = []
    cur = blob
    try:
        for _ in range(n):
            obj = read_sunvox_file(io.BytesIO(cur))
            before = snap(obj)
            first = save(obj)
            mid = snap(obj)
            second = save(obj)
            after = snap(obj)
            check(first == second, "saving twice gives identical bytes")
            check(mid == after, "second save leaves the object unchanged")
            outs.append((first, before == mid))
            cur = first
    except Exception as e:  # error behaviour is part of what we pin down
        return ("err", type(e).__name__, str(e), len(outs))
    return ("ok", outs)


class Digest:
    def __init__(self):
        self.h = hashlib.sha256()
        self.n = 0

    def add(self, *parts):
        for p in parts:
            if not isinstance(p, bytes):
                p = repr(p).encode("utf8")
            self.h.update(struct.pack("<I", len(p)))
            self.h.update(p)
        self.n += 1

    def hexdigest(self):
        return self.h.hexdigest()


def fixtures():
    return sorted(
        p for p in FILES.rglob("*") if p.suffix in (".sunvox", ".sunsynth") and p.is_file()
    )


def run_case(digest, label, blob, n=3, stable_from=1):
    """Cycle a blob, assert the C05 property, and fold everything into digest."""
    CAPTURE.records.clear()
    res = cycle(blob, n)
    logs = list(CAPTURE.records)
    if res[0] == "ok":
        outs = res[1]
        ys = [y for y, _ in outs]
        for k in range(stable_from, len(ys)):
            check(ys[k] == ys[stable_from - 1], f"{label}: cycle {k + 1} drifted")
        digest.add(label, "ok", *ys)
        digest.add([pure for _, pure in outs])
    else:
        digest.add(label, *res)
    digest.add(logs)
    return res


def mutate_chunks(blob, tag, fn):
    """Apply fn(index, data) -> data to every chunk named `tag` (flat level)."""
    out = []
    i = 0
    for name, data in parse(blob):
        if name == tag:
            data = fn(i, data)
            i += 1
        out.append((name, data))
    return build(out), i


def single_chunk_cases(blob, tag, payloads, cap=40):
    """Yield (label, blob') with exactly one `tag` chunk replaced at a time."""
    count = sum(1 for n, _ in parse(blob) if n == tag)
    for j in range(min(count, cap)):
        for pi, payload in enumerate(payloads):
            mutated, _ = mutate_chunks(
                blob, tag, lambda i, data: payload if i == j else data
            )
            yield f"{tag.decode()}[{j}]#{pi}", mutated


SINGLE_CVALS = [300, -5, 40000, 2**31 - 1, -(2**31), 129]
CVAL_VALUES = [300, -5, 40000, 2**31 - 1, -(2**31), 0, 1, 255, 256, 32768, 65535, -1, 128, 129]
# ---------------------------------------------------------------------------
# ---------------------------------------------------------------------------
# C05-1: Module.get_raw / set_raw, Range raw conversion + validation,
#        Controller.set_initial, errors.raise_or_warn_controller_value_validation
# ---------------------------------------------------------------------------
from rv import errors
from rv.controller import (
    CompactRange,
    Controller,
    DependentRange,
    NoOffsetRange,
    Range,
    WarnOnlyRange,
)
from rv.errors import ControllerValueError, RangeValidationError

EXPECTED = "05ef4e1a291f6674eb4d8e4a90345e3fa6d4cea885193a4680a0c345db33e3fa"
STATS = {}


def typed(v):
    return (type(v).__name__, repr(v))


def unit_ranges(d):
    """Range.{to,from}_raw_value / validate / __call__ for every flavour."""
    bounds = [(-128, 128), (-1, 1), (0, 256), (1, 16), (5, 9), (-16384, 16384), (-0.5, 0.5)]
    values = [0, 1, -1, 5, 128, 300, 428, 556, -129, 2**31 - 1, True, False, 2.5, -0.25]
    for klass in (Range, CompactRange, WarnOnlyRange, NoOffsetRange):
        for lo, hi in bounds:
            r = klass(lo, hi)
            d.add(repr(r))
            for v in values:
                raw = r.to_raw_value(v)
                back = r.from_raw_value(v)
                d.add(klass.__name__, lo, hi, typed(v), typed(raw), typed(back))
                # hand-written oracle
                if klass is NoOffsetRange or lo >= 0:
                    check(raw is v and back is v, f"{klass.__name__}({lo},{hi}) identity {v!r}")
                else:
                    check(raw == v - lo and back == v + lo, f"{klass.__name__}({lo},{hi}) offset {v!r}")
                    check(type(raw) is type(v - lo), "offset result type")
                check(r.from_raw_value(r.to_raw_value(v)) == v, "raw round trip")
                CAPTURE.records.clear()
                try:
                    out = r(v)
                    res = ("ok", typed(out))
                    check(out is v, "Range() returns its argument")
                except RangeValidationError as e:
                    res = ("RangeValidationError", e.args)
                    check(e.args == (v, lo, hi), "RangeValidationError args")
                    check(klass is not WarnOnlyRange, "WarnOnlyRange never raises")
                inside = not (v < lo or v > hi)
                if inside:
                    check(res[0] == "ok" and not CAPTURE.records, "in range is silent")
                elif klass is WarnOnlyRange:
                    check(res[0] == "ok", "warn-only passes value through")
                    check(
                        CAPTURE.records == [("rv.controller", "WARNING", str(RangeValidationError(v, lo, hi)))],
                        "warn-only logs the range error",
                    )
                else:
                    check(res[0] == "RangeValidationError", "out of range raises")
                d.add(res, list(CAPTURE.records))
    nan = float("nan")
    r = Range(-4, 4)
    check(r(nan) is nan, "NaN compares false both ways, so it is accepted")
    check(Range(0, 4) == Range(0, 4) and Range(0, 4) != CompactRange(0, 4), "Range.__eq__")
    check(NoOffsetRange(-128, 128).to_raw_value(-3) == -3, "NoOffsetRange keeps sign")
    check(NoOffsetRange(-128, 128).from_raw_value(-3) == -3, "NoOffsetRange keeps sign")
    check(Range(-128, 128).to_raw_value(-3) == 125, "Range offsets by |min|")
    check(Range(-128, 128).from_raw_value(125) == -3, "Range offsets by |min|")
    check(isinstance(WarnOnlyRange(0, 1), Range), "class hierarchy")
    check(not isinstance(NoOffsetRange(0, 1), WarnOnlyRange), "class hierarchy")


def unit_modules(d):
    """get_raw / set_raw / set_initial on freshly constructed modules."""
    raws = [0, 1, 2, 7, 128, 256, 300, 428, 556, 4000, 40000, -1, -5, 2**31 - 1, -(2**31)]
    classes = [m.Amplifier, m.Generator, m.VorbisPlayer, m.MultiSynth, m.Lfo, m.Delay,
               m.Echo, m.Loop, m.Vibrato, m.Sampler, m.Compressor, m.MetaModule, m.MultiCtl]
    for cls in classes:
        for raise_errors in (True, False):
            mod = cls()
            mod.index = 0x1F
            for name in mod.controllers:
                for raw in raws:
                    CAPTURE.records.clear()
                    before = dict(mod.controller_values)
                    try:
                        with errors.override_raise_controller_value_errors(raise_errors):
                            mod.set_raw(name, raw)
                        stored = mod.controller_values[name]
                        res = ("ok", typed(stored))
                        got = mod.get_raw(name)
                        res += (typed(got),)
                        # the C05 mechanism: what was read is what is written
                        t = mod.controllers[name].controller(mod).instance_value_type(mod)
                        if isinstance(t, Range):
                            check(got == raw, f"{cls.__name__}.{name}: raw {raw} comes back as {got}")
                    except ControllerValueError as e:
                        check(raise_errors, "ControllerValueError only in strict mode")
                        check(isinstance(e.__cause__, RangeValidationError), "cause is the range error")
                        check(e.__context__ is e.__cause__, "context is the range error")
                        ev, lo, hi = e.__cause__.args
                        want = "{:x}({}).{}={} is not within [{}, {}]".format(0x1F, mod.mtype, name, ev, lo, hi)
                        check(e.args == (want,), f"message {e.args!r}")
                        check(mod.controller_values == before, "failed set_raw leaves values alone")
                        res = ("ControllerValueError", e.args, e.__cause__.args)
                    except Exception as e:  # e.g. ValueError for bad enum values
                        check(mod.controller_values == before, "failed set_raw leaves values alone")
                        res = (type(e).__name__, str(e))
                    d.add(cls.__name__, raise_errors, name, raw, res, list(CAPTURE.records))
            d.add(snap(mod.controller_values))
    # index None is printed as 0
    amp = m.Amplifier()
    try:
        amp.set_raw("balance", 300)
        check(False, "strict set_raw must raise")
    except ControllerValueError as e:
        check(e.args == ("0(Amplifier).balance=172 is not within [-128, 128]",), repr(e.args))
    with errors.override_raise_controller_value_errors(False):
        CAPTURE.records.clear()
        amp.set_raw("balance", 300)
    check(amp.balance == 172 and amp.get_raw("balance") == 300, "kept out-of-range value round trips")
    check(
        CAPTURE.records == [("rv.modules.module", "WARNING", "0(Amplifier).balance=172 is not within [-128, 128]")],
        f"warning record {CAPTURE.records!r}",
    )
    check(errors.RAISE_CONTROLLER_VALUE_ERRORS is True, "override restored")
    # setattr path (Controller.set_initial)
    try:
        amp.balance = 999
        check(False, "strict setattr must raise")
    except ControllerValueError as e:
        check(e.args == ("0(Amplifier).balance=999 is not within [-128, 128]",), repr(e.args))
        check(isinstance(e.__cause__, RangeValidationError) and e.__cause__.args == (999, -128, 128), "cause")
    check(amp.balance == 172, "failed setattr keeps old value")
    with errors.override_raise_controller_value_errors(False):
        CAPTURE.records.clear()
        amp.balance = 999
    check(amp.balance == 999 and amp.get_raw("balance") == 1127, "lenient setattr stores the value")
    check(
        CAPTURE.records == [("rv.controller", "WARNING", "0(Amplifier).balance=999 is not within [-128, 128]")],
        f"warning record {CAPTURE.records!r}",
    )
    try:
        m.Amplifier(volume=5000)
        check(False, "constructor validates")
    except ControllerValueError as e:
        check(e.args == ("0(Amplifier).volume=5000 is not within [0, 1024]",), repr(e.args))
    # enum, bool, None and string values
    gen = m.Generator(waveform="saw", sustain=False)
    check(gen.get_raw("waveform") == gen.Waveform.saw.value, "enum by name")
    check(gen.get_raw("sustain") == 0 and type(gen.get_raw("sustain")) is int, "bool -> int")
    gen.controller_values["volume"] = None
    check(gen.get_raw("volume") == 0, "None is written as 0")
    gen.set_raw("sustain", 7)
    check(gen.sustain is True, "bool controller from raw")
    try:
        gen.get_raw("nope")
        check(False, "unknown controller")
    except KeyError:
        pass
    try:
        gen.set_raw("nope", 1)
        check(False, "unknown controller")
    except KeyError:
        pass
    # dependent (warn-only) ranges follow the unit controller
    lfo = m.Lfo()
    CAPTURE.records.clear()
    lfo.set_raw("frequency_unit", 3)
    lfo.controllers_loaded.add("frequency_unit")
    lfo.set_raw("freq", 300)
    check(lfo.freq == 300 and lfo.get_raw("freq") == 300, "warn-only range keeps the value")
    check(CAPTURE.records == [("rv.controller", "WARNING", "(300, 1, 256)")], repr(CAPTURE.records))
    vp = m.VorbisPlayer()
    vp.set_raw("finetune", -7)
    vp.set_raw("transpose", 121)
    check((vp.finetune, vp.transpose) == (-7, -7), "NoOffsetRange vs Range")
    check((vp.get_raw("finetune"), vp.get_raw("transpose")) == (-7, 121), "NoOffsetRange vs Range")


def errors_api(d):
    class FakeLog:
        def __init__(self):
            self.calls = []

        def warning(self, *a, **kw):
            self.calls.append((a, kw))

    cause = RangeValidationError(1, 2, 3)
    fl = FakeLog()
    try:
        errors.raise_or_warn_controller_value_validation(cause, fl, "a", "b")
        check(False, "strict mode raises")
    except ControllerValueError as e:
        check(e.args == ("a", "b") and e.__cause__ is cause and not fl.calls, "strict raise")
        check(isinstance(e, ValueError), "ControllerValueError is a ValueError")
    with errors.override_raise_controller_value_errors(False):
        r = errors.raise_or_warn_controller_value_validation(cause, fl, "a %s", "b")
        check(r is None and fl.calls == [(("a %s", "b"), {"exc_info": cause})], "lenient warns")
        with errors.override_raise_controller_value_errors(True):
            check(errors.RAISE_CONTROLLER_VALUE_ERRORS is True, "nested override")
        check(errors.RAISE_CONTROLLER_VALUE_ERRORS is False, "nested override restored")
    check(errors.RAISE_CONTROLLER_VALUE_ERRORS is True, "override restored")
    check(errors.RAISE_RANGE_ERRORS_ON_READ is False, "read default")
    d.add(fl.calls[0][0])


def files(d):
    for p in fixtures():
        blob = p.read_bytes()
        run_case(d, p.name, blob)
        ncv = sum(1 for n, _ in parse(blob) if n == b"CVAL")
        if not ncv:
            continue
        L = len(CVAL_VALUES)
        for k in range(L):
            mutated, _ = mutate_chunks(
                blob, b"CVAL", lambda i, data: struct.pack("<i", CVAL_VALUES[(i + k) % L])
            )
            run_case(d, f"{p.name}/cval{k}", mutated, n=3)
        payloads = [struct.pack("<i", v) for v in SINGLE_CVALS]
        cap = 40 if len(blob) < 20000 else 8  # keep big projects cheap
        for label, mutated in single_chunk_cases(blob, b"CVAL", payloads, cap):
            res = run_case(d, f"{p.name}/{label}", mutated, n=3)
            STATS[res[0]] = STATS.get(res[0], 0) + 1


def main():
    d = Digest()
    unit_ranges(d)
    unit_modules(d)
    errors_api(d)
    files(d)
    got = d.hexdigest()
    check(STATS.get("ok", 0) > 1000, f"too few loadable mutants: {STATS}")
    if "EXPECTED" in EXPECTED:
        print("digest", got, "cases", d.n)
    else:
        check(got == EXPECTED, f"behaviour digest changed: {got}")
    if FAILURES:
        print(f"{len(FAILURES)} check(s) failed")
        sys.exit(1)
    print("PASS")


main()
