"""C17-3: Sampler envelopes, MetaModule user-defined controllers, Pattern data.

Run from the repository root with PYTHONPATH=<root>/src/python.
"""
import hashlib
import sys
from io import BytesIO

from rv.api import NOTE, NOTECMD, Note, Pattern, Project, Synth, m, read_sunvox_file
from rv.modules.metamodule import MAX_USER_DEFINED_CONTROLLERS, UserDefined

failures = []


def check(cond, msg):
    if not cond:
        failures.append(msg)


def pbytes(p):
    f = BytesIO()
    p.write_to(f)
    return f.getvalue()


# ---- Sampler envelopes ------------------------------------------------------
S = m.Sampler
ENV_FIELDS = [
    "points", "sustain_point", "loop_start_point", "loop_end_point", "enable",
    "sustain", "loop", "ctl_index", "gain_pct", "velocity", "loaded",
]


def env_snapshot(env):
    return (
        {k: (list(v) if isinstance(v, list) else v) for k, v in vars(env).items()},
        env.bitmask,
        env.point_bytes,
        list(env.chunks()),
    )


def all_envs(s):
    return [s.volume_envelope, s.panning_envelope, s.pitch_envelope] + list(
        s.effect_control_envelopes
    )


expected = {
    S.VolumeEnvelope: ([(0, 0x8000), (8, 0), (0x80, 0), (0x100, 0)], True, True, 3),
    S.PanningEnvelope: ([(0, 0), (0x40, -0x2000), (0x80, 0x2000), (0xB4, 0)], False, False, 0),
    S.PitchEnvelope: ([(0, 0), (0x40, 0)], False, False, 0),
    S.EffectControlEnvelope: ([(0, 0x8000), (0x40, 0x8000)], False, False, 0),
}
a, b = S(), S()
check(len(a.effect_control_envelopes) == 4, "4 effect control envelopes")
check(type(a.effect_control_envelopes) is list, "effect envelopes list")
check([e.chnm for e in a.effect_control_envelopes] == [0x105, 0x106, 0x107, 0x108], "chnm")
check([e.chnm for e in all_envs(a)[:3]] == [0x102, 0x103, 0x104], "chnm fixed")
check(len({id(e) for e in all_envs(a) + all_envs(b)}) == 14, "distinct envelope objects")
check(len({id(e.points) for e in all_envs(a) + all_envs(b)}) == 14, "distinct point lists")
for env in all_envs(a):
    cls = type(env)
    pts, enable, sustain, mask = expected[cls]
    name = cls.__name__
    keys = list(vars(env))
    if cls is S.EffectControlEnvelope:
        check(keys == ENV_FIELDS + ["chnm"], f"{name}: attribute order {keys}")
    else:
        check(keys == ENV_FIELDS, f"{name}: attribute order {keys}")
    check(env.points == pts and env.points is not cls.initial_points, f"{name}: points")
    check(type(env.points) is list, f"{name}: points type")
    check(env.enable is enable and env.sustain is sustain and env.loop is False, f"{name}: flags")
    check(env.bitmask == mask, f"{name}: bitmask")
    check((env.sustain_point, env.loop_start_point, env.loop_end_point) == (0, 0, 0), f"{name}: pts")
    check((env.ctl_index, env.gain_pct, env.velocity) == (0, 100, 0), f"{name}: ctl/gain/vel")
    check(env.loaded is False, f"{name}: loaded")
ref_b = [env_snapshot(e) for e in all_envs(b)]
ref_bytes = Synth(b).read()
check(Synth(a).read() == ref_bytes, "fresh samplers identical")
check(
    hashlib.sha256(ref_bytes).hexdigest() == "c665ea9372f6fad33025e98226fec67d4f928acad9d40a7a0fa087e2e9016d17",
    "sampler digest " + hashlib.sha256(ref_bytes).hexdigest(),
)
initial = {cls: list(cls.initial_points) for cls in expected}
for i, env in enumerate(all_envs(a)):
    env.points.append((0x200, 0x100))
    env.points[0] = (1, 2)
    env.points.sort()
    env.sustain_point, env.loop_start_point, env.loop_end_point = 1, 1, 2
    env.bitmask = 7
    env.ctl_index, env.gain_pct, env.velocity = i, 50, 1
check(Synth(a).read() != ref_bytes, "A's mutation visible")
check([env_snapshot(e) for e in all_envs(b)] == ref_b, "B envelopes changed")
check(Synth(b).read() == ref_bytes, "B bytes changed")
check({cls: list(cls.initial_points) for cls in expected} == initial, "class initial_points changed")
c = S()
check([env_snapshot(e) for e in all_envs(c)] == ref_b, "later sampler differs")
check(Synth(c).read() == ref_bytes, "later sampler bytes differ")
# envelope with overridden class-level initial values
class Custom(S.Envelope):
    chnm = 0x1FF
    range = (0, 0x8000)
    initial_points = [(0, 1), (2, 3)]
    initial_sustain_point = 1
    initial_loop_start_point = 2
    initial_loop_end_point = 3
    initial_enable = True
    initial_sustain = False
    initial_loop = True
    initial_ctl_index = 4
    initial_gain_pct = 55
    initial_velocity = 1


cu = Custom()
check(
    (cu.points, cu.sustain_point, cu.loop_start_point, cu.loop_end_point, cu.enable,
     cu.sustain, cu.loop, cu.ctl_index, cu.gain_pct, cu.velocity, cu.loaded)
    == ([(0, 1), (2, 3)], 1, 2, 3, True, False, True, 4, 55, 1, False),
    "custom envelope initial values",
)
check(cu.bitmask == 5, "custom bitmask")
try:
    S.Envelope()
except TypeError:
    pass
else:
    check(False, "base Envelope without initial_points raises TypeError")
# clone / load independence
sa = Synth(a)
cl = sa.clone()
cl_ref = cl.read()
check(cl_ref == sa.read(), "clone equals original")
a.volume_envelope.points.pop()
a.effect_control_envelopes[3].points[:] = [(0, 0)]
check(cl.read() == cl_ref, "clone changed after mutating original")
cl.module.pitch_envelope.points.append((0x300, 0))
a_ref = sa.read()
cl.module.effect_control_envelopes[0].enable = False
check(sa.read() == a_ref, "original changed after mutating clone")
l1 = read_sunvox_file("tests/files/sampler.sunsynth")
l2 = read_sunvox_file("tests/files/sampler.sunsynth")
r = l2.read()
check(l1.read() == r, "sampler loaded twice")
for env in all_envs(l1.module):
    env.points.append((0x3FF, 0))
    env.enable = not env.enable
check(l2.read() == r and l1.read() != r, "loaded sampler isolation")
check(Synth(S()).read() == ref_bytes, "fresh sampler after loads")

# ---- MetaModule user defined controllers ------------------------------------
MM = m.MetaModule
x, y = MM(), MM()
check(MAX_USER_DEFINED_CONTROLLERS == 96, "96 user defined controllers")
for o in (x, y):
    ud = o.user_defined
    check(type(ud) is list and len(ud) == 96, "user_defined list")
    check(all(type(u) is UserDefined for u in ud), "user_defined types")
    check([u.name for u in ud] == [f"user_defined_{i + 1}" for i in range(96)], "names")
    check([u.number for u in ud] == [i + 6 for i in range(96)], "numbers")
    check(not any(u.attached(o) for u in ud), "detached initially")
    check(all(u.default == 0 and (u.value_type.min, u.value_type.max) == (0, 44100)
              for u in ud), "ud defaults")
    check(all(u.label is None for u in ud), "labels")
    orders = [u._order for u in ud]
    check(orders == list(range(orders[0], orders[0] + 96)), "creation order")
check(not ({id(u) for u in x.user_defined} & {id(u) for u in y.user_defined}), "ud shared")
check(x.user_defined is not y.user_defined, "ud list shared")
check(x.project is not y.project and x.mappings is not y.mappings, "project/mappings shared")
check(x.project.metamodule is x and y.project.metamodule is y, "backlink")
y_ref = Synth(y).read()
check(Synth(x).read() == y_ref, "fresh metamodules identical")
check(
    hashlib.sha256(y_ref).hexdigest() == "5db044749e2b1bb0a49f0007da12bbfa468948c2b76e8346887f5f9f81a54c16",
    "metamodule digest " + hashlib.sha256(y_ref).hexdigest(),
)
gen = x.project.new_module(m.Generator)
x.project.output << gen
x.user_defined_controllers = 3
x.mappings.values[0] = MM.Mapping((gen.index, 0))
x.mappings.values[1].module, x.mappings.values[1].controller = gen.index, 1
x.user_defined[0].label = "Vol"
x.recompute_controller_attachment()
MM.MappingArray.update_user_defined_controllers(x)
check([u.attached(x) for u in x.user_defined[:4]] == [True, True, True, False], "attach x")
check(not any(u.attached(y) for u in y.user_defined), "attach flag leaked to y")
check(y.user_defined_controllers == 0, "option leaked to y")
check(all(u.label is None for u in y.user_defined), "label leaked")
check(all((u.value_type.min, u.value_type.max) == (0, 44100) for u in y.user_defined),
      "value_type leaked")
check(x.user_defined[0].value_type == m.Generator.controllers["volume"].value_type,
      "mapped value type")
x.user_defined_1 = 77
check(gen.volume == 77 and x.user_defined_1 == 77, "propagation to embedded module")
check(x.u_vol == 77, "alias")
check(Synth(y).read() == y_ref, "y bytes changed after mutating x")
check(Synth(x).read() != y_ref, "x mutation invisible")
z = MM()
check(Synth(z).read() == y_ref, "later metamodule differs")
check(not any(u.attached(z) for u in z.user_defined), "later metamodule attached")
xc = Synth(x).clone()
xr = xc.read()
x.user_defined_controllers = 1
x.user_defined_1 = 5
x.project.modules[gen.index].waveform = "square"
check(xc.read() == xr, "metamodule clone changed after mutating original")
check([u.attached(xc.module) for u in xc.module.user_defined[:4]] == [True, True, True, False],
      "clone attachment")
xc.module.user_defined_2 = 1
check(x.user_defined_controllers == 1, "original changed after mutating clone")
mp = MM(project=Project())
check(mp.project.metamodule is mp and len(mp.user_defined) == 96, "project kwarg")
for fn in ("metamodule", "metamodule-option-78"):
    path = f"tests/files/{fn}.sunsynth"
    m1, m2 = read_sunvox_file(path), read_sunvox_file(path)
    r = m2.read()
    check(m1.read() == r, f"{fn}: load twice")
    flags2 = [u.attached(m2.module) for u in m2.module.user_defined]
    m1.module.user_defined_controllers = 0 if m1.module.user_defined_controllers else 5
    m1.module.recompute_controller_attachment()
    for u in m1.module.user_defined:
        u.label = "zz"
    check([u.attached(m2.module) for u in m2.module.user_defined] == flags2, f"{fn}: flags")
    check(m2.read() == r, f"{fn}: B changed")

# ---- Pattern data -----------------------------------------------------------
for tracks, lines in ((1, 1), (4, 32), (3, 5), (32, 2)):
    p, q = Pattern(tracks=tracks, lines=lines), Pattern(tracks=tracks, lines=lines)
    d = p.data
    check(p.data is d, "data cached")
    check(type(d) is list and len(d) == lines, "rows")
    check(all(type(row) is list and len(row) == tracks for row in d), "columns")
    check(len({id(n) for row in d for n in row}) == tracks * lines, "distinct notes")
    check(len({id(row) for row in d}) == lines, "distinct rows")
    check(all(n.pattern is p for row in d for n in row), "note.pattern")
    check(all(n == Note(pattern=p) for row in d for n in row), "empty notes")
    check(p.raw_data == b"\0" * (8 * tracks * lines), "raw data empty")
    q_ref = list(q.iff_chunks())
    d[0][0].note = NOTE.C5
    d[-1][-1].vel = 100
    d[0][0].module = 3
    check(list(q.iff_chunks()) == q_ref, "q changed after mutating p")
    check(q.raw_data == b"\0" * (8 * tracks * lines), "q raw data")
    check(p.raw_data != q.raw_data, "p mutation visible")
    old = p.data
    snapshot_old = p.raw_data
    r = p.set_via_fn(lambda pat, ln, tr: Note(note=NOTE.C4, vel=ln + 1, module=tr + 1))
    check(r is p and p.data is not old, "set_via_fn installs new array")
    check(all(n.pattern is p for row in p.data for n in row), "set_via_fn pattern link")
    check(all(p.data[ln][tr].vel == ln + 1 and p.data[ln][tr].module == tr + 1
              for ln in range(lines) for tr in range(tracks)), "set_via_fn contents")
    check(b"".join(b"".join(n.raw_data for n in row) for row in old) == snapshot_old,
          "old array untouched by set_via_fn")

    def g(pat, new):
        yield 0, 0, Note(note=NOTECMD.NOTE_OFF)
        yield lines - 1, tracks - 1, Note(ctl=0x0100, val=5)

    cur = p.data
    r = p.set_via_gen(g)
    check(r is p and p.data is not cur, "set_via_gen installs new array")
    check(p.data[0][0].note == NOTECMD.NOTE_OFF or (lines, tracks) == (1, 1), "gen first")
    check(p.data[-1][-1].val == 5 and p.data[-1][-1].pattern is p, "gen last")
    check(all(n.pattern is p for row in p.data for n in row), "set_via_gen pattern link")
    try:
        p.set_via_fn(lambda pat, ln, tr: 1 // 0)
    except ZeroDivisionError:
        check(p.data[-1][-1].val == 5, "failed set_via_fn keeps data")
    else:
        check(False, "set_via_fn must propagate")
    keep = p.data
    p.clear()
    check(p.data is not keep and p.raw_data == b"\0" * (8 * tracks * lines), "clear")
    check(keep[-1][-1].val == 5, "clear leaves the old array alone")
    check(list(q.iff_chunks()) == q_ref, "q changed after p ops")
    p.raw_data = bytes(range(8)) * (tracks * lines)
    check(p.raw_data == bytes(range(8)) * (tracks * lines), "raw round trip")
    check(q.raw_data == b"\0" * (8 * tracks * lines), "q raw after p load")
pz = Pattern(tracks=2, lines=2)
pz.lines = 0
pz.clear()
check(pz.data == [] and pz.raw_data == b"", "zero lines")

# project level
def build():
    pr = Project()
    pat = Pattern(tracks=2, lines=4, name="p")
    pr.attach_pattern(pat)
    pat.data[1][1].note = NOTE.D3
    smp = pr.new_module(S)
    mm = pr.new_module(MM)
    smp >> mm >> pr.output
    return pr


A, B = build(), build()
refB = pbytes(B)
check(pbytes(A) == refB, "identical projects")
check(
    hashlib.sha256(refB).hexdigest() == "43ddf1b63e6526e41606e0fca802c5c650c706f58d2215a79058094b2642d79d",
    "project digest " + hashlib.sha256(refB).hexdigest(),
)
C = A.clone()
refC = pbytes(C)
A.patterns[0].data[0][0].note = NOTE.C1
A.patterns[0].set_via_fn(lambda pat, ln, tr: Note(vel=7))
A.modules[1].volume_envelope.points.append((0x111, 0))
A.modules[2].user_defined_controllers = 2
A.modules[2].recompute_controller_attachment()
check(pbytes(B) == refB, "B project changed")
check(pbytes(C) == refC, "clone project changed")
check(pbytes(build()) == refB, "fresh project differs")
C.patterns[0].clear()
refA = pbytes(A)
C.modules[1].pitch_envelope.points[:] = []
check(pbytes(A) == refA, "original changed after mutating clone")

if failures:
    print("FAIL")
    for f_ in failures:
        print(" -", f_)
    sys.exit(1)
print("PASS")
