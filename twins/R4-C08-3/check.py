"""Behaviour check for property C08 (connection graph and slot order persist).

Focus of this script: ``SunVoxReader.process_end_of_file`` -- trimming of
trailing empty modules, reconstruction of missing in_link_slots, rebuilding of
out_links/out_link_slots, the old-version pattern fix-up, and the exact way it
reacts to inconsistent files (exception types, warnings).

Run as:  cd <root> && PYTHONPATH=<root>/src/python /venv/bin/python check.py
Prints PASS and exits 0 when behaviour is as expected.
"""
import hashlib
import logging
import random
import struct
import sys
from io import BytesIO

from rv.api import Pattern, PatternClone, Project, m, read_sunvox_file
from rv.lib.iff import write_chunk

# Digest of the full behaviour trace, recorded on the unchanged tree.
EXPECTED_DIGEST = "867af8bf700759b6b609d2fcd80085224357650fb4391751986b28dd39a263d4"

TRACE = []


def rec(*items):
    TRACE.append(repr(items))


class Capture(logging.Handler):
    def __init__(self):
        super().__init__(level=logging.WARNING)
        self.messages = []

    def emit(self, record):
        self.messages.append((record.levelname, record.getMessage()))


CAPTURE = Capture()
READER_LOG = logging.getLogger("rv.readers.sunvox")
READER_LOG.addHandler(CAPTURE)
READER_LOG.propagate = False
READER_LOG.setLevel(logging.WARNING)
logging.getLogger("rv").addHandler(logging.NullHandler())
logging.getLogger("rv").propagate = False


def i32(*values):
    return struct.pack("<%di" % len(values), *values)


def tables(project):
    return [
        None
        if mod is None
        else (
            list(mod.in_links),
            list(mod.in_link_slots),
            list(mod.out_links),
            list(mod.out_link_slots),
        )
        for mod in project.modules
    ]


def check_consistent(project):
    for mod in project.modules:
        if mod is None:
            continue
        assert len(mod.in_links) == len(mod.in_link_slots)
        assert len(mod.out_links) == len(mod.out_link_slots)
        for i, (src, slot) in enumerate(zip(mod.in_links, mod.in_link_slots)):
            if src == -1:
                assert slot == -1
                continue
            other = project.modules[src]
            assert other.out_links[slot] == mod.index
            assert other.out_link_slots[slot] == i
        for i, (dst, slot) in enumerate(zip(mod.out_links, mod.out_link_slots)):
            if dst == -1:
                assert slot == -1
                continue
            other = project.modules[dst]
            assert other.in_links[slot] == mod.index
            assert other.in_link_slots[slot] == i


def project_chunks(n_modules, empty=(), patterns=()):
    p = Project()
    for i in range(n_modules):
        p.new_module(m.Amplifier, name="m%d" % (i + 1))
    for index in empty:
        p.modules[index] = None
    for pattern in patterns:
        p.attach_pattern(pattern)
    return [(name, bytes(data)) for name, data in p.chunks()]


def with_links(chunk_list, spec, tail=()):
    """spec: {module index: (links, slots or None)}; tail: chunks appended."""
    out, index = [], 0
    for name, data in chunk_list:
        if name == b"SLNK":
            links, slots = spec.get(index, ([], None))
            out.append((b"SLNK", i32(*links)))
            if slots is not None:
                out.append((b"SLnK", i32(*slots)))
            continue
        if name == b"SLnK":
            continue
        out.append((name, data))
        if name == b"SEND":
            index += 1
    out.extend(tail)
    return out


def load(chunk_list):
    f = BytesIO()
    for name, data in chunk_list:
        write_chunk(f, name, data)
    f.seek(0)
    return read_sunvox_file(f)


def outcome(chunk_list):
    del CAPTURE.messages[:]
    try:
        project = load(chunk_list)
    except Exception as e:  # noqa: BLE001 - the type is what we record
        return type(e).__name__, str(e), list(CAPTURE.messages)
    return tables(project), list(CAPTURE.messages)


SEND = (b"SEND", b"")


# --------------------------------------------------------------------------
# 1. hand-made files
# --------------------------------------------------------------------------
def scenario_files():
    base = project_chunks(4)
    holes = project_chunks(5, empty=(2, 5))  # module 2 empty, last module empty
    cases = [
        ("plain", base, {}, ()),
        # trailing empty modules are dropped, however many
        ("trail1", base, {}, (SEND,)),
        ("trail3", base, {0: ([1, 4], None)}, (SEND, SEND, SEND)),
        ("holes", holes, {0: ([1, 3, 4], None), 4: ([1, 3], None)}, ()),
        ("holes+trail", holes, {0: ([4, 3, 1], None), 3: ([1], [1])}, (SEND, SEND)),
        # slot chunk absent: modules 1.. are visited first, the output last
        ("absent", base, {0: ([1, 2, 3], None), 4: ([1, 2], None), 3: ([1], None)}, ()),
        ("absent-free", base, {0: ([1, -1, 3], None), 3: ([-1, 1], None)}, ()),
        ("absent-self", base, {1: ([1, 2], None), 2: ([2, 1], None)}, ()),
        ("absent-cycle", base, {1: ([4], None), 2: ([1], None), 3: ([2], None),
                                4: ([3], None), 0: ([4, 1], None)}, ()),
        # slot chunk present
        ("present", base, {0: ([1, 2, 3], [0, 0, 0]), 4: ([1, 2], [1, 1]),
                           3: ([1], [2])}, ()),
        ("present-gap", base, {0: ([1], [3])}, ()),
        ("present-gap2", base, {0: ([1, 2], [5, 0]), 2: ([1], [2])}, ()),
        ("present-free", base, {0: ([1, -1, 2], [0, -1, 0])}, ()),
        # partially present
        ("mixed1", base, {0: ([1, 2, 3], None), 4: ([1, 2], [1, 1]), 3: ([1], [2])}, ()),
        ("mixed2", base, {0: ([1, 2, 3], [0, 0, 1]), 4: ([1, 2], None), 3: ([3], None)},
         ()),
        ("mixed3", base, {0: ([1, 2], [1, 0]), 2: ([1], None)}, ()),
        # quirks: a free link (-1) with a used slot, negative slots, clashes
        ("free-with-slot", base, {0: ([-1, 1], [2, 0])}, ()),
        ("slot-minus2", base, {0: ([1, 2], [-2, 0])}, ()),
        ("slot-minus2b", base, {0: ([1], [-2]), 2: ([1], [0]), 3: ([1], [1])}, ()),
        ("clash", base, {0: ([1], [0]), 2: ([1], [0])}, ()),
        ("neg-link", base, {0: ([-2], None)}, ()),
        ("neg-link-slot", base, {0: ([-2], [0])}, ()),
        # broken references
        ("ref-missing", base, {0: ([9], None)}, ()),
        ("ref-missing-mid", base, {0: ([1, 9, 2], None)}, ()),
        ("ref-missing-only-warn", base, {0: ([5], None), 1: ([7, 8], None)}, ()),
        ("ref-missing-slot", base, {0: ([9], [0])}, ()),
        ("ref-len", base, {0: ([5], None)}, ()),
        ("ref-empty", holes, {0: ([2], None)}, ()),
        ("ref-empty-slot", holes, {0: ([2], [0])}, ()),
        ("ref-trailing-empty", holes, {0: ([5], None)}, ()),
        ("ref-trailing-empty-slot", holes, {0: ([5], [0])}, ()),
        ("short-slots", base, {0: ([1, 2], [0])}, ()),
        ("long-slots", base, {0: ([1], [0, 0])}, ()),
        ("slots-no-links", base, {0: ([], [0, 1])}, ()),
    ]
    for label, chunk_list, spec, tail in cases:
        rec("file", label, outcome(with_links(chunk_list, spec, tail)))

    # literal expectations
    t, _ = outcome(with_links(base, {}, (SEND, SEND)))
    assert len(t) == 5
    t, _ = outcome(with_links(holes, {0: ([1, 3, 4], None), 4: ([1, 3], None)}))
    assert len(t) == 5 and t[2] is None
    assert t[0] == ([1, 3, 4], [1, 1, 0], [], [])
    assert t[1] == ([], [], [4, 0], [0, 0])
    assert t[3] == ([], [], [4, 0], [1, 1])
    assert t[4] == ([1, 3], [0, 0], [0], [2])
    t, _ = outcome(with_links(base, {0: ([1], [3])}))
    assert t[1][2:] == ([-1, -1, -1, 0], [-1, -1, -1, 0])
    t, warnings = outcome(with_links(base, {0: ([-1, 1], [2, 0])}))
    assert t[4][2:] == ([-1, -1, 0], [-1, -1, 0]) and t[1][2:] == ([0], [1])
    res = outcome(with_links(base, {0: ([9], None)}))
    assert res[0] == "IndexError" and len(res[2]) == 1
    assert res[2][0] == ("WARNING", "Found SLNK on 0 referencing non-existent module 9")
    res = outcome(with_links(holes, {0: ([2], None)}))
    assert res[0] == "AttributeError"
    res = outcome(with_links(holes, {0: ([2], [0])}))
    assert res[0] == "RuntimeError" and res[1] == ""

    # files without any module at all
    no_modules = [c for c in base if c[0] in (b"SVOX", b"VERS", b"BVER", b"NAME")]
    rec("nomodules", outcome(no_modules))
    rec("nomodules-send", outcome(no_modules + [SEND, SEND]))
    only_output = project_chunks(0)
    rec("only-output", outcome(with_links(only_output, {0: ([0], None)})))
    rec("only-output-slot", outcome(with_links(only_output, {0: ([0, -1, 0], [0, -1, 2])})))


# --------------------------------------------------------------------------
# 2. random files: any mixture of present / absent slot chunks
# --------------------------------------------------------------------------
def scenario_fuzz():
    rng = random.Random(30082024)
    for trial in range(250):
        n = rng.randint(0, 5)
        empty = tuple(i for i in range(1, n + 1) if rng.random() < 0.15)
        chunk_list = project_chunks(n, empty=empty)
        wild = trial % 4 == 0
        spec = {}
        for index in range(n + 1):
            if index in empty or rng.random() < 0.25:
                continue
            count = rng.randint(0, 4)
            hi = n + 1 if wild else n
            links = [
                -1 if rng.random() < 0.25 else rng.randint(-2 if wild else 0, hi)
                for _ in range(count)
            ]
            mode = rng.random()
            if mode < 0.45:
                slots = None
            elif wild:
                slots = [rng.randint(-2, 4) for _ in range(rng.randint(0, count + 1))]
            else:
                slots = [-1 if v == -1 else rng.randint(0, 3) for v in links]
            spec[index] = (links, slots)
        tail = (SEND,) * rng.randint(0, 2)
        rec("fuzz", trial, empty, spec, outcome(with_links(chunk_list, spec, tail)))


# --------------------------------------------------------------------------
# 3. real projects: save/load keeps graph and slot order, SLnK stripped or not
# --------------------------------------------------------------------------
def scenario_roundtrip():
    rng = random.Random(5)
    for trial in range(80):
        p = Project()
        mods = [p.output] + [
            p.new_module(m.Amplifier) for _ in range(rng.randint(1, 6))
        ]
        for _ in range(rng.randint(1, 30)):
            a, b = rng.choice(mods), rng.choice(mods)
            if rng.random() < 0.75:
                p.connect(a, b)
            else:
                p.connect(~a, b)
        original = [(name, bytes(data)) for name, data in p.chunks()]
        loaded = load(original)
        check_consistent(loaded)
        for before, after in zip(p.modules, loaded.modules):
            for attr in ("in_links", "in_link_slots", "out_links", "out_link_slots"):
                want = list(getattr(before, attr))
                got = list(getattr(after, attr))
                while want and want[-1] == -1:
                    want.pop()
                while got and got[-1] == -1:
                    got.pop()
                assert want == got, (attr, tables(p), tables(loaded))
        # the same file with every SLnK chunk removed still loads consistently
        # and describes the same graph
        stripped = [c for c in original if c[0] != b"SLnK"]
        rebuilt = load(stripped + [SEND])
        check_consistent(rebuilt)
        assert [t[0] for t in tables(rebuilt)] == [t[0] for t in tables(loaded)]
        rec("roundtrip", trial, tables(loaded), tables(rebuilt))


# --------------------------------------------------------------------------
# 4. module numbers in patterns of files older than 1.9.5.0
# --------------------------------------------------------------------------
def scenario_old_patterns():
    def make_patterns():
        pat = Pattern(tracks=2, lines=3)
        pat.data[0][0].module = 0x1FF
        pat.data[0][1].module = 0x0102
        pat.data[1][0].module = 0xFFFF
        pat.data[2][1].module = 7
        pat.data[2][0].module = 0x100
        other = Pattern(tracks=1, lines=1)
        other.data[0][0].module = 0x8001
        return [pat, None, PatternClone(source=0), other]

    for version in ((1, 9, 4, 9), (1, 9, 5, 0), (1, 7, 0, 0), (2, 1, 2, 1), (0, 0, 0, 0),
                    None):
        chunk_list = project_chunks(2, patterns=make_patterns())
        if version is None:
            chunk_list = [c for c in chunk_list if c[0] != b"VERS"]
        else:
            chunk_list = [
                (n, struct.pack("BBBB", *reversed(version)) if n == b"VERS" else d)
                for n, d in chunk_list
            ]
        project = load(with_links(chunk_list, {0: ([1, 2], None)}))
        seen = [
            [[note.module for note in line] for line in pat.data]
            if isinstance(pat, Pattern)
            else type(pat).__name__
            for pat in project.patterns
        ]
        rec("patterns", version, seen, project.loaded_sunvox_version, tables(project))
        old = version is not None and version < (1, 9, 5, 0)
        assert seen[0][0] == ([0xFF, 0x02] if old else [0x1FF, 0x0102])
        assert seen[0][2] == ([0, 7] if old else [0x100, 7])
        assert seen[3] == ([[1]] if old else [[0x8001]])
        assert seen[1] == "NoneType" and seen[2] == "PatternClone"


def main():
    scenario_files()
    scenario_fuzz()
    scenario_roundtrip()
    scenario_old_patterns()
    digest = hashlib.sha256("\n".join(TRACE).encode()).hexdigest()
    if "--print-digest" in sys.argv:
        print(digest)
        return 0
    if digest != EXPECTED_DIGEST:
        print("FAIL: behaviour trace digest", digest, "!=", EXPECTED_DIGEST)
        return 1
    print("PASS")
    return 0


if __name__ == "__main__":
    sys.exit(main())
