"""Behaviour check for Project.connect() and the >> / << / ~ link sugar (property C07).

Run as:  cd <root> && PYTHONPATH=<root>/src/python python check.py
Prints PASS and exits 0 when everything behaves as documented here.
"""
import itertools
import random
import sys
from io import BytesIO

from rv.api import Project, m, read_sunvox_file
from rv.errors import ModuleOwnershipError
from rv.modules.module import DisconnectingModule, Module, ModuleList

TABLES = ("in_links", "in_link_slots", "out_links", "out_link_slots")


def new_project(n):
    p = Project()
    mods = [p.output] + [p.new_module(m.Amplifier) for _ in range(n)]
    return p, mods


def snapshot(mods):
    return [tuple(list(getattr(mod, t)) for t in TABLES) for mod in mods]


class Model:
    """Independent bookkeeping of what the four tables must contain."""

    def __init__(self, count):
        self.tables = [([], [], [], []) for _ in range(count)]
        self.pairs = set()

    def apply(self, f, t, disconnect):
        in_links, in_slots = self.tables[t][0], self.tables[t][1]
        out_links, out_slots = self.tables[f][2], self.tables[f][3]
        if disconnect:
            self.pairs.discard((f, t))
            if f not in in_links:
                return
            i, o = in_links.index(f), out_links.index(t)
            in_links[i] = out_links[o] = in_slots[i] = out_slots[o] = -1
        else:
            self.pairs.add((f, t))
            if f in in_links:
                return
            i, o = len(in_links), len(out_links)
            in_links.append(f)
            out_links.append(t)
            in_slots.append(o)
            out_slots.append(i)

    def snapshot(self):
        return [tuple(list(x) for x in row) for row in self.tables]


def check_consistent(mods, expected_pairs):
    pairs = []
    for t, mod in enumerate(mods):
        assert len(mod.in_links) == len(mod.in_link_slots)
        assert len(mod.out_links) == len(mod.out_link_slots)
        for i, (f, slot) in enumerate(zip(mod.in_links, mod.in_link_slots)):
            if f == -1:
                assert slot == -1
                continue
            pairs.append((f, t))
            assert mods[f].out_links[slot] == t
            assert mods[f].out_link_slots[slot] == i
        for o, (dest, slot) in enumerate(zip(mod.out_links, mod.out_link_slots)):
            if dest == -1:
                assert slot == -1
                continue
            assert mods[dest].in_links[slot] == t
            assert mods[dest].in_link_slots[slot] == o
    assert len(pairs) == len(set(pairs)), pairs
    assert set(pairs) == expected_pairs, (pairs, expected_pairs)


# ---------------------------------------------------------------- exhaustive
def exhaustive(n_modules=2, max_len=3):
    count = n_modules + 1
    ops = [
        (f, t, d) for f in range(count) for t in range(count) for d in (False, True)
    ]
    runs = 0
    for length in range(1, max_len + 1):
        for seq in itertools.product(ops, repeat=length):
            p, mods = new_project(n_modules)
            model = Model(count)
            for step, (f, t, d) in enumerate(seq):
                style = (runs + step) % 3
                src = mods[f]
                dst = ~mods[t] if d else mods[t]
                if style == 0:
                    p.connect(~src if d else src, mods[t])
                elif style == 1:
                    result = src >> dst
                    assert (~result if d else result) is mods[t]
                else:
                    # the left operand of an operator must be a real module
                    result = mods[t] << (~src if d else src)
                    assert (~result if d else result) is src
                model.apply(f, t, d)
                assert snapshot(mods) == model.snapshot(), (seq, step)
                check_consistent(mods, model.pairs)
            runs += 1
    return runs


# -------------------------------------------------------------------- random
def random_operand(rng, mods, allow_negation):
    """Return (operand, [(index, negated), ...])."""
    if rng.random() < 0.4:
        i = rng.randrange(len(mods))
        neg = allow_negation and rng.random() < 0.35
        return (~mods[i] if neg else mods[i]), [(i, neg)]
    size = rng.randint(0, 3)
    items, described = [], []
    for _ in range(size):
        i = rng.randrange(len(mods))
        neg = allow_negation and rng.random() < 0.35
        items.append(~mods[i] if neg else mods[i])
        described.append((i, neg))
    return items, described


def random_histories(seed, n_projects=60, n_ops=40):
    rng = random.Random(seed)
    for _ in range(n_projects):
        n = rng.randint(1, 6)
        p, mods = new_project(n)
        model = Model(len(mods))
        for _ in range(n_ops):
            left, left_desc = random_operand(rng, mods, True)
            right, right_desc = random_operand(rng, mods, True)
            style = rng.choice(["call", "call_tuple", ">>", "<<"])
            if style in (">>", "<<") and isinstance(left, DisconnectingModule):
                left, left_desc = ~left, [(left_desc[0][0], False)]
            if style == "call":
                p.connect(left, right)
                froms, tos = left_desc, right_desc
            elif style == "call_tuple":
                as_tuple = lambda x: tuple(x) if isinstance(x, list) else x
                p.connect(as_tuple(left), as_tuple(right))
                froms, tos = left_desc, right_desc
            else:
                lhs = ModuleList(p, left) if isinstance(left, list) else left
                if style == ">>":
                    result = lhs >> right
                    froms, tos = left_desc, right_desc
                else:
                    result = lhs << right
                    froms, tos = right_desc, left_desc
                if isinstance(right, list):
                    assert type(result) is ModuleList
                    assert result.parent is p
                    assert result is not right and list(result) == right
                    assert all(a is b for a, b in zip(result, right))
                else:
                    assert result is right
            for f, fneg in froms:
                for t, tneg in tos:
                    model.apply(f, t, fneg or tneg)
            assert snapshot(mods) == model.snapshot()
            check_consistent(mods, model.pairs)
        # what gets written is what the tables say
        f = BytesIO()
        p.write_to(f)
        f.seek(0)
        p2 = read_sunvox_file(f)
        for a, b in zip(mods, p2.modules):
            kept = list(a.in_links)
            while kept[-1:] == [-1]:  # the reader drops trailing free slots
                kept.pop()
            assert kept == b.in_links


# ---------------------------------------------------------------- fixed cases
def fixed_cases():
    p, (out, a, b, c, d) = new_project(4)

    # chaining and return values
    assert (a >> b >> c >> out) is out
    assert (d << c) is c
    assert c.out_links == [0, 4] and d.in_links == [3]
    lst = a >> [c, d]
    assert type(lst) is ModuleList and lst.parent is p and lst == [c, d]
    assert (lst >> out) is out
    assert out.in_links == [3, 4]
    ml = ModuleList(p, [a, b])
    again = out << ml
    assert type(again) is ModuleList and again is not ml and again == ml
    assert out.in_links == [3, 4, 1, 2]
    assert out.in_link_slots == [0, 0, 3, 1]
    assert a.out_links == [2, 3, 4, 0] and a.out_link_slots == [0, 1, 1, 2]

    # negation wrapper
    neg = ~a
    assert type(neg) is DisconnectingModule
    assert (~neg) is a and neg.orig is a
    assert vars(neg) == {"orig": a}
    assert neg.index == a.index and neg.in_links is a.in_links
    neg.volume = 77
    assert a.volume == 77 and "volume" not in vars(neg)
    try:
        neg.no_such_attribute
    except AttributeError:
        pass
    else:
        raise AssertionError("missing attribute must raise AttributeError")
    try:
        neg >> b
    except TypeError:
        pass
    else:
        raise AssertionError("a negated module is not a valid left operand")
    assert not isinstance(neg, Module)
    ret = out << ~a
    assert type(ret) is DisconnectingModule and (~ret) is a
    assert out.in_links == [3, 4, -1, 2] and out.in_link_slots == [0, 0, -1, 1]
    assert a.out_links == [2, 3, 4, -1] and a.out_link_slots == [0, 1, 1, -1]
    # disconnecting again (early exit) inside a list must not stop the rest
    before_c = snapshot([c])
    p.connect([~a, b, ~c], [~out])
    assert out.in_links == [-1, 4, -1, -1]
    assert b.out_links == [3, -1] and c.out_links == [-1, 4]
    assert snapshot([c]) != before_c
    # reconnect after disconnect appends, it does not reuse freed slots
    a >> out
    assert out.in_links == [-1, 4, -1, -1, 1] and out.in_link_slots == [-1, 0, -1, -1, 4]
    assert a.out_links == [2, 3, 4, -1, 0] and a.out_link_slots == [0, 1, 1, -1, 4]
    # connecting an already connected pair inside a list continues with the rest
    p.connect([a, b, c, d], out)
    assert out.in_links == [-1, 4, -1, -1, 1, 2, 3]
    # self link
    b >> b
    assert b.in_links[-1] == b.index and b.out_links[-1] == b.index
    assert b.in_link_slots[-1] == len(b.out_links) - 1
    assert b.out_link_slots[-1] == len(b.in_links) - 1
    b >> ~b
    assert b.in_links[-1] == -1 and b.out_links[-1] == -1
    # empty operand lists do nothing
    snap = snapshot([out, a, b, c, d])
    p.connect([], [a, b])
    p.connect([a, b], [])
    assert (a >> []) == [] and type(a << []) is ModuleList
    assert snapshot([out, a, b, c, d]) == snap

    # a generator on the right is consumed by the first module on the left
    q, (qo, x, y, z) = new_project(3)
    q.connect([x, y], (mod for mod in [z, qo]))
    assert x.out_links == [3, 0] and y.out_links == []
    q.connect((mod for mod in [y]), (mod for mod in [z]))
    assert y.out_links == [3] and z.in_links == [1, 2]

    # foreign modules are refused, before or after partial application
    r, (ro, s, t) = new_project(2)
    loose = m.Amplifier()
    for args in [(x, s), (s, x), (loose, s), (s, loose), (~x, s), (s, ~x), ([None], s)]:
        snap = snapshot([qo, x, y, z, ro, s, t])
        try:
            r.connect(*args)
        except ModuleOwnershipError as e:
            assert type(e) is ModuleOwnershipError
            assert isinstance(e.__context__, ValueError)
            assert str(e) == (
                "Modules must have same parent to be connected or disconnected"
            )
        else:
            raise AssertionError("expected ModuleOwnershipError")
        assert snapshot([qo, x, y, z, ro, s, t]) == snap
    for op in (lambda: s >> x, lambda: s << x, lambda: ModuleList(r, [s]) >> [x]):
        try:
            op()
        except ModuleOwnershipError:
            pass
        else:
            raise AssertionError("expected ModuleOwnershipError")
    try:
        r.connect([s, x], [t, ro])
    except ModuleOwnershipError:
        pass
    else:
        raise AssertionError("expected ModuleOwnershipError")
    assert s.out_links == [2, 0] and t.in_links == [1] and ro.in_links == [1]
    assert x.out_links == [3, 0]
    # a module without project cannot use the operators at all
    try:
        loose >> s
    except AttributeError:
        pass
    else:
        raise AssertionError("expected AttributeError")

    # a bare None is neither a module nor a list
    for args in [(None, s), (s, None)]:
        try:
            r.connect(*args)
        except TypeError:
            pass
        else:
            raise AssertionError("expected TypeError")

    # an empty slot in the module list is found but has no tables
    r.attach_module(None)
    for args, missing in [(([None], s), "out_links"), ((s, [None]), "in_links"),
                          (([None], [None]), "in_links"), ((~s, [None]), "in_links")]:
        snap = snapshot([ro, s, t])
        try:
            r.connect(*args)
        except AttributeError as e:
            assert missing in str(e), str(e)
        else:
            raise AssertionError("expected AttributeError")
        assert snapshot([ro, s, t]) == snap

    # tables that disagree: the lookup fails before anything is blanked
    u, (uo, v, w) = new_project(2)
    v >> w
    v.out_links[0] = -1
    snap = snapshot([uo, v, w])
    try:
        v >> ~w
    except ValueError as e:
        assert not isinstance(e, ModuleOwnershipError)
    else:
        raise AssertionError("expected ValueError")
    assert snapshot([uo, v, w]) == snap
    # slot table shorter than link table: links are blanked first, then IndexError
    u2, (u2o, v2, w2) = new_project(2)
    v2 >> w2
    del w2.in_link_slots[:]
    try:
        u2.connect(v2, ~w2)
    except IndexError:
        pass
    else:
        raise AssertionError("expected IndexError")
    assert w2.in_links == [-1] and v2.out_links == [-1] and v2.out_link_slots == [0]

    # fresh modules start with four distinct empty tables
    fresh = m.Amplifier()
    tables = [getattr(fresh, name) for name in TABLES]
    assert tables == [[], [], [], []]
    assert len({id(tb) for tb in tables}) == 4
    assert [k for k in vars(fresh) if "link" in k] == list(TABLES)
    mm = m.MetaModule()
    assert [getattr(mm, name) for name in TABLES] == [[], [], [], []]
    assert [k for k in vars(mm) if "link" in k] == list(TABLES)

    # ModuleList is a plain list plus a parent
    ml = ModuleList(p)
    assert ml == [] and ml.parent is p
    ml = ModuleList(p, (a, b))
    assert ml == [a, b] and isinstance(ml, list)
    assert Module.__lshift__ and Module.__rshift__ and Module.__invert__
    assert ModuleList.__lshift__ and ModuleList.__rshift__
    assert not hasattr(ModuleList, "__invert__")
    assert not hasattr(DisconnectingModule, "__rshift__")


def main():
    fixed_cases()
    runs = exhaustive(2, 3) + exhaustive(3, 2)
    for seed in (1, 2, 3):
        random_histories(seed)
    print("exhaustive histories:", runs)
    print("PASS")
    return 0


if __name__ == "__main__":
    sys.exit(main())
