"""Behaviour check for the chunk-decoding tidy-up in rv.readers.*.

1. Every process_XXXX handler of SunVoxReader / ModuleReader / PatternReader /
   PatternCloneReader is called directly with well-formed, boundary and
   malformed chunk bodies; results are compared with values computed here
   with struct / bytes operations.
2. Whole files (fixtures and generated projects) are loaded and every loaded
   field is compared with an independent decoding of the chunk stream.
3. CVAL handling (order, surplus values, warnings) and SLNK/SLnK handling
   (trailing -1 entries, odd sizes) are checked in detail.

Run:  cd <root> && PYTHONPATH=<root>/src/python /venv/bin/python check.py
"""
import glob
import logging
import os
import random
import struct
import sys
from io import BytesIO
from struct import pack, unpack

from rv.api import NOTECMD, Pattern, PatternClone, Project, Synth, m, read_sunvox_file
from rv.lib.iff import chunks as read_chunks
from rv.lib.iff import write_chunk
from rv.modules import MODULE_CLASSES
from rv.modules.module import Chunk
from rv.readers.module import ModuleReader
from rv.readers.pattern import PatternCloneReader, PatternReader
from rv.readers.reader import Reader, ReaderFinished
from rv.readers.sunvox import SunVoxReader

FAILURES = []
LOGGED = []


class _Collect(logging.Handler):
    def emit(self, record):
        if record.levelno >= logging.WARNING:
            LOGGED.append((record.name, record.getMessage()))


_root = logging.getLogger()
_root.addHandler(_Collect())
_root.setLevel(logging.WARNING)


def expect(cond, label):
    if not cond:
        FAILURES.append(label)
        print("FAIL:", label)


def raises(exc, fn, label):
    try:
        fn()
    except exc:
        return True
    except Exception as e:  # noqa
        expect(False, label + ": expected %s, got %r" % (exc.__name__, e))
        return False
    expect(False, label + ": expected %s, nothing raised" % exc.__name__)
    return False


def ref_text(data):
    cut = len(data)
    for i, b in enumerate(data):
        if b == 0:
            cut = i
            break
    return data[:cut].decode("utf8")


U32 = [0, 1, 7, 255, 256, 0x7FFFFFFF, 0x80000000, 0xFFFFFFFF]
I32 = [0, 1, -1, 255, -256, 0x7FFFFFFF, -0x80000000]
TEXTS = [
    b"",
    b"\0",
    b"abc",
    b"abc\0",
    b"abc\0def\0",
    b"\0abc",
    "gerät ♫".encode("utf8") + b"\0\0\0",
    ("x" * 30 + "é").encode("utf8"),
    b"a" * 32,
    b"a" * 31 + b"\0",
]
BAD_TEXTS = [b"\xff\xfe", b"ab\xc3", b"\xc3\0"]
BAD_INTS = [b"", b"\0", b"\0\0\0", b"\0" * 5, b"\0" * 8]

# tag -> (attribute, kind)
PROJECT_FIELDS = {
    "FLGS": ("flags", "I"),
    "BPM": ("initial_bpm", "I"),
    "SPED": ("initial_tpl", "I"),
    "TGRD": ("time_grid", "I"),
    "TGD2": ("time_grid2", "I"),
    "GVOL": ("global_volume", "I"),
    "NAME": ("name", "s"),
    "MSCL": ("modules_scale", "I"),
    "MZOO": ("modules_zoom", "I"),
    "MXOF": ("modules_x_offset", "i"),
    "MYOF": ("modules_y_offset", "i"),
    "LMSK": ("modules_layer_mask", "I"),
    "CURL": ("modules_current_layer", "I"),
    "TIME": ("timeline_position", "i"),
    "REPS": ("restart_position", "i"),
    "SELS": ("selected_module", "I"),
    "LGEN": ("selected_generator", "i"),
    "PATN": ("current_pattern", "I"),
    "PATT": ("current_track", "I"),
    "PATL": ("current_line", "I"),
}
MODULE_FIELDS = {
    "SFFF": ("flags", "I"),
    "SNAM": ("name", "s"),
    "SFIN": ("mod_finetune", "i"),
    "SREL": ("mod_relative_note", "i"),
    "SXXX": ("x", "i"),
    "SYYY": ("y", "i"),
    "SZZZ": ("layer", "I"),
    "SSCL": ("mod_scale", "I"),
    "SMIN": ("midi_out_name", "s"),
    "SMIC": ("midi_out_channel", "i"),
    "SMIB": ("midi_out_bank", "i"),
    "SMIP": ("midi_out_program", "i"),
}
PATTERN_FIELDS = {
    "PNME": ("name", "s"),
    "PCHN": ("tracks", "I"),
    "PLIN": ("lines", "I"),
    "PYSZ": ("y_size", "I"),
    "PFLG": ("flags_PFLG", "I"),
    "PFFF": ("flags_PFFF", "I"),
    "PXXX": ("x", "i"),
    "PYYY": ("y", "i"),
}
CLONE_FIELDS = {
    "PFFF": ("flags_PFFF", "I"),
    "PXXX": ("x", "i"),
    "PYYY": ("y", "i"),
}


def exercise_fields(make_reader, fields, label):
    """Call each handler on a reader whose object is already set."""
    for tag, (attr, kind) in sorted(fields.items()):
        name = "%s.process_%s" % (label, tag)
        if kind in "Ii":
            values = U32 if kind == "I" else I32
            for v in values:
                reader = make_reader()
                getattr(reader, "process_" + tag)(pack("<" + kind, v))
                got = getattr(reader.object, attr)
                expect(got == v and type(got) is int, "%s(%r) -> %r" % (name, v, got))
            for bad in BAD_INTS:
                reader = make_reader()
                sentinel = object()
                try:
                    setattr(reader.object, attr, sentinel)
                    can_mark = True
                except Exception:  # noqa
                    can_mark = False
                if raises(struct.error, lambda: getattr(reader, "process_" + tag)(bad), name + " bad size %d" % len(bad)):
                    if can_mark:
                        expect(getattr(reader.object, attr) is sentinel, name + ": attribute untouched after error")
        else:
            for raw in TEXTS:
                reader = make_reader()
                getattr(reader, "process_" + tag)(raw)
                got = getattr(reader.object, attr)
                expect(got == ref_text(raw) and type(got) is str, "%s(%r) -> %r" % (name, raw, got))
            for raw in BAD_TEXTS:
                reader = make_reader()
                raises(UnicodeDecodeError, lambda: getattr(reader, "process_" + tag)(raw), name + " bad utf8 %r" % raw)


def sunvox_reader():
    r = SunVoxReader(BytesIO())
    r.object = Project()
    return r


def module_reader():
    r = ModuleReader(BytesIO(), index=3)
    r.object = m.Generator()
    return r


def pattern_reader():
    r = PatternReader(BytesIO())
    r.process_PDTA(b"\0" * 8)
    return r


def clone_reader():
    r = PatternCloneReader(BytesIO())
    r.process_PPAR(pack("<I", 2))
    return r


def part_handlers():
    exercise_fields(sunvox_reader, PROJECT_FIELDS, "SunVoxReader")
    exercise_fields(module_reader, MODULE_FIELDS, "ModuleReader")
    exercise_fields(pattern_reader, PATTERN_FIELDS, "PatternReader")
    exercise_fields(clone_reader, CLONE_FIELDS, "PatternCloneReader")

    # handlers living on the expected classes (dispatch is by attribute lookup)
    for cls, fields in [
        (SunVoxReader, PROJECT_FIELDS),
        (ModuleReader, MODULE_FIELDS),
        (PatternReader, PATTERN_FIELDS),
        (PatternCloneReader, CLONE_FIELDS),
    ]:
        for tag in fields:
            expect(callable(getattr(cls, "process_" + tag, None)), "%s has process_%s" % (cls.__name__, tag))
        expect(issubclass(cls, Reader), cls.__name__ + " is a Reader")
    expect(not hasattr(PatternCloneReader, "process_PNME"), "clone reader has no PNME handler")
    expect(not hasattr(PatternCloneReader, "process_PDTA"), "clone reader has no PDTA handler")
    expect(not hasattr(PatternReader, "process_PPAR"), "pattern reader has no PPAR handler")

    # SFGS splits into two 3-bit groups
    for v in [0, 1, 0b111, 0b101010, 0b111111, 0xFFFFFFFF, 0b1000000]:
        r = sunvox_reader()
        r.process_SFGS(pack("<I", v))
        expect(r.object.receive_sync_midi == v & 7, "SFGS midi %d" % v)
        expect(r.object.receive_sync_other == (v >> 3) & 7, "SFGS other %d" % v)
    for bad in BAD_INTS:
        raises(struct.error, lambda: sunvox_reader().process_SFGS(bad), "SFGS bad size")

    # VERS / BVER
    r = sunvox_reader()
    r.process_VERS(bytes([1, 2, 3, 4]))
    r.process_BVER(bytes([5, 6, 7, 8]))
    expect(r.object.loaded_sunvox_version == (4, 3, 2, 1), "VERS reversed")
    expect(r.object.based_on_version == (8, 7, 6, 5), "BVER reversed")

    # SMII: bit 0 = always, rest = channel
    for v in [0, 1, 2, 3, 32, 33, 0xFFFFFFFF]:
        r = module_reader()
        r.process_SMII(pack("<I", v))
        expect(r.object.midi_in_always is bool(v & 1), "SMII always %d" % v)
        expect(r.object.midi_in_channel == v >> 1, "SMII channel %d" % v)
    for bad in BAD_INTS:
        raises(struct.error, lambda: module_reader().process_SMII(bad), "SMII bad size")

    # SVPR / SCOL / CHNK
    r = module_reader()
    r.process_SVPR(pack("<I", 0x0A0B0C0D))
    expect(int(r.object.visualization) == 0x0A0B0C0D, "SVPR")
    r.process_SCOL(bytes([1, 2, 3]))
    expect(r.object.color == (1, 2, 3), "SCOL")
    r.process_CHNK(pack("<I", 17))
    expect(r.object._reader_chnk == 17, "CHNK")
    raises(struct.error, lambda: module_reader().process_CHNK(b"\0"), "CHNK bad size")

    # CHNM / CHDT / CHFF / CHFR build a Chunk and hand it over on the next CHNM / SEND
    loaded = []
    r = module_reader()
    r.object.load_chunk = loaded.append
    r.process_CHNM(pack("<I", 5))
    expect(isinstance(r._current_chunk, Chunk) and r._current_chunk.chnm == 5, "CHNM starts a chunk")
    expect((r._current_chunk.chff, r._current_chunk.chfr, r._current_chunk.chdt) == (0, 44100, None), "chunk defaults")
    r.process_CHDT(b"payload")
    r.process_CHFF(pack("<I", 9))
    r.process_CHFR(pack("<I", 22050))
    first = r._current_chunk
    expect((first.chdt, first.chff, first.chfr) == (b"payload", 9, 22050), "chunk fields")
    r.process_CHNM(pack("<I", 0xFFFFFFFF))
    expect(loaded == [first], "previous chunk loaded on next CHNM")
    expect(r._current_chunk is not first and r._current_chunk.chnm == 0xFFFFFFFF, "second chunk started")
    r2 = module_reader()
    r2.object.load_chunk = loaded.append
    raises(struct.error, lambda: r2.process_CHNM(b"\0\0"), "CHNM bad size")
    expect(isinstance(r2._current_chunk, Chunk) and r2._current_chunk.chnm is None, "CHNM bad size leaves a blank chunk")
    r3 = module_reader()
    raises(AttributeError, lambda: r3.process_CHFF(pack("<I", 1)), "CHFF without CHNM")
    raises(struct.error, lambda: r3.process_CHFF(b""), "CHFF bad size is reported first")

    # PPAR
    for v in U32:
        r = PatternCloneReader(BytesIO())
        r.process_PPAR(pack("<I", v))
        expect(isinstance(r.object, PatternClone) and r.object.source == v, "PPAR %d" % v)
    r = PatternCloneReader(BytesIO())
    raises(struct.error, lambda: r.process_PPAR(b"\0\0\0"), "PPAR bad size")
    expect(r._object is None, "PPAR bad size: no object created")
    raises(ReaderFinished, lambda: clone_reader().process_PEND(b""), "clone PEND finishes")

    # pattern colours / icon / PEND
    r = pattern_reader()
    r.process_PFGC(bytes([9, 8, 7]))
    r.process_PBGC(bytes([1, 2, 3]))
    r.process_PICO(b"i" * 32)
    expect((r.object.fg_color, r.object.bg_color, r.object.icon) == ((9, 8, 7), (1, 2, 3), b"i" * 32), "pattern colours/icon")
    r = PatternReader(BytesIO())
    raw = pack("<BBHHH", 60, 100, 2, 0x0305, 0x1234) * 2
    r.process_PDTA(raw)
    r.process_PCHN(pack("<I", 2))
    r.process_PLIN(pack("<I", 1))
    raises(ReaderFinished, lambda: r.process_PEND(b""), "pattern PEND finishes")
    expect(r.object.raw_data == raw, "pattern data applied at PEND")

    # STYP
    r = ModuleReader(BytesIO(), index=2)
    r.process_chunks  # noqa (not called: we drive the handlers by hand)
    r.object = MODULE_CLASSES["Generator"].__mro__[1]() if False else m.Generator.__bases__[0]()
    r.process_SFFF(pack("<I", 0x51))
    r.process_SNAM(b"my amp".ljust(32, b"\0"))
    r.process_STYP(b"Amplifier\0junk")
    expect(type(r.object) is m.Amplifier, "STYP picks the class")
    expect(r.object.name == "my amp" and r.object.mtype == "Amplifier", "STYP keeps name, sets mtype")
    expect(r.object.flags == 0x51 | m.Amplifier().default_flags, "STYP merges flags")
    attached = [n for n, c in r.object.controllers.items() if c.attached(r.object)]
    expect(r._controller_keys == attached, "STYP controller keys")
    r = module_reader()
    raises(KeyError, lambda: r.process_STYP(b"NoSuchModule\0"), "STYP unknown type")
    r = module_reader()
    r.process_STYP(b"MetaModule")
    expect(r._controller_keys[-1] == "user_defined_96" or r._controller_keys[-1].startswith("user_defined_"), "STYP metamodule keys")


def part_links():
    i32 = lambda *v: pack("<%di" % len(v), *v)  # noqa
    cases = [
        ((), ()),
        ((1,), (1,)),
        ((1, 2, 3), (1, 2, 3)),
        ((1, -1), (1,)),
        ((1, -1, -1, -1), (1,)),
        ((-1, 1), (-1, 1)),
        ((-1,), ()),
        ((-1, -1), ()),
        ((1, -1, 2, -1), (1, -1, 2)),
        ((0x7FFFFFFF, -0x80000000), (0x7FFFFFFF, -0x80000000)),
        ((-2,), (-2,)),
    ]
    for handler, attr in [("process_SLNK", "in_links"), ("process_SLnK", "in_link_slots")]:
        other = "in_link_slots" if attr == "in_links" else "in_links"
        for given, want in cases:
            r = module_reader()
            getattr(r, handler)(i32(*given))
            expect(getattr(r.object, attr) == list(want), "%s %r -> %r" % (handler, given, getattr(r.object, attr)))
            expect(getattr(r.object, other) == [], "%s leaves %s alone" % (handler, other))
        # entries are appended to what is already there; trimming looks at the result
        r = module_reader()
        getattr(r.object, attr).extend([7, -1])
        getattr(r, handler)(i32(-1, -1))
        expect(getattr(r.object, attr) == [7], "%s appends then trims" % handler)
        r = module_reader()
        getattr(r.object, attr).extend([7, -1])
        getattr(r, handler)(b"")
        expect(getattr(r.object, attr) == [7, -1], "%s with empty body does nothing" % handler)
        r = module_reader()
        getattr(r.object, attr).extend([7, -1])
        getattr(r, handler)(i32(5))
        expect(getattr(r.object, attr) == [7, -1, 5], "%s keeps inner -1" % handler)
        for size in (1, 2, 3, 5, 6, 7, 9):
            r = module_reader()
            getattr(r.object, attr).append(4)
            raises(struct.error, lambda: getattr(r, handler)(b"\x01" * size), "%s size %d" % (handler, size))
            expect(getattr(r.object, attr) == [4], "%s size %d leaves table alone" % (handler, size))


def part_cvals():
    # values are applied last-to-first; surplus values only warn
    gen = m.Generator()
    keys = [n for n, c in gen.controllers.items() if c.attached(gen)]
    r = ModuleReader(BytesIO(), index=1)
    r.object = m.Generator.__bases__[0]()
    r.process_SFFF(pack("<I", 0x49))
    r.process_SNAM(b"g".ljust(32, b"\0"))
    r.process_STYP(b"Generator\0")
    order = []
    real_set_raw = r.object.set_raw

    def spy(name, raw):
        order.append((name, raw))
        real_set_raw(name, raw)

    r.object.set_raw = spy
    r.object.controllers_loaded.clear()
    raws = []
    for k in keys:
        raws.append(gen.get_raw(k))
    for v in raws:
        r.process_CVAL(pack("<i", v))
    r.process_CVAL(pack("<i", 1234))
    r.process_CVAL(pack("<i", -5))
    raises(struct.error, lambda: r.process_CVAL(b"\0\0"), "CVAL bad size")
    expect(r._cvals == raws + [1234, -5], "CVAL collected in order")
    del LOGGED[:]
    raises(ReaderFinished, lambda: r.process_SEND(b""), "SEND finishes")
    expect(order == list(reversed(list(zip(keys, raws)))), "SEND applies values last to first")
    expect(r.object.controllers_loaded == set(keys), "SEND marks controllers loaded")
    msgs = [msg for name, msg in LOGGED if name == "rv.readers.module"]
    n = len(keys)
    expect(
        msgs
        == [
            "Unsupported controller at index %d with raw value -5" % (n + 1),
            "Unsupported controller at index %d with raw value 1234" % n,
        ],
        "SEND warns about surplus values, highest index first: %r" % msgs,
    )
    for k in keys:
        expect(getattr(r.object, k) == getattr(gen, k), "SEND value %s" % k)

    # fewer values than controllers: the rest keep their defaults and are not marked
    r = ModuleReader(BytesIO(), index=1)
    r.object = m.Generator.__bases__[0]()
    r.process_STYP(b"Generator\0")
    r.object.controllers_loaded.clear()
    r.process_CVAL(pack("<i", gen.get_raw(keys[0])))
    raises(ReaderFinished, lambda: r.process_SEND(b""), "SEND finishes (short)")
    expect(r.object.controllers_loaded == {keys[0]}, "short CVAL list: only first marked")

    # no values at all
    r = ModuleReader(BytesIO(), index=0)
    r.object = m.Output()
    del LOGGED[:]
    raises(ReaderFinished, lambda: r.process_SEND(b""), "SEND finishes (none)")
    expect(LOGGED == [], "no CVAL: silent")


# --------------------------------------------------------------------------
# whole files
# --------------------------------------------------------------------------
def decode(kind, body):
    if kind == "s":
        return ref_text(body)
    return unpack("<" + kind, body)[0]


def verify_against_stream(data, label):
    """Load data and compare every simple field with the chunk stream."""
    project = read_sunvox_file(BytesIO(data))
    items = [(name.decode("utf8").strip(), body) for name, body in read_chunks(BytesIO(data))]
    expect(items[0][0] == "SVOX", label + ": magic")
    pos = 1
    # project header
    while pos < len(items) and items[pos][0] not in ("PDTA", "PPAR", "PEND", "SFFF", "SEND"):
        tag, body = items[pos]
        if tag in PROJECT_FIELDS:
            attr, kind = PROJECT_FIELDS[tag]
            expect(getattr(project, attr) == decode(kind, body), "%s: project.%s" % (label, attr))
        elif tag == "SFGS":
            v = decode("I", body)
            expect((project.receive_sync_midi, project.receive_sync_other) == (v & 7, (v >> 3) & 7), label + ": SFGS")
        elif tag == "VERS":
            expect(project.loaded_sunvox_version == tuple(reversed(body)), label + ": VERS")
        elif tag == "BVER":
            expect(project.based_on_version == tuple(reversed(body)), label + ": BVER")
        pos += 1
    # pattern slots
    slot = 0
    while pos < len(items) and items[pos][0] not in ("SFFF", "SEND"):
        block = []
        while items[pos][0] != "PEND":
            block.append(items[pos])
            pos += 1
        pos += 1
        pat = project.patterns[slot]
        if not block:
            expect(pat is None, "%s: pattern slot %d empty" % (label, slot))
        elif block[0][0] == "PPAR":
            expect(isinstance(pat, PatternClone) and pat.source == decode("I", block[0][1]), "%s: clone %d" % (label, slot))
            for tag, body in block[1:]:
                if tag in CLONE_FIELDS:
                    attr, kind = CLONE_FIELDS[tag]
                    expect(getattr(pat, attr) == decode(kind, body), "%s: clone %d.%s" % (label, slot, attr))
        else:
            expect(isinstance(pat, Pattern), "%s: pattern %d" % (label, slot))
            for tag, body in block:
                if tag in PATTERN_FIELDS:
                    attr, kind = PATTERN_FIELDS[tag]
                    expect(getattr(pat, attr) == decode(kind, body), "%s: pattern %d.%s" % (label, slot, attr))
                elif tag == "PFGC":
                    expect(tuple(pat.fg_color) == tuple(body), "%s: pattern %d fg" % (label, slot))
                elif tag == "PBGC":
                    expect(tuple(pat.bg_color) == tuple(body), "%s: pattern %d bg" % (label, slot))
            if project.loaded_sunvox_version >= (1, 9, 5, 0):
                expect(pat.raw_data == block[0][1][: pat.tracks * pat.lines * 8], "%s: pattern %d data" % (label, slot))
        slot += 1
    expect(slot == len(project.patterns), "%s: pattern slot count %d vs %d" % (label, slot, len(project.patterns)))
    # module slots
    index = 0
    while pos < len(items):
        block = []
        while items[pos][0] != "SEND":
            block.append(items[pos])
            pos += 1
        pos += 1
        mod = project.modules[index] if index < len(project.modules) else None
        if block:
            expect(mod is not None, "%s: module %d present" % (label, index))
            cvals = []
            for tag, body in block:
                if tag == "CHNK":
                    break
                if tag in MODULE_FIELDS:
                    attr, kind = MODULE_FIELDS[tag]
                    want = decode(kind, body)
                    if attr == "flags" and mod.mtype != "Output":
                        want |= mod.default_flags  # merged in when the type is known
                    if attr == "name" and mod.mtype == "Output":
                        want = "Output"  # the output module cannot be renamed
                    expect(getattr(mod, attr) == want, "%s: module %d.%s" % (label, index, attr))
                elif tag == "STYP":
                    expect(mod.mtype == ref_text(body), "%s: module %d type" % (label, index))
                elif tag == "SMII":
                    v = decode("I", body)
                    expect((mod.midi_in_always, mod.midi_in_channel) == (bool(v & 1), v >> 1), "%s: module %d SMII" % (label, index))
                elif tag == "SVPR":
                    expect(int(mod.visualization) == decode("I", body), "%s: module %d SVPR" % (label, index))
                elif tag == "SCOL":
                    expect(tuple(mod.color) == tuple(body), "%s: module %d colour" % (label, index))
                elif tag == "SLNK":
                    links = list(unpack("<%di" % (len(body) // 4), body))
                    while links and links[-1] == -1:
                        links.pop()
                    expect(mod.in_links == links, "%s: module %d in_links" % (label, index))
                elif tag == "SLnK":
                    slots = list(unpack("<%di" % (len(body) // 4), body))
                    while slots and slots[-1] == -1:
                        slots.pop()
                    expect(mod.in_link_slots == slots, "%s: module %d in_link_slots" % (label, index))
                elif tag == "CVAL":
                    cvals.append(decode("i", body))
            if mod is not None and mod.mtype != "MetaModule":
                keys = [n for n, c in mod.controllers.items() if c.attached(mod)]
                if len(keys) == len(cvals):
                    got = [mod.get_raw(k) for k in keys]
                    expect(got == cvals, "%s: module %d (%s) controller values" % (label, index, mod.mtype))
        else:
            expect(mod is None, "%s: module slot %d empty" % (label, index))
        index += 1
    return project


ATTACHABLE = sorted(k for k in MODULE_CLASSES if k != "Output")
NAMES = ["", "n", "x" * 31 + "é", "x" * 40, "♫" * 12, "naïve"]


def randomise_controllers(rng, mod):
    from rv.controller import Range

    for name, ctl in mod.controllers.items():
        if not ctl.attached(mod):
            continue
        t = ctl.instance_value_type(mod)
        try:
            if isinstance(t, Range):
                setattr(mod, name, rng.randint(t.min, t.max))
            elif t is bool:
                setattr(mod, name, rng.random() < 0.5)
            elif isinstance(t, type) and hasattr(t, "__members__"):
                setattr(mod, name, rng.choice(list(t)))
        except Exception:  # noqa  (read-only or dependent controllers)
            pass


def random_project(rng, types):
    p = Project()
    p.name = rng.choice(NAMES)
    p.flags = rng.getrandbits(32)
    p.initial_bpm = rng.randrange(1, 800)
    p.initial_tpl = rng.randrange(1, 31)
    p.global_volume = rng.randrange(0, 256)
    p.modules_x_offset = rng.randrange(-2**31, 2**31)
    p.modules_y_offset = rng.randrange(-2**31, 2**31)
    p.modules_layer_mask = rng.getrandbits(32)
    p.timeline_position = rng.choice([0, -1, 5, -(2**31)])
    p.restart_position = rng.choice([0, 3, -9])
    p.selected_generator = rng.choice([-1, 4])
    p.receive_sync_midi = rng.randrange(8)
    p.receive_sync_other = rng.randrange(8)
    mods = [p.output]
    for t in types:
        if rng.random() < 0.15:
            p.attach_module(None)
        mod = p.new_module(MODULE_CLASSES[t])
        mod.name = rng.choice(NAMES)
        mod.x, mod.y = rng.randrange(-4000, 4000), rng.randrange(-4000, 4000)
        mod.layer = rng.randrange(8)
        mod.mod_finetune = rng.randrange(-256, 257)
        mod.mod_relative_note = rng.randrange(-100, 100)
        mod.color = tuple(rng.randrange(256) for _ in range(3))
        mod.midi_in_always = rng.random() < 0.5
        mod.midi_in_channel = rng.randrange(17)
        mod.midi_out_name = rng.choice([None, "out", "gerät"])
        mod.midi_out_bank = rng.randrange(-1, 128)
        mod.midi_out_program = rng.randrange(-1, 128)
        randomise_controllers(rng, mod)
        mods.append(mod)
    for _ in range(len(mods) * 2):
        a, b = rng.choice(mods), rng.choice(mods)
        if a is not b:
            p.connect(~a if rng.random() < 0.2 else a, b)
    for _ in range(rng.randrange(4)):
        r = rng.random()
        if r < 0.25:
            p.attach_pattern(None)
        elif r < 0.45 and p.patterns and isinstance(p.patterns[0], Pattern):
            p.attach_pattern(PatternClone(source=0, x=rng.randrange(-50, 500), y=rng.randrange(-50, 500)))
        else:
            pat = Pattern(
                name=rng.choice([None, "", "pät"]),
                tracks=rng.randrange(1, 5),
                lines=rng.randrange(1, 6),
                x=rng.randrange(-50, 500),
                y=rng.randrange(-50, 500),
                fg_color=(1, 2, 3),
                bg_color=(250, 251, 252),
            )
            for line in pat.data:
                for note in line:
                    note.note = rng.choice([NOTECMD.EMPTY, NOTECMD.C5, NOTECMD.NOTE_OFF])
                    note.vel = rng.randrange(130)
                    note.module = rng.randrange(0x10000)
                    note.ctl = rng.randrange(0x10000)
                    note.val = rng.randrange(0x10000)
            p.attach_pattern(pat)
    return p


def part_files():
    rng = random.Random(1234567)
    root = os.getcwd()
    files = sorted(glob.glob(os.path.join(root, "tests", "files", "**", "*.sunvox"), recursive=True))
    expect(len(files) >= 4, "fixtures found (run from the repository root)")
    for path in files:
        with open(path, "rb") as f:
            data = f.read()
        project = verify_against_stream(data, "fixture " + os.path.basename(path))
        again = project.read()
        expect(read_sunvox_file(BytesIO(again)).read() == again, "fixture %s: stable after resave" % os.path.basename(path))

    synths = sorted(glob.glob(os.path.join(root, "tests", "files", "*.sunsynth")))
    for path in synths:
        with open(path, "rb") as f:
            synth = read_sunvox_file(f)
        once = synth.read()
        twice = read_sunvox_file(BytesIO(once)).read()
        expect(once == twice, "synth %s: stable after resave" % os.path.basename(path))

    p = random_project(rng, ATTACHABLE)
    data = p.read()
    verify_against_stream(data, "all types")
    for i in range(40):
        k = rng.randrange(0, 7)
        p = random_project(rng, [rng.choice(ATTACHABLE) for _ in range(k)])
        data = p.read()
        q = verify_against_stream(data, "random %d" % i)
        for attr, _ in PROJECT_FIELDS.values():
            expect(getattr(q, attr) == getattr(p, attr), "random %d: project.%s survives" % (i, attr))
        data2 = q.read()
        expect(read_sunvox_file(BytesIO(data2)).read() == data2, "random %d: stable" % i)

    # a truncated integer chunk inside a file surfaces as struct.error
    p = Project()
    items = [[n, b] for n, b in read_chunks(BytesIO(p.read()))]
    for tag in (b"BPM ", b"MXOF", b"SFIN", b"SMIC"):
        out = BytesIO()
        for n, b in items:
            write_chunk(out, n, b[:3] if n == tag else b)
        raises(struct.error, lambda: read_sunvox_file(BytesIO(out.getvalue())), "truncated %r in file" % tag)
    out = BytesIO()
    for n, b in items:
        write_chunk(out, n, b"\xff\xff\0" if n == b"NAME" else b)
    raises(UnicodeDecodeError, lambda: read_sunvox_file(BytesIO(out.getvalue())), "bad utf8 project name in file")


def main():
    part_handlers()
    part_links()
    part_cvals()
    part_files()
    if FAILURES:
        print("%d check(s) failed" % len(FAILURES))
        sys.exit(1)
    print("PASS")


if __name__ == "__main__":
    main()
