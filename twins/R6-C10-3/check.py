"""Behaviour check for Module.get_raw / Module.set_raw (rv/modules/module.py):
raw encodings for every controller of every module type, enum / bool / None
handling, and the out-of-range paths (raise vs. warn-and-keep).

Runs against whatever `rv` is importable via PYTHONPATH; prints PASS on success.
"""
import logging
import sys
from enum import Enum

import rv.errors
import rv.modules.module as mm
from rv.controller import CompactRange, DependentRange, NoOffsetRange, Range, WarnOnlyRange
from rv.errors import (
    ControllerValueError,
    RangeValidationError,
    override_raise_controller_value_errors,
)
from rv.modules import MODULE_CLASSES
from rv.modules.amplifier import Amplifier
from rv.modules.analoggenerator import AnalogGenerator
from rv.modules.lfo import Lfo
from rv.modules.metamodule import MetaModule
from rv.modules.multisynth import MultiSynth
from rv.modules.vorbisplayer import VorbisPlayer

failures = []


def expect(cond, msg):
    if not cond:
        failures.append(msg)


def sample_values(lo, hi):
    if hi - lo <= 1024:
        return list(range(lo, hi + 1))
    vals = set(range(lo, lo + 150)) | set(range(hi - 150, hi + 1))
    vals |= set(range(lo, hi + 1, 89))
    if lo <= 0 <= hi:
        vals |= set(range(max(lo, -40), min(hi, 40) + 1))
    return sorted(vals)


def ref_raw(t, v):
    if isinstance(t, NoOffsetRange):
        return v
    return v - t.min if t.min < 0 else v


records = []


class Catch(logging.Handler):
    def emit(self, record):
        records.append(record)


handler = Catch()
mm.log.addHandler(handler)
mm.log.setLevel(logging.WARNING)
mm.log.propagate = False
clog = logging.getLogger("rv.controller")
clog.addHandler(handler)
clog.propagate = False

# --- 1. every controller of every module type ---------------------------------
n_ctl = 0
n_pairs = 0
for mtype, cls in sorted(MODULE_CLASSES.items()):
    for name, ctl in cls.controllers.items():
        vt = ctl.value_type
        variants = []
        if isinstance(vt, DependentRange):
            for unit, rng in vt.range_map.items():
                m = cls()
                setattr(m, vt.ctl_name, unit)
                variants.append((m, rng))
        else:
            m = cls()
            variants.append((m, ctl.controller(m).instance_value_type(m)))
        for m, t in variants:
            n_ctl += 1
            if isinstance(t, Range):
                seen = set()
                for v in sample_values(t.min, t.max):
                    n_pairs += 1
                    m.controller_values[name] = v
                    raw = m.get_raw(name)
                    m.controller_values[name] = None
                    m.set_raw(name, raw)
                    back = m.controller_values[name]
                    ok = raw == ref_raw(t, v) and back == v and type(raw) is int
                    ok = ok and raw not in seen
                    ok = ok and (raw >= 0 or isinstance(t, NoOffsetRange))
                    seen.add(raw)
                    if not ok:
                        expect(False, f"{mtype}.{name} v={v} raw={raw!r} back={back!r}")
                        break
                # attribute access sees what set_raw stored
                m.set_raw(name, ref_raw(t, t.max))
                expect(getattr(m, name) == t.max, f"{mtype}.{name} getattr after set_raw")
            elif isinstance(t, type) and issubclass(t, Enum):
                for member in t:
                    n_pairs += 1
                    m.controller_values[name] = member
                    raw = m.get_raw(name)
                    expect(raw == member.value and type(raw) is int, f"{mtype}.{name} enum raw")
                    m.controller_values[name] = None
                    m.set_raw(name, raw)
                    expect(m.controller_values[name] is member, f"{mtype}.{name} enum back")
            elif t is bool:
                for b in (False, True):
                    n_pairs += 1
                    m.controller_values[name] = b
                    raw = m.get_raw(name)
                    expect(raw == int(b) and type(raw) is int, f"{mtype}.{name} bool raw")
                    m.controller_values[name] = None
                    m.set_raw(name, raw)
                    expect(m.controller_values[name] is b, f"{mtype}.{name} bool back")
            else:
                expect(False, f"{mtype}.{name}: unexpected value type {t!r}")
            # an unset value is stored as the encoding of 0
            m.controller_values[name] = None
            want0 = ref_raw(t, 0) if isinstance(t, Range) else 0
            expect(m.get_raw(name) == want0, f"{mtype}.{name} None -> {want0}")
expect(n_ctl > 300, f"expected many controllers, saw {n_ctl}")
expect(not records, f"no warnings expected in the sweep, got {len(records)}")

# --- 2. specific kinds --------------------------------------------------------
ms = MultiSynth()
expect(isinstance(MultiSynth.controllers["transpose"].value_type, CompactRange), "compact kind")
for v, raw in [(-128, 0), (-2, 126), (0, 128), (128, 256)]:
    ms.transpose = v
    expect(ms.get_raw("transpose") == raw, f"transpose {v} -> {raw}")
    ms.set_raw("transpose", raw)
    expect(ms.transpose == v, f"transpose raw {raw} -> {v}")

vp = VorbisPlayer()
for v in (-128, -1, 0, 1, 128):
    vp.finetune = v
    expect(vp.get_raw("finetune") == v, f"finetune {v} stored as-is")
    vp.set_raw("finetune", v)
    expect(vp.finetune == v, f"finetune raw {v}")

amp = Amplifier()
for v, raw in [(-128, 0), (0, 128), (128, 256)]:
    amp.balance = v
    expect(amp.get_raw("balance") == raw, f"balance {v} -> {raw}")
    amp.set_raw("balance", raw)
    expect(amp.balance == v, f"balance raw {raw}")
amp.set_raw("inverse", 1)
expect(amp.inverse is True and amp.get_raw("inverse") == 1, "bool true")
amp.set_raw("inverse", 0)
expect(amp.inverse is False and amp.get_raw("inverse") == 0, "bool false")
amp.set_raw("inverse", 7)
expect(amp.inverse is True, "bool from any non-zero raw")

ag = AnalogGenerator()
wf = AnalogGenerator.Waveform
for member in wf:
    ag.set_raw("waveform", member.value)
    expect(ag.waveform is member, f"waveform {member}")
    expect(ag.get_raw("waveform") == member.value, f"waveform raw {member}")
try:
    ag.set_raw("waveform", 9999)
except ValueError as e:
    expect(not isinstance(e, ControllerValueError), "bad enum raw is a plain ValueError")
else:
    expect(False, "bad enum raw must raise ValueError")

# unknown names
for call in (lambda: amp.get_raw("nope"), lambda: amp.set_raw("nope", 1)):
    try:
        call()
    except KeyError as e:
        expect(e.args == ("nope",), "KeyError carries the name")
    else:
        expect(False, "unknown controller must raise KeyError")

# unit-dependent ranges follow the unit controller
lfo = Lfo()
for unit, rng in Lfo.controllers["freq"].value_type.range_map.items():
    lfo.frequency_unit = unit
    lfo.set_raw("freq", rng.max)
    expect(lfo.freq == rng.max and lfo.get_raw("freq") == rng.max, f"lfo freq {unit}")
expect(all(isinstance(r, WarnOnlyRange) for r in Lfo.controllers["freq"].value_type.range_map.values()),
       "lfo ranges are warn-only")
del records[:]
lfo.frequency_unit = Lfo.FrequencyUnit.tick
lfo.set_raw("freq", 5000)
expect(lfo.freq == 5000, "warn-only range keeps out-of-range raw")
expect(len(records) == 1 and records[0].name == "rv.controller", "warn-only logs in rv.controller")
expect(records[0].getMessage() == str(RangeValidationError(5000, 1, 256)), "warn-only text")

# MetaModule user defined controllers resolve through .controller()
meta = MetaModule()
meta.set_raw("user_defined_1", 44100)
expect(meta.controller_values["user_defined_1"] == 44100, "user defined set_raw")
expect(meta.get_raw("user_defined_1") == 44100, "user defined get_raw")
meta.set_raw("volume", 1024)
expect(meta.volume == 1024 and meta.get_raw("volume") == 1024, "metamodule volume")

# --- 3. out-of-range: raise mode ----------------------------------------------
del records[:]
expect(rv.errors.RAISE_CONTROLLER_VALUE_ERRORS is True, "default is to raise")
amp = Amplifier(index=0x1F)
amp.volume = 300
for raw, shown in [(1025, 1025), (-1, -1), (100000, 100000)]:
    try:
        amp.set_raw("volume", raw)
    except ControllerValueError as e:
        expect(e.args == (f"1f(Amplifier).volume={shown} is not within [0, 1024]",), f"msg {e.args}")
        expect(isinstance(e.__cause__, RangeValidationError), "cause type")
        expect(e.__cause__.args == (shown, 0, 1024), "cause args")
        expect(isinstance(e, ValueError), "ControllerValueError is a ValueError")
    else:
        expect(False, f"volume raw {raw} must raise")
    expect(amp.volume == 300, "value untouched after failed set_raw")
amp2 = Amplifier()
for raw, shown in [(257, 129), (-1, -129)]:
    try:
        amp2.set_raw("balance", raw)
    except ControllerValueError as e:
        expect(e.args == (f"0(Amplifier).balance={shown} is not within [-128, 128]",), f"msg {e.args}")
        expect(e.__cause__.args == (shown, -128, 128), "cause args (offset range)")
    else:
        expect(False, f"balance raw {raw} must raise")
    expect(amp2.balance == 0, "balance untouched")
expect(not records, "raise mode logs nothing")

# --- 4. out-of-range: warn mode -----------------------------------------------
with override_raise_controller_value_errors(False):
    amp = Amplifier(index=3)
    amp.set_raw("volume", 2000)
    expect(amp.volume == 2000, "warn mode keeps decoded value")
    expect(len(records) == 1, "one warning")
    rec = records[0]
    expect(rec.name == "rv.modules.module" and rec.levelno == logging.WARNING, "logger/level")
    expect(rec.getMessage() == "3(Amplifier).volume=2000 is not within [0, 1024]", rec.getMessage())
    expect(rec.exc_info and isinstance(rec.exc_info[1], RangeValidationError), "exc_info attached")
    amp.set_raw("balance", 300)
    expect(amp.balance == 172, "warn mode keeps decoded (shifted) value")
    expect(len(records) == 2, "second warning")
    expect(records[1].getMessage() == "3(Amplifier).balance=172 is not within [-128, 128]",
           records[1].getMessage())
    expect(amp.get_raw("balance") == 300, "and re-encodes it to the same raw value")
    amp.set_raw("balance", 200)
    expect(amp.balance == 72 and len(records) == 2, "in-range value logs nothing")
    ms = MultiSynth(index=10)
    ms.set_raw("transpose", 400)
    expect(ms.transpose == 272 and len(records) == 3, "compact out of range kept")
    expect(records[2].getMessage() == "a(MultiSynth).transpose=272 is not within [-128, 128]",
           records[2].getMessage())
expect(rv.errors.RAISE_CONTROLLER_VALUE_ERRORS is True, "flag restored")

mm.log.removeHandler(handler)
clog.removeHandler(handler)

if failures:
    print("FAIL")
    for f in failures[:40]:
        print("  ", f)
    sys.exit(1)
print(f"PASS ({n_ctl} controller variants, {n_pairs} value pairs)")
