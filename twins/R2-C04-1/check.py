import hashlib
import io
import logging
import os
import struct
import sys

from rv.api import read_sunvox_file

ROOT = os.getcwd()
FIXTURES = os.path.join(ROOT, "tests", "files")

FAILURES = []

# keep un-captured library warnings off stderr
logging.getLogger("rv").addHandler(logging.NullHandler())


def check(cond, msg):
    if not cond:
        FAILURES.append(msg)
        print("FAIL:", msg)


def fixture_paths():
    out = []
    for dirpath, _, names in os.walk(FIXTURES):
        for n in names:
            if n.endswith(".sunvox") or n.endswith(".sunsynth"):
                out.append(os.path.join(dirpath, n))
    return sorted(out)


# ---- independent chunk codec (does not use rv) ----
def enc(name, data=b""):
    name = name if isinstance(name, bytes) else name.encode("ascii")
    name = name.ljust(4, b" ")
    return name + struct.pack("<I", len(data)) + data


def u32(v):
    return struct.pack("<I", v)


def i32(v):
    return struct.pack("<i", v)


def split_chunks(blob):
    pos = 0
    out = []
    while pos + 8 <= len(blob):
        name = blob[pos : pos + 4]
        (size,) = struct.unpack("<I", blob[pos + 4 : pos + 8])
        out.append((name, blob[pos + 8 : pos + 8 + size]))
        pos += 8 + size
    return out


def join_chunks(chs):
    return b"".join(enc(n, d) for n, d in chs)


# ---- snapshot of public state ----
def snap_module(m):
    if m is None:
        return None
    d = {
        "cls": type(m).__name__,
        "mtype": getattr(m, "mtype", None),
        "index": m.index,
        "name": m.name,
        "flags": m.flags,
        "fin": m.mod_finetune,
        "rel": m.mod_relative_note,
        "xy": (m.x, m.y, m.layer),
        "scale": m.mod_scale,
        "vis": int(m.visualization),
        "color": tuple(m.color),
        "midi": (
            m.midi_in_always,
            m.midi_in_channel,
            m.midi_out_name,
            m.midi_out_channel,
            m.midi_out_bank,
            m.midi_out_program,
        ),
        "in": (list(m.in_links), list(m.in_link_slots)),
        "out": (list(m.out_links), list(m.out_link_slots)),
        "cv": sorted((k, repr(v)) for k, v in m.controller_values.items()),
        "loaded": sorted(m.controllers_loaded),
        "opts": sorted((k, repr(v)) for k, v in m.option_values.items()),
        "cmid": sorted(
            (k, bytes(v.cmid_data)) for k, v in m.controller_midi_maps.items()
        ),
        "chnk": getattr(m, "_reader_chnk", None),
    }
    proj = getattr(m, "project", None)
    if type(m).__name__ == "MetaModule" and proj is not None:
        d["inner"] = snap_project(proj)
    return d


def snap_pattern(p):
    if p is None:
        return None
    if type(p).__name__ == "PatternClone":
        return ("clone", p.source, p.flags_PFFF, p.x, p.y)
    return (
        "pattern",
        p.name,
        p.tracks,
        p.lines,
        p.y_size,
        p.flags_PFLG,
        bytes(p.icon),
        tuple(p.fg_color),
        tuple(p.bg_color),
        p.flags_PFFF,
        p.x,
        p.y,
        bytes(p.raw_data),
        [[n.module for n in line] for line in p.data],
    )


PROJECT_FIELDS = [
    "loaded_sunvox_version",
    "based_on_version",
    "flags",
    "receive_sync_midi",
    "receive_sync_other",
    "initial_bpm",
    "initial_tpl",
    "time_grid",
    "time_grid2",
    "global_volume",
    "name",
    "modules_scale",
    "modules_zoom",
    "modules_x_offset",
    "modules_y_offset",
    "modules_layer_mask",
    "modules_current_layer",
    "timeline_position",
    "restart_position",
    "selected_module",
    "selected_generator",
    "current_pattern",
    "current_track",
    "current_line",
]


def snap_project(p):
    d = {f: repr(getattr(p, f)) for f in PROJECT_FIELDS}
    d["modules"] = [snap_module(m) for m in p.modules]
    d["patterns"] = [snap_pattern(x) for x in p.patterns]
    d["output_is_0"] = bool(p.modules) and p.output is p.modules[0]
    return d


def snap(obj):
    if obj is None:
        return None
    if type(obj).__name__ == "Synth":
        return {
            "synth_version": obj.loaded_sunsynth_version,
            "module": snap_module(obj.module),
        }
    return snap_project(obj)


def canon(x):
    if isinstance(x, dict):
        return "{" + ",".join(f"{k!r}:{canon(v)}" for k, v in sorted(x.items())) + "}"
    if isinstance(x, (list, tuple)):
        return "[" + ",".join(canon(v) for v in x) + "]"
    return repr(x)


class Capture(logging.Handler):
    def __init__(self):
        super().__init__(level=logging.DEBUG)
        self.records = []

    def emit(self, record):
        self.records.append((record.name, record.levelname, record.getMessage()))


def load(blob_or_path, capture=None):
    """Load and return (snapshot, log-records)."""
    root = logging.getLogger("rv")
    cap = Capture()
    old_level = root.level
    root.addHandler(cap)
    root.setLevel(logging.DEBUG)
    try:
        if isinstance(blob_or_path, bytes):
            obj = read_sunvox_file(io.BytesIO(blob_or_path))
        else:
            obj = read_sunvox_file(blob_or_path)
    finally:
        root.removeHandler(cap)
        root.setLevel(old_level)
    return snap(obj), cap.records


def warnings_of(records, logger=None):
    return [
        (n, m) for n, lvl, m in records if lvl == "WARNING" and (not logger or n == logger)
    ]


def expect_raises(exc_type, fn, msg):
    try:
        fn()
    except exc_type as e:
        if type(e) is not exc_type and exc_type is not Exception:
            # subclass allowed only when asked for the exact type elsewhere
            pass
        return e
    except BaseException as e:  # noqa
        check(False, f"{msg}: expected {exc_type.__name__}, got {type(e).__name__}: {e}")
        return None
    check(False, f"{msg}: expected {exc_type.__name__}, nothing raised")
    return None


def fixtures_digest():
    h = hashlib.sha256()
    for p in fixture_paths():
        s, recs = load(p)
        h.update(os.path.relpath(p, FIXTURES).encode())
        h.update(canon(s).encode("utf8", "backslashreplace"))
        h.update(canon([r for r in recs if r[1] != "DEBUG"]).encode())
    return h.hexdigest()


def finish():
    if FAILURES:
        print(f"{len(FAILURES)} FAILURES")
        sys.exit(1)
    print("PASS")
    sys.exit(0)


# ======================= checks specific to refactoring 1 =======================
# reader.py (read_sunvox_file, Reader.process_chunks, Reader.rewind, object),
# initial.py, lib/iff.py chunks(), _vendor/chunk.py Chunk.
from pathlib import Path

from rv._vendor.chunk import Chunk
from rv.lib.iff import chunks, write_chunk
from rv.readers.initial import InitialReader
from rv.readers.reader import Reader, ReaderFinished

EXPECTED_FIXTURES_DIGEST = "abca901a929c785208eed1cfc3a4c807e73ed2831d3d968018cb6bfa82061163"
EXPECTED_TRUNCATION_DIGEST = "7e78eecc1df9678d78bc19bcdeb04d31ca470317d6a56159fecabc3c392945c1"


class NoTell:
    """File-like without tell/seek, forces the non-seekable Chunk paths."""

    def __init__(self, blob):
        self._f = io.BytesIO(blob)
        self.reads = []

    def read(self, n=-1):
        self.reads.append(n)
        return self._f.read(n)


class SeekFails(io.BytesIO):
    def seek(self, pos, whence=0):
        if whence == 1:
            raise OSError("nope")
        return super().seek(pos, whence)


def test_chunk_class():
    # little endian / unaligned (SunVox layout)
    blob = enc("ABCD", b"12345") + enc("EF", b"") + enc("GHIJ", b"xy")
    f = io.BytesIO(blob)
    c = Chunk(f, align=False, bigendian=False)
    check(c.getname() == b"ABCD" and c.getsize() == 5, "chunk header LE")
    check(c.read(2) == b"12" and c.tell() == 2, "partial read")
    check(c.read(100) == b"345", "read clamps to remaining")
    check(c.read() == b"" and c.read(3) == b"", "read at end gives empty")
    c.skip()
    check(f.tell() == 13, "skip at end is a no-op for unaligned")
    c2 = Chunk(f, align=False, bigendian=False)
    check(c2.getname() == b"EF  " and c2.getsize() == 0 and c2.read() == b"", "empty chunk")
    c2.skip()
    c3 = Chunk(f, align=False, bigendian=False)
    c3.skip()
    check(f.tell() == len(blob) and c3.tell() == 2, "skip without read")
    expect_raises(EOFError, lambda: Chunk(f, align=False, bigendian=False), "EOF at end")
    # short header variants
    for cut in range(1, 8):
        expect_raises(EOFError, lambda: Chunk(io.BytesIO(blob[:cut]), bigendian=False), f"short header {cut}")
    # big endian + aligned with odd size: pad byte consumed
    be = b"FORM" + struct.pack(">L", 3) + b"abc" + b"\0" + b"NEXT" + struct.pack(">L", 0)
    f = io.BytesIO(be)
    c = Chunk(f)
    check(c.getsize() == 3, "BE size")
    check(c.read() == b"abc" and c.tell() == 4 and f.tell() == 12, "pad byte after full read")
    c.skip()
    check(Chunk(f).getname() == b"NEXT", "next after aligned chunk")
    f = io.BytesIO(be)
    c = Chunk(f)
    c.read(1)
    c.skip()
    check(f.tell() == 12 and c.tell() == 4, "skip includes pad byte")
    f = io.BytesIO(be)
    c = Chunk(f)
    c.seek(1)
    check(c.read(1) == b"b", "seek inside chunk")
    c.seek(-1, 2)
    check(c.read() == b"c", "seek from end")
    expect_raises(RuntimeError, lambda: c.seek(10), "seek beyond")
    c.close()
    expect_raises(ValueError, lambda: c.read(), "read after close")
    expect_raises(ValueError, lambda: c.skip(), "skip after close")
    # inclheader
    ih = b"HEAD" + struct.pack("<L", 8 + 4) + b"wxyz"
    c = Chunk(io.BytesIO(ih), bigendian=False, inclheader=True)
    check(c.getsize() == 4 and c.read() == b"wxyz", "inclheader")
    c = Chunk(io.BytesIO(b"HEAD" + struct.pack("<L", 5) + b"q"), bigendian=False, inclheader=True)
    check(c.getsize() == -3 and c.read() == b"", "negative size reads nothing")
    # non-seekable
    nt = NoTell(be)
    c = Chunk(nt)
    check(c.seekable is False, "no tell -> not seekable")
    expect_raises(OSError, lambda: c.seek(0), "seek on non-seekable")
    c.skip()
    check(Chunk(nt).getname() == b"NEXT", "skip by reading (with pad)")
    check(nt.reads == [4, 4, 3, 1, 4, 4], f"read sizes non-seekable {nt.reads}")
    nt = NoTell(b"ABCD" + struct.pack("<L", 10) + b"abc")
    c = Chunk(nt, align=False, bigendian=False)
    expect_raises(EOFError, lambda: c.skip(), "skip over truncated data without seek")
    # seek raising OSError falls back to reading
    sf = SeekFails(blob)
    c = Chunk(sf, align=False, bigendian=False)
    check(c.seekable is True, "seekable flag")
    c.skip()
    check(sf.tell() == 13 and c.tell() == 5, "fallback skip by reading")
    # big sizes
    big = b"x" * 20000
    nt = NoTell(enc("BIGG", big) + enc("TAIL", b"t"))
    got = list(chunks(nt))
    check(got == [(b"BIGG", big), (b"TAIL", b"t")], "chunks() on non-seekable stream")


def test_chunks_generator():
    blob = enc("AAAA", b"1") + enc("BBBB", b"") + enc("CCCC", b"\0" * 9)
    check(list(chunks(io.BytesIO(blob))) == [(b"AAAA", b"1"), (b"BBBB", b""), (b"CCCC", b"\0" * 9)], "chunks list")
    check(list(chunks(io.BytesIO(b""))) == [], "chunks of empty")
    for cut in range(len(blob)):
        got = list(chunks(io.BytesIO(blob[:cut])))
        exp = []
        pos = 0
        for n, d in [(b"AAAA", b"1"), (b"BBBB", b""), (b"CCCC", b"\0" * 9)]:
            if cut >= pos + 8:
                exp.append((n, blob[pos + 8 : min(cut, pos + 8 + len(d))]))
            pos += 8 + len(d)
        check(got == exp, f"chunks on truncated stream cut={cut}: {got}")
    # Position of the underlying file while suspended and after closing early.
    f = io.BytesIO(blob)
    g = chunks(f)
    check(next(g) == (b"AAAA", b"1") and f.tell() == 9, "position after first yield")
    g.close()
    check(f.tell() == 9, "closing generator does not move the file")
    f = io.BytesIO(blob)
    g = chunks(f)
    next(g)
    f.seek(0)  # consumer rewinds (as nested readers do); skip() is relative
    check(next(g) == (b"AAAA", b"1"), "re-reading after rewind")
    # consumer-thrown EOFError ends iteration quietly
    f = io.BytesIO(blob)
    g = chunks(f)
    next(g)
    try:
        g.throw(EOFError)
        check(False, "throw(EOFError) should end the generator")
    except StopIteration:
        pass
    # write_chunk round trip through chunks()
    out = io.BytesIO()
    write_chunk(out, b"AB", b"xyz")
    write_chunk(out, None, b"ignored")
    write_chunk(out, b"TOOLONG", b"")
    check(out.getvalue() == enc("AB", b"xyz") + enc("TOOL", b""), "write_chunk")


class Recorder(Reader):
    def __init__(self, f, stop_on=None):
        super().__init__(f)
        self.seen = []
        self.stop_on = stop_on
        self.not_callable = 5  # attribute named like a handler but not callable

    process_NOPE = 7

    def process_AAAA(self, data):
        self.seen.append(("AAAA", data))

    def process_BB(self, data):
        self.seen.append(("BB", data, self.f.tell()))
        if self.stop_on == "BB":
            raise ReaderFinished()

    def process_RWND(self, data):
        before = self.f.tell()
        self.rewind(data)
        self.seen.append(("RWND", before, self.f.tell()))
        self.f.seek(before)

    def process_BOOM(self, data):
        raise KeyError("boom")

    def process_end_of_file(self):
        self.seen.append("EOF")
        self._object = "done"
        raise ReaderFinished()


def test_reader_dispatch():
    blob = enc("AAAA", b"1") + enc("ZZZZ", b"??") + enc("BB", b"22") + enc("NOPE", b"") + enc("RWND", b"abcde") + enc("AAAA", b"")
    r = Recorder(io.BytesIO(blob))
    root = logging.getLogger("rv")
    cap = Capture()
    root.addHandler(cap)
    old = root.level
    root.setLevel(logging.DEBUG)
    try:
        obj = r.object
    finally:
        root.removeHandler(cap)
        root.setLevel(old)
    check(obj == "done", "object via process_chunks")
    check(
        r.seen == [("AAAA", b"1"), ("BB", b"22", 29), ("RWND", 50, 37), ("AAAA", b""), "EOF"],
        f"dispatch order {r.seen}",
    )
    msgs = [(n, l, m) for n, l, m in cap.records if n == "rv.readers.reader"]
    check(
        msgs
        == [
            ("rv.readers.reader", "DEBUG", "-> Recorder.process_AAAA"),
            ("rv.readers.reader", "WARNING", "no Recorder.process_ZZZZ method"),
            ("rv.readers.reader", "DEBUG", "-> Recorder.process_BB"),
            ("rv.readers.reader", "WARNING", "no Recorder.process_NOPE method"),
            ("rv.readers.reader", "DEBUG", "-> Recorder.process_RWND"),
            ("rv.readers.reader", "DEBUG", "-> Recorder.process_AAAA"),
        ],
        f"log messages {msgs}",
    )
    # early finish leaves the stream right after the finishing chunk
    f = io.BytesIO(blob)
    r = Recorder(f, stop_on="BB")
    r.process_chunks()
    check(f.tell() == 29 and r._object is None and "EOF" not in r.seen, "early ReaderFinished")
    # object setter
    r = Recorder(io.BytesIO(b""))
    r.object = 1
    e = expect_raises(AttributeError, lambda: setattr(r, "object", 2), "second set")
    check(e is not None and str(e) == "object was already set", "setter message")
    check(r.object == 1, "object kept")
    # base class without end handler
    e = expect_raises(RuntimeError, lambda: Reader(io.BytesIO(b"")).process_chunks(), "no eof handler")
    check(e is not None and str(e) == "Reached end of file without a handler", "eof message")
    e = expect_raises(RuntimeError, lambda: Reader(io.BytesIO(enc("PAMD", b"x"))).object, "PAMD then eof")
    # handler exceptions propagate
    expect_raises(KeyError, lambda: Recorder(io.BytesIO(enc("BOOM"))).process_chunks(), "handler error propagates")
    # chunk ids padded with blanks / odd names
    r = Recorder(io.BytesIO(enc(b"  BB", b"") + enc(b"B B ", b"") + enc(b"\xff\xfe\x00\x01", b"")))
    expect_raises(UnicodeDecodeError, r.process_chunks, "undecodable chunk id")
    check([s[0] for s in r.seen] == ["BB"], f"stripped id dispatch {r.seen}")


def test_read_sunvox_file():
    paths = fixture_paths()
    p = [x for x in paths if x.endswith("empty.sunvox")][0]
    blob = open(p, "rb").read()
    a, _ = load(p)
    b, _ = load(blob)
    check(canon(a) == canon(b), "path vs bytes load")
    c = snap(read_sunvox_file(Path(p)))
    check(canon(a) == canon(c), "Path load")
    f = io.BytesIO(blob)
    read_sunvox_file(f)
    check(not f.closed, "caller's file object stays open")
    with open(p, "rb") as fh:
        read_sunvox_file(fh)
        check(not fh.closed, "caller's real file stays open")
    expect_raises(FileNotFoundError, lambda: read_sunvox_file(os.path.join(ROOT, "does-not-exist.sunvox")), "missing file")
    check(read_sunvox_file(io.BytesIO(b"")) is None, "empty stream gives None")
    check(read_sunvox_file(io.BytesIO(enc("JUNK", b"abc"))) is None, "no magic gives None")
    import rv.errors

    before = rv.errors.RAISE_CONTROLLER_VALUE_ERRORS
    expect_raises(FileNotFoundError, lambda: read_sunvox_file("nope/nope"), "missing 2")
    check(rv.errors.RAISE_CONTROLLER_VALUE_ERRORS == before, "override restored after error")
    synth = open([x for x in paths if x.endswith("amplifier.sunsynth")][0], "rb").read()
    # junk before the magic and after the end is ignored
    s1, recs = load(enc("JUNK", b"1234567") + synth + enc("MORE", b""))
    s0, _ = load(synth)
    check(canon(s1) == canon(s0), "junk around a synth")
    w = warnings_of(recs, "rv.readers.reader")
    check(w[0] == ("rv.readers.reader", "no InitialReader.process_JUNK method"), f"junk warning {w}")
    # InitialReader on its own
    r = InitialReader(io.BytesIO(synth))
    check(type(r.object).__name__ == "Synth", "InitialReader synth")
    r = InitialReader(io.BytesIO(blob))
    check(type(r.object).__name__ == "Project", "InitialReader project")


def test_unknown_chunk_everywhere():
    names = ["empty.sunvox", "single-fm.sunvox", "metamodule.sunsynth", "sampler.sunsynth", "multisynth.sunsynth"]
    for n in names:
        p = [x for x in fixture_paths() if x.endswith(os.sep + n)][0]
        blob = open(p, "rb").read()
        base, base_recs = load(blob)
        base_c = canon(base)
        chs = split_chunks(blob)
        check(join_chunks(chs) == blob, f"{n}: independent codec reproduces file")
        step = max(1, len(chs) // 60)
        for i in range(0, len(chs) + 1, step):
            mutated = join_chunks(chs[:i] + [(b"QQ?!", b"\x01\x02\x03")] + chs[i:])
            s, recs = load(mutated)
            check(canon(s) == base_c, f"{n}: unknown chunk at {i} changed the result")
            w = [m for _, m in warnings_of(recs)]
            check(len(w) == 1 and w[0].startswith("no ") and w[0].endswith(".process_QQ?! method"), f"{n}@{i}: warnings {w}")


def truncation_digest():
    h = hashlib.sha256()
    for n in ["empty.sunvox", "amplifier.sunsynth", "module-multiselect.sunvox"]:
        p = [x for x in fixture_paths() if x.endswith(os.sep + n)][0]
        blob = open(p, "rb").read()
        step = max(1, len(blob) // 400)
        for cut in range(0, len(blob), step):
            try:
                s, recs = load(blob[:cut])
                out = canon(s) + canon([r for r in recs if r[1] != "DEBUG"])
            except Exception as e:  # noqa
                out = "EXC:" + type(e).__name__
            h.update(f"{n}:{cut}:".encode())
            h.update(out.encode("utf8", "backslashreplace"))
    return h.hexdigest()


test_chunk_class()
test_chunks_generator()
test_reader_dispatch()
test_read_sunvox_file()
test_unknown_chunk_everywhere()
d = fixtures_digest()
check(d == EXPECTED_FIXTURES_DIGEST, f"fixtures digest {d}")
d = truncation_digest()
check(d == EXPECTED_TRUNCATION_DIGEST, f"truncation digest {d}")
finish()
