"""Behaviour check for Project.__iadd__ / attach_pattern / new_module."""
import sys
from io import BytesIO

from rv.api import Pattern, PatternClone, Project, m, read_sunvox_file
from rv.errors import ModuleOwnershipError, PatternOwnershipError
from rv.modules.output import Output


def coherent(project):
    assert isinstance(project.modules[0], Output)
    assert project.output is project.modules[0]
    for i, mod in enumerate(project.modules):
        if mod is not None:
            assert mod.index == i and mod.parent is project
    for pat in project.patterns:
        if pat is not None:
            assert pat.project is project


def roundtrip(project):
    f = BytesIO()
    project.write_to(f)
    f.seek(0)
    return read_sunvox_file(f)


def expect(exc_type, message, fn, *args, **kw):
    try:
        fn(*args, **kw)
    except exc_type as exc:
        assert str(exc) == message, str(exc)
    else:
        raise AssertionError("%s not raised" % exc_type.__name__)


def main():
    p = Project()
    assert p.patterns == []

    # attach_pattern returns consecutive positions and sets ownership
    pats = [Pattern(name="p%d" % i, tracks=2, lines=4) for i in range(3)]
    for i, pat in enumerate(pats):
        assert pat.project is None
        assert p.attach_pattern(pat) == i
        assert pat.project is p and p.patterns[i] is pat
    # None records an empty slot and still returns the position
    assert p.attach_pattern(None) == 3
    assert p.patterns[3] is None and len(p.patterns) == 4
    # clone
    clone = PatternClone(source=0)
    assert p.attach_pattern(clone) == 4 and clone.project is p
    assert clone.source_pattern is pats[0]
    assert p.attach_pattern(None) == 5
    coherent(p)

    # an owned pattern is refused by any project (its own included); nothing changes
    q = Project()
    msg = "Pattern already attached to a project"
    before_p, before_q = list(p.patterns), list(q.patterns)
    expect(PatternOwnershipError, msg, q.attach_pattern, pats[0])
    expect(PatternOwnershipError, msg, q.attach_pattern, clone)
    expect(PatternOwnershipError, msg, p.attach_pattern, pats[1])
    try:
        q += pats[2]
    except PatternOwnershipError:
        pass
    else:
        raise AssertionError("owned pattern accepted via +=")
    assert all(a is b for a, b in zip(p.patterns, before_p)) and len(p.patterns) == len(before_p)
    assert q.patterns == before_q == []
    assert all(x.project is p for x in pats) and clone.project is p

    # equal-by-value but distinct patterns are both attached
    e1, e2 = Pattern(), Pattern()
    assert e1 == e2 and e1 is not e2
    assert q.attach_pattern(e1) == 0 and q.attach_pattern(e2) == 1
    assert q.patterns[0] is e1 and q.patterns[1] is e2

    # += returns the project and dispatches on type
    r = Project()
    same = r
    a, b, c = m.Amplifier(), m.Echo(), m.Reverb()
    pa, pb = Pattern(name="a"), Pattern(name="b")
    cl = PatternClone(source=1)
    r += a
    assert r is same and a.index == 1 and a.parent is r
    r += pa
    assert r is same and r.patterns == [pa] and pa.project is r
    r += [b, pb, [c, [cl]], []]
    assert r is same
    assert (b.index, c.index) == (2, 3)
    assert len(r.patterns) == 3 and r.patterns[1] is pb and r.patterns[2] is cl
    assert cl.project is r and cl.source_pattern is pb
    # unsupported operands are silently ignored (tuple, None, str, int)
    nm, npat = len(r.modules), len(r.patterns)
    for junk in (None, "x", 3, (m.Amplifier(), Pattern()), {}):
        r += junk
        assert r is same
    assert (len(r.modules), len(r.patterns)) == (nm, npat)
    assert r.__iadd__([]) is r and r.__iadd__(a) is r
    assert (len(r.modules), len(r.patterns)) == (nm, npat)
    coherent(r)

    # list with a foreign module: items before it are attached, then refusal
    s = Project()
    fresh = m.Amplifier()
    late = m.Echo()
    try:
        s += [fresh, a, late]
    except ModuleOwnershipError as exc:
        assert str(exc) == "Module is already attached to another project."
    else:
        raise AssertionError("foreign module accepted")
    assert fresh.index == 1 and fresh.parent is s
    assert late.parent is None and late.index is None
    assert a.parent is r and a.index == 1 and len(s.modules) == 2
    coherent(s)

    # new_module: returns the attached instance, forwards args, fills gaps
    t = Project()
    g = t.new_module(m.Generator, name="gen", volume=77)
    assert isinstance(g, m.Generator) and g.name == "gen" and g.volume == 77
    assert g.index == 1 and g.parent is t and t.modules[1] is g
    h = t.new_module(m.Amplifier)
    i = t.new_module(m.Amplifier)
    assert (h.index, i.index) == (2, 3)
    t.modules[2] = None
    j = t.new_module(m.Echo)
    assert j.index == 2 and t.modules[2] is j and t.modules[3] is i and i.index == 3
    k = t.new_module(m.Echo)
    assert k.index == 4
    expect(RuntimeError, "Cannot attach base Module instance.", t.new_module, m.Module)
    assert len(t.modules) == 5
    assert t.module_index(j) == 2 and t.module_index(t.output) == 0
    try:
        t.module_index(a)
    except ValueError:
        pass
    else:
        raise AssertionError("module_index found a foreign module")
    coherent(t)

    # save/load with pattern gaps and clones, then keep attaching
    u = roundtrip(p)
    assert [type(x).__name__ for x in u.patterns] == [
        "Pattern", "Pattern", "Pattern", "NoneType", "PatternClone", "NoneType"]
    coherent(u)
    extra = Pattern(name="extra")
    assert u.attach_pattern(extra) == 6 and extra.project is u
    expect(PatternOwnershipError, msg, u.attach_pattern, pats[0])
    expect(PatternOwnershipError, msg, p.attach_pattern, u.patterns[0])
    v = roundtrip(u)
    assert v.patterns[6].name == "extra" and v.patterns[3] is None and v.patterns[5] is None
    coherent(v)
    w = roundtrip(t)
    coherent(w)
    assert [type(x).__name__ for x in w.modules] == ["Output", "Generator", "Echo", "Amplifier", "Echo"]
    nw = w.new_module(m.Reverb)
    assert nw.index == 5
    coherent(w)

    print("PASS")


if __name__ == "__main__":
    try:
        main()
    except AssertionError:
        import traceback
        traceback.print_exc()
        print("FAIL")
        sys.exit(1)
