"""Behaviour check for the end-of-file pass of the project reader, property C08
(SunVoxReader.process_end_of_file).

The pass is driven directly on hand-made and randomly generated link-table
states (slot tables present, missing, or present for only some modules; freed
entries; holes in the module list; self links and cycles; dangling and
out-of-range references) and the outcome -- final tables, exception type,
warnings logged, state left behind after an exception -- is compared with a
reference model of the documented behaviour written in this file.  It is also
driven through complete files, including files with SLnK stripped for some
modules, and through the legacy (< 1.9.5.0) note-module masking.

Run:  cd <root> && PYTHONPATH=<root>/src/python /venv/bin/python check.py
"""
import copy
import io
import logging
import random
import sys

from rv.api import Pattern, PatternClone, Project, m, read_sunvox_file
from rv.lib.iff import write_chunk
from rv.readers.reader import ReaderFinished
from rv.readers.sunvox import SunVoxReader

FAILURES = []


def expect(cond, msg):
    if not cond:
        FAILURES.append(msg)


class Capture(logging.Handler):
    def __init__(self):
        super().__init__(level=logging.WARNING)
        self.records = []

    def emit(self, record):
        self.records.append((record.levelno, record.msg, tuple(record.args)))


CAPTURE = Capture()
logging.getLogger("rv.readers.sunvox").addHandler(CAPTURE)
logging.getLogger("rv.readers.sunvox").propagate = False


# --------------------------------------------------------------------------
# reference model: a state is a list of None | dict(in, in_slots, out, out_slots)
# --------------------------------------------------------------------------


def ref_pass(state):
    """Returns (exception type or None, warnings); mutates ``state``."""
    warnings = []
    try:
        while state and state[-1] is None:
            state.pop()
        order = state[1:] + state[:1]
        for mod in order:
            if mod is None or mod["in_slots"]:
                continue
            for src in mod["in"]:
                if src == -1:
                    mod["in_slots"].append(-1)
                    continue
                if src >= len(state):
                    warnings.append((mod["index"], src))
                    continue
                other = state[src]
                if other is None:
                    raise AttributeError
                a = len(other["out_slots"])
                b = len(mod["in_slots"])
                mod["in_slots"].append(a)
                other["out"].append(mod["index"])
                other["out_slots"].append(b)
        for mod in state:
            if mod is None:
                continue
            for i, src in enumerate(mod["in"]):
                slot = mod["in_slots"][i]
                other = state[src]
                if other is None:
                    raise RuntimeError
                while slot >= len(other["out"]):
                    other["out"].append(-1)
                while slot >= len(other["out_slots"]):
                    other["out_slots"].append(-1)
                if slot != -1:
                    other["out"][slot] = mod["index"]
                    other["out_slots"][slot] = i
    except (IndexError, AttributeError, RuntimeError) as e:
        return type(e), warnings
    return None, warnings


def build_project(state):
    """Realise a model state as a Project whose tables are still 'raw'."""
    p = Project()
    p.modules.clear()
    for i, entry in enumerate(state):
        if entry is None:
            p.attach_module(None, loading=True)
            continue
        mod = m.Output() if i == 0 else m.Amplifier()
        p.attach_module(mod, loading=True)
        assert mod.index == i
        mod.in_links = list(entry["in"])
        mod.in_link_slots = list(entry["in_slots"])
        mod.out_links = list(entry["out"])
        mod.out_link_slots = list(entry["out_slots"])
    return p


def snapshot(project):
    return [
        None
        if mod is None
        else dict(
            index=mod.index,
            **{
                "in": list(mod.in_links),
                "in_slots": list(mod.in_link_slots),
                "out": list(mod.out_links),
                "out_slots": list(mod.out_link_slots),
            },
        )
        for mod in project.modules
    ]


def run_real(project):
    reader = SunVoxReader(None)
    reader._object = project
    del CAPTURE.records[:]
    try:
        reader.process_end_of_file()
    except ReaderFinished:
        exc = None
    except Exception as e:  # noqa
        exc = type(e)
    else:
        exc = "returned"
    warnings = [
        args
        for level, msg, args in CAPTURE.records
        if level == logging.WARNING
        and msg == "Found SLNK on %r referencing non-existent module %r"
    ]
    expect(len(warnings) == len(CAPTURE.records), "only the known warning is logged")
    return exc, warnings


def entry(index, in_=(), in_slots=(), out=(), out_slots=()):
    return {
        "index": index,
        "in": list(in_),
        "in_slots": list(in_slots),
        "out": list(out),
        "out_slots": list(out_slots),
    }


def compare(state, label):
    project = build_project(state)
    modules_list = project.modules
    table_ids = [
        None
        if mod is None
        else (id(mod.in_links), id(mod.in_link_slots), id(mod.out_links), id(mod.out_link_slots))
        for mod in project.modules
    ]
    model = copy.deepcopy(state)
    want_exc, want_warn = ref_pass(model)
    got_exc, got_warn = run_real(project)
    expect(got_exc == want_exc, f"{label}: outcome {got_exc} != {want_exc}")
    expect(got_warn == want_warn, f"{label}: warnings {got_warn} != {want_warn}")
    expect(project.modules is modules_list, f"{label}: module list edited in place")
    got = snapshot(project)
    expect(got == model, f"{label}: tables\n   got  {got}\n   want {model}")
    now_ids = [
        None
        if mod is None
        else (id(mod.in_links), id(mod.in_link_slots), id(mod.out_links), id(mod.out_link_slots))
        for mod in project.modules
    ]
    expect(now_ids == table_ids[: len(now_ids)], f"{label}: tables edited in place")
    return got_exc, project


# --------------------------------------------------------------------------
# scenarios on raw states
# --------------------------------------------------------------------------


def scenario_hand_made():
    E = entry
    cases = {
        "empty module list": [],
        "only output": [E(0)],
        "only holes": [None, None],
        "output then holes": [E(0), None, None],
        "chain, no slots": [E(0, [1]), E(1, [2]), E(2, [3]), E(3)],
        "chain, slots given": [E(0, [1], [0]), E(1, [2], [0]), E(2)],
        "fan-in, no slots": [E(0, [1, 2, 3]), E(1), E(2), E(3)],
        "fan-out, no slots": [E(0, [1]), E(1), E(2, [1]), E(3, [1])],
        "fan-out, slots reversed": [E(0, [1], [2]), E(1), E(2, [1], [1]), E(3, [1], [0])],
        "mixed: some with slots, some without": [
            E(0, [1, 2], [1, 0]),
            E(1),
            E(2, [1]),
            E(3, [1, 2]),
        ],
        "freed in the middle, no slots": [E(0, [1, -1, 2]), E(1), E(2)],
        "freed in the middle, slots": [E(0, [1, -1, 2], [0, -1, 0]), E(1), E(2)],
        "freed first": [E(0, [-1, 1]), E(1)],
        "freed slot but live link": [E(0, [1, 2], [-1, 0]), E(1), E(2)],
        "gap in out slots": [E(0, [1], [3]), E(1)],
        "two claim same out slot": [E(0, [1], [0]), E(1), E(2, [1], [0])],
        "self link, no slots": [E(0), E(1, [1])],
        "self link, slots": [E(0), E(1, [1, 0], [2, 0])],
        "cycle": [E(0, [2]), E(1, [2]), E(2, [1])],
        "cycle with slots": [E(0, [2], [1]), E(1, [2], [0]), E(2, [1], [0])],
        "hole in the middle": [E(0, [3]), None, None, E(3)],
        "hole + trailing holes": [E(0, [2]), None, E(2), None, None],
        "link to hole, no slots": [E(0, [1]), None, E(2)],
        "link to hole, slots": [E(0, [1], [0]), None, E(2)],
        "out of range, no slots": [E(0, [5]), E(1)],
        "out of range then valid, no slots": [E(0, [5, 1]), E(1)],
        "valid then out of range, no slots": [E(0, [1, 5]), E(1)],
        "out of range, slots": [E(0, [5], [0]), E(1)],
        "reference to dropped trailing hole": [E(0, [2]), E(1), None],
        "negative other than -1, no slots": [E(0, [-2]), E(1), E(2)],
        "negative other than -1, slots": [E(0, [-2], [0]), E(1), E(2)],
        "slot table too short": [E(0, [1, 2], [0]), E(1), E(2)],
        "slot table too long": [E(0, [1], [0, 4, 4]), E(1)],
        "slot below -1, short table": [E(0, [1], [-3]), E(1)],
        "slot below -1, long table": [E(0, [1], [-2]), E(1, out=[7, 7, 7], out_slots=[7, 7, 7])],
        "stale out tables": [E(0, [1]), E(1, out=[9], out_slots=[9])],
        "stale out tables of unequal size": [E(0, [1], [2]), E(1, out=[9, 9, 9, 9], out_slots=[9])],
        "freed link with slot given": [E(0, [-1], [2]), E(1), E(2)],
        "output without slots is served last": [E(0, [1]), E(1), E(2, [1]), E(3, [1])],
    }
    outcomes = {}
    for label, state in cases.items():
        outcomes[label], _ = compare(state, label)
    # A few outcomes pinned literally, so that the model itself is anchored.
    expect(outcomes["chain, no slots"] is None, "chain loads")
    expect(outcomes["link to hole, no slots"] is AttributeError, "hole w/o slots")
    expect(outcomes["link to hole, slots"] is RuntimeError, "hole with slots")
    expect(outcomes["out of range, no slots"] is IndexError, "out of range")
    expect(outcomes["slot table too short"] is IndexError, "short slot table")
    _, p = compare(cases["output without slots is served last"], "served last (again)")
    expect(p.modules[1].out_links == [2, 3, 0], "module order 1.., then output")
    expect(p.modules[0].in_link_slots == [2], "output gets the last slot")
    _, p = compare(cases["fan-out, slots reversed"], "reversed (again)")
    expect(p.modules[1].out_links == [3, 2, 0], "explicit slots respected")
    expect(p.modules[1].out_link_slots == [0, 0, 0], "explicit slots: back refs")
    _, p = compare(cases["gap in out slots"], "gap (again)")
    expect(p.modules[1].out_links == [-1, -1, -1, 0], "gap is padded with freed")
    expect(p.modules[1].out_link_slots == [-1, -1, -1, 0], "gap padded (slots)")
    _, p = compare(cases["freed in the middle, no slots"], "freed middle (again)")
    expect(p.modules[0].in_link_slots == [0, -1, 0], "freed entry keeps its place")
    _, p = compare(cases["hole + trailing holes"], "holes (again)")
    expect(len(p.modules) == 3 and p.modules[1] is None, "only trailing holes dropped")


def scenario_random_raw_states():
    rng = random.Random(20240)
    outcomes = {}
    for n in range(1500):
        size = rng.randint(0, 6)
        wild = rng.random() < 0.35
        state = []
        for i in range(size):
            if i > 0 and rng.random() < 0.15:
                state.append(None)
                continue
            state.append(entry(i))
        live = [e["index"] for e in state if e is not None]
        for e in state:
            if e is None or not live:
                continue
            k = rng.randint(0, 4)
            for _ in range(k):
                r = rng.random()
                if r < 0.2:
                    e["in"].append(-1)
                elif wild and r < 0.3:
                    e["in"].append(rng.choice([size, size + 3, -2, rng.randrange(max(size, 1))]))
                else:
                    e["in"].append(rng.choice(live))
            if rng.random() < 0.5:
                continue  # no slot table for this module
            for src in e["in"]:
                if src == -1 and not wild:
                    e["in_slots"].append(-1)
                else:
                    e["in_slots"].append(rng.choice([0, 0, 1, 2, 3, 5, -1]))
            if wild and rng.random() < 0.2 and e["in_slots"]:
                e["in_slots"].pop()
        exc, _ = compare(state, f"raw[{n}]")
        outcomes[exc] = outcomes.get(exc, 0) + 1
    expect(outcomes.get(None, 0) > 300, f"enough successful random states: {outcomes}")
    expect(len(outcomes) >= 3, f"several failure kinds reached: {outcomes}")


# --------------------------------------------------------------------------
# whole files
# --------------------------------------------------------------------------


def strip(lst):
    lst = list(lst)
    while lst and lst[-1] == -1:
        lst.pop()
    return lst


def tables(project):
    return [
        None
        if mod is None
        else (
            strip(mod.in_links),
            strip(mod.in_link_slots),
            strip(mod.out_links),
            strip(mod.out_link_slots),
        )
        for mod in project.modules
    ]


def consistent(project):
    for mod in project.modules:
        if mod is None:
            continue
        if len(mod.in_links) != len(mod.in_link_slots):
            return False
        if len(mod.out_links) != len(mod.out_link_slots):
            return False
        for i, (src, slot) in enumerate(zip(mod.in_links, mod.in_link_slots)):
            if src == -1:
                if slot != -1:
                    return False
                continue
            other = project.modules[src]
            if other.out_links[slot] != mod.index or other.out_link_slots[slot] != i:
                return False
        for i, (dst, slot) in enumerate(zip(mod.out_links, mod.out_link_slots)):
            if dst == -1:
                continue
            other = project.modules[dst]
            if other.in_links[slot] != mod.index or other.in_link_slots[slot] != i:
                return False
    return True


def random_project(seed):
    rng = random.Random(seed)
    p = Project()
    mods = [p.output]
    kinds = [m.Amplifier, m.Generator, m.MultiCtl, m.Filter, m.Lfo]
    for _ in range(rng.randint(1, 7)):
        mods.append(p.new_module(rng.choice(kinds)))
    for _ in range(rng.randint(0, 30)):
        a, b = rng.choice(mods), rng.choice(mods)
        if rng.random() < 0.3:
            p.connect(~a, b)
        else:
            p.connect(a, b)
    return p


def load(chunks):
    f = io.BytesIO()
    for name, data in chunks:
        write_chunk(f, name, data)
    f.seek(0)
    return read_sunvox_file(f)


def raw_state_of_file(chunks):
    """What the per-module readers leave behind, computed independently."""
    import struct

    state, cur, index = [], None, 0
    for name, data in chunks:
        if name == b"SFFF":
            cur = entry(index)
        elif name == b"SEND":
            state.append(cur)
            cur = None
            index += 1
        elif name in (b"SLNK", b"SLnK") and data:
            key = "in" if name == b"SLNK" else "in_slots"
            cur[key].extend(struct.unpack("<" + "i" * (len(data) // 4), data))
            while cur[key] and cur[key][-1] == -1:
                cur[key].pop()
    return state


def scenario_files():
    for seed in range(150):
        p = random_project(seed)
        chunks = [tuple(c) for c in p.chunks()]
        rng = random.Random(seed)
        variants = {
            "full": chunks,
            "no SLnK": [c for c in chunks if c[0] != b"SLnK"],
            "some SLnK": [c for c in chunks if c[0] != b"SLnK" or rng.random() < 0.5],
        }
        for label, subset in variants.items():
            model = raw_state_of_file(subset)
            want_exc, _ = ref_pass(model)
            try:
                q = load(subset)
                got_exc = None
            except Exception as e:  # noqa
                got_exc = type(e)
                q = None
            expect(got_exc == want_exc, f"file[{seed}]/{label}: {got_exc} != {want_exc}")
            if q is None:
                continue
            expect(snapshot(q) == model, f"file[{seed}]/{label}: tables match model")
            if label == "full":
                expect(tables(q) == tables(p), f"file[{seed}]: exact round trip")
                expect(consistent(q), f"file[{seed}]: consistent after load")
            if label == "no SLnK":
                expect(consistent(q), f"file[{seed}]/no SLnK: consistent after load")
                expect(
                    [t and t[0] for t in tables(q)] == [t and t[0] for t in tables(p)],
                    f"file[{seed}]/no SLnK: in_links order kept",
                )
                # and a second generation reproduces the first exactly
                r = load(q.chunks())
                expect(tables(r) == tables(q), f"file[{seed}]/no SLnK: stable")


def scenario_trailing_empty_modules():
    p = Project()
    a = p.new_module(m.Amplifier)
    b = p.new_module(m.Amplifier)
    b >> a >> p.output
    chunks = [tuple(c) for c in p.chunks()]
    q = load(chunks + [(b"SEND", b"")] * 3)
    expect(len(q.modules) == 3, "trailing empty modules dropped")
    # an empty module in the middle survives and indices keep their meaning
    sends = [i for i, c in enumerate(chunks) if c[0] == b"SEND"]
    first_module_end = sends[0] + 1
    shifted = chunks[:first_module_end] + [(b"SEND", b"")] + chunks[first_module_end:]
    try:
        q = load(shifted)
    except Exception as e:  # noqa
        q = type(e)
    model = raw_state_of_file(shifted)
    want_exc, _ = ref_pass(model)
    if want_exc is None:
        expect(not isinstance(q, type) and snapshot(q) == model, "shifted: tables")
    else:
        expect(q is want_exc, f"shifted: {q} != {want_exc}")


def scenario_legacy_note_modules():
    for version, masked in (
        ((1, 9, 4, 9), True),
        ((1, 9, 5, 0), False),
        ((1, 7, 0, 0), True),
        ((2, 1, 2, 1), False),
        ((1, 9, 5), True),
    ):
        p = Project()
        p.modules.clear()
        p.attach_module(m.Output(), loading=True)
        pat = Pattern(tracks=2, lines=3)
        values = [0x0000, 0x00FF, 0x0100, 0x1234, 0xFFFF, 0x0101]
        for note, value in zip((n for line in pat.data for n in line), values):
            note.module = value
        p.attach_pattern(pat)
        p.attach_pattern(None)
        clone = PatternClone(source=0)
        p.attach_pattern(clone)
        p.loaded_sunvox_version = version
        reader = SunVoxReader(None)
        reader._object = p
        try:
            reader.process_end_of_file()
        except ReaderFinished:
            pass
        else:
            expect(False, f"legacy {version}: ReaderFinished expected")
        got = [n.module for line in pat.data for n in line]
        want = [v & 0xFF for v in values] if masked else values
        expect(got == want, f"legacy {version}: {got} != {want}")
        expect(p.patterns == [pat, None, clone], f"legacy {version}: pattern list kept")


def scenario_issue109():
    import pathlib

    path = pathlib.Path("tests/files/issue109/filter_lfo.sunvox")
    if not path.exists():
        return
    p = read_sunvox_file(str(path))
    expect(consistent(p), "issue109: consistent")
    q = load(p.chunks())
    expect(tables(q) == tables(p), "issue109: round trip")


def main():
    scenario_hand_made()
    scenario_random_raw_states()
    scenario_files()
    scenario_trailing_empty_modules()
    scenario_legacy_note_modules()
    scenario_issue109()
    if FAILURES:
        for msg in FAILURES[:40]:
            print("FAIL:", msg)
        print(f"{len(FAILURES)} failure(s)")
        sys.exit(1)
    print("PASS")


if __name__ == "__main__":
    main()
