"""Behaviour check for the reader side of the project round trip (property C01).

Feeds hand-built chunk streams (own IFF writer, own struct formats) to
rv.api.read_sunvox_file / SunVoxReader / ModuleReader / PatternReader /
PatternCloneReader and checks every decoded field, including text fields with
and without NUL terminators, link arrays with trailing -1 entries, SFGS and SMII
bit packing, legacy files without BVER, and error types for malformed chunks.
Also round-trips programmatically built projects.
"""
import logging
import struct
import sys
from io import BytesIO

from rv.api import NOTE, Pattern, PatternClone, Project, m, read_sunvox_file
from rv.readers.module import ModuleReader
from rv.readers.pattern import PatternCloneReader, PatternReader
from rv.readers.reader import Reader, ReaderFinished
from rv.readers.sunvox import SunVoxReader

logging.disable(logging.CRITICAL)

FAILURES = []


def check(cond, label):
    if not cond:
        FAILURES.append(label)
        print("FAIL:", label)


def raises(exc, fn, label):
    try:
        fn()
    except exc:
        return
    except Exception as e:  # noqa
        check(False, "%s: expected %s, got %r" % (label, exc.__name__, e))
        return
    check(False, "%s: expected %s, nothing raised" % (label, exc.__name__))


def chunk(name, data=b""):
    return name + struct.pack("<I", len(data)) + data


def u32(v):
    return struct.pack("<I", v)


def i32(v):
    return struct.pack("<i", v)


def module_chunks(mtype=None, name=b"mod", extra=()):
    out = [chunk(b"SFFF", u32(0x49)), chunk(b"SNAM", name.ljust(32, b"\0"))]
    if mtype:
        out.append(chunk(b"STYP", mtype + b"\0"))
    out.extend(extra)
    out.append(chunk(b"SEND"))
    return b"".join(out)


def pattern_chunks(tracks, lines, cells, extra=()):
    out = [chunk(b"PDTA", cells)]
    out.extend(extra)
    out += [chunk(b"PCHN", u32(tracks)), chunk(b"PLIN", u32(lines)), chunk(b"PEND")]
    return b"".join(out)


def header(**over):
    fields = [
        (b"VERS", bytes((1, 2, 1, 2))),
        (b"BVER", bytes((4, 3, 2, 1))),
        (b"FLGS", u32(0xDEADBEEF)),
        (b"SFGS", u32(0b101 | (0b110 << 3) | (0xFF << 6))),
        (b"BPM ", u32(777)),
        (b"SPED", u32(13)),
        (b"TGRD", u32(5)),
        (b"TGD2", u32(6)),
        (b"GVOL", u32(99)),
        (b"NAME", "Nämé".encode("utf-8") + b"\0trailing garbage\0"),
        (b"MSCL", u32(300)),
        (b"MZOO", u32(301)),
        (b"MXOF", i32(-302)),
        (b"MYOF", i32(303)),
        (b"LMSK", u32(0xF0F0F0F0)),
        (b"CURL", u32(7)),
        (b"TIME", i32(-9)),
        (b"REPS", i32(11)),
        (b"SELS", u32(2)),
        (b"LGEN", i32(-1)),
        (b"PATN", u32(3)),
        (b"PATT", u32(4)),
        (b"PATL", u32(5)),
    ]
    out = [chunk(b"SVOX")]
    for name, data in fields:
        key = name.decode().strip()
        if key in over:
            if over[key] is None:
                continue
            data = over[key]
        out.append(chunk(name, data))
    return b"".join(out)


def load(blob):
    return read_sunvox_file(BytesIO(blob))


def cell(note, vel, module, ctl, val):
    return struct.pack("<BBHHH", note, vel, module, ctl, val)


def check_header_fields():
    p = load(header() + module_chunks())
    check(isinstance(p, Project), "header: returns Project")
    check(p.loaded_sunvox_version == (2, 1, 2, 1), "VERS reversed")
    check(isinstance(p.loaded_sunvox_version, tuple), "VERS is a tuple")
    check(p.based_on_version == (1, 2, 3, 4), "BVER reversed")
    check(p.sunvox_version == Project().sunvox_version, "sunvox_version untouched")
    check(p.flags == 0xDEADBEEF, "FLGS")
    check(p.receive_sync_midi == 0b101 and type(p.receive_sync_midi) is int, "SFGS midi")
    check(p.receive_sync_other == 0b110, "SFGS other (masked to 3 bits)")
    check(p.initial_bpm == 777 and p.initial_tpl == 13, "BPM/SPED")
    check((p.time_grid, p.time_grid2, p.global_volume) == (5, 6, 99), "TGRD/TGD2/GVOL")
    check(p.name == "Nämé", "NAME cut at first NUL")
    check((p.modules_scale, p.modules_zoom) == (300, 301), "MSCL/MZOO")
    check((p.modules_x_offset, p.modules_y_offset) == (-302, 303), "MXOF/MYOF")
    check(p.modules_layer_mask == 0xF0F0F0F0 and p.modules_current_layer == 7, "LMSK")
    check((p.timeline_position, p.restart_position) == (-9, 11), "TIME/REPS")
    check((p.selected_module, p.selected_generator) == (2, -1), "SELS/LGEN")
    check(
        (p.current_pattern, p.current_track, p.current_line) == (3, 4, 5),
        "PATN/PATT/PATL",
    )
    check(len(p.modules) == 1 and p.output is p.modules[0], "single output module")
    # legacy file: no BVER
    legacy = load(header(BVER=None) + module_chunks())
    check(legacy.based_on_version == (1, 7, 0, 0), "legacy based_on_version")
    # names without terminator / empty / only NUL
    check(load(header(NAME=b"plain") + module_chunks()).name == "plain", "NAME no NUL")
    check(load(header(NAME=b"") + module_chunks()).name == "", "NAME empty")
    check(load(header(NAME=b"\0abc") + module_chunks()).name == "", "NAME leading NUL")
    raises(
        UnicodeDecodeError,
        lambda: load(header(NAME=b"\xff\xfe\0") + module_chunks()),
        "NAME invalid utf-8",
    )
    raises(struct.error, lambda: load(header(FLGS=b"\0\0") + module_chunks()), "short FLGS")
    raises(struct.error, lambda: load(header(VERS=b"\1\2\3") + module_chunks()), "short VERS")
    raises(struct.error, lambda: load(header(SFGS=b"") + module_chunks()), "short SFGS")


def check_module_fields():
    gen_extra = [
        chunk(b"SFIN", i32(-12)),
        chunk(b"SREL", i32(5)),
        chunk(b"SXXX", i32(-100)),
        chunk(b"SYYY", i32(2000)),
        chunk(b"SZZZ", u32(3)),
        chunk(b"SSCL", u32(400)),
        chunk(b"SVPR", u32(0x01020304)),
        chunk(b"SCOL", bytes((10, 20, 30))),
        chunk(b"SMII", u32((9 << 1) | 1)),
        chunk(b"SMIN", b"port \xc3\xa9\0junk"),
        chunk(b"SMIC", i32(4)),
        chunk(b"SMIB", i32(-1)),
        chunk(b"SMIP", i32(77)),
        chunk(b"SLNK", struct.pack("<iiiii", 2, -1, 4, -1, -1)),
        chunk(b"SLnK", struct.pack("<iiiii", 1, -1, 0, -1, -1)),
        chunk(b"CVAL", i32(200)),
        chunk(b"CVAL", i32(3)),
    ]
    blob = (
        header()
        + module_chunks(extra=[chunk(b"SLNK", struct.pack("<i", 1))])
        + module_chunks(b"Generator", "gén".encode("utf-8"), gen_extra)
        + module_chunks(b"Amplifier", b"a" * 32, [chunk(b"SLNK"), chunk(b"SLnK")])
        + chunk(b"SEND")
        + module_chunks(b"Amplifier", b"x\0y", [chunk(b"SMII", u32(6 << 1))])
        + chunk(b"SEND")
        + chunk(b"SEND")
    )
    p = load(blob)
    check(
        [type(x).__name__ if x else None for x in p.modules]
        == ["Output", "Generator", "Amplifier", None, "Amplifier"],
        "module list with empty slot, trailing empties trimmed",
    )
    out, gen, amp, _, amp2 = p.modules
    check([x.index for x in (out, gen, amp, amp2)] == [0, 1, 2, 4], "indexes")
    check(all(x.parent is p for x in (out, gen, amp, amp2)), "parents")
    check(gen.name == "gén" and gen.mtype == "Generator", "SNAM/STYP")
    check(amp.name == "a" * 32, "32-byte SNAM without NUL")
    check(amp2.name == "x", "SNAM cut at NUL")
    check(gen.flags == (0x49 | m.Generator().default_flags), "flags merged")
    check((gen.mod_finetune, gen.mod_relative_note) == (-12, 5), "SFIN/SREL")
    check((gen.x, gen.y, gen.layer, gen.mod_scale) == (-100, 2000, 3, 400), "placement")
    check(int(gen.visualization) == 0x01020304, "SVPR")
    check(gen.color == (10, 20, 30) and isinstance(gen.color, tuple), "SCOL")
    check(gen.midi_in_always is True and gen.midi_in_channel == 9, "SMII set")
    check(amp2.midi_in_always is False and amp2.midi_in_channel == 6, "SMII clear")
    check(gen.midi_out_name == "port é", "SMIN")
    check(
        (gen.midi_out_channel, gen.midi_out_bank, gen.midi_out_program) == (4, -1, 77),
        "SMIC/SMIB/SMIP",
    )
    check(gen.in_links == [2, -1, 4], "SLNK trailing -1 trimmed, inner kept")
    check(gen.in_link_slots == [1, -1, 0], "SLnK trailing -1 trimmed, inner kept")
    check(amp.in_links == [] and amp.in_link_slots == [], "empty SLNK/SLnK")
    check(out.in_links == [1] and out.in_link_slots == [0], "slots initialised")
    check(gen.get_raw("volume") == 200 and gen.get_raw("waveform") == 3, "CVAL order")
    check({"volume", "waveform"} <= gen.controllers_loaded, "controllers_loaded")
    # direct use of ModuleReader on a bare stream
    for idx, cls in ((0, "Output"), (1, "Module"), (5, "Module")):
        r = ModuleReader(BytesIO(module_chunks()), index=idx)
        check(type(r.object).__name__ == cls, "ModuleReader index %d -> %s" % (idx, cls))
    r = ModuleReader(BytesIO(b""), index=1)
    r._object = m.Amplifier()
    r.process_SLNK(b"")
    r.process_SLnK(b"")
    check(r.object.in_links == [] and r.object.in_link_slots == [], "empty data no-op")
    r.process_SLNK(struct.pack("<ii", -1, -1))
    check(r.object.in_links == [], "all -1 trimmed to empty")
    r.process_SLNK(struct.pack("<ii", 4, -1))
    r.process_SLNK(struct.pack("<i", 6))
    check(r.object.in_links == [4, 6], "second SLNK extends the trimmed list")
    r.process_SLnK(struct.pack("<iii", 0, 2, -1))
    check(r.object.in_link_slots == [0, 2], "SLnK independent of SLNK")
    raises(struct.error, lambda: r.process_SLNK(b"\1\0\0\0\2"), "ragged SLNK")
    raises(struct.error, lambda: r.process_SLnK(b"\1\0\0"), "ragged SLnK")
    check(r.object.in_links == [4, 6], "failed SLNK leaves the list alone")
    raises(KeyError, lambda: load(header() + module_chunks(b"NoSuchType")), "bad STYP")
    raises(
        UnicodeDecodeError,
        lambda: load(header() + module_chunks() + module_chunks(b"Amplifier", b"\xff")),
        "SNAM invalid utf-8",
    )


def check_pattern_fields():
    cells = b"".join(cell(NOTE.C4 + i, i, 300 + i, 0x0102 + i, 0xFF00 + i) for i in range(6))
    extra = [
        chunk(b"PNME", "pät".encode("utf-8") + b"\0zzz"),
        chunk(b"PYSZ", u32(40)),
        chunk(b"PFLG", u32(3)),
        chunk(b"PICO", bytes(range(32))),
        chunk(b"PFGC", bytes((1, 2, 3))),
        chunk(b"PBGC", bytes((4, 5, 6))),
        chunk(b"PFFF", u32(0x1A)),
        chunk(b"PXXX", i32(-64)),
        chunk(b"PYYY", i32(96)),
        chunk(b"PSYN", b"whatever"),
        chunk(b"PCTL", b""),
        chunk(b"PAMD", b"\1"),
    ]
    clone = (
        chunk(b"PPAR", u32(0))
        + chunk(b"PFFF", u32(9))
        + chunk(b"PXXX", i32(128))
        + chunk(b"PYYY", i32(-32))
        + chunk(b"PEND")
    )
    blob = (
        header()
        + pattern_chunks(3, 2, cells, extra)
        + chunk(b"PEND")
        + clone
        + pattern_chunks(1, 1, cell(1, 2, 3, 4, 5))
        + module_chunks()
    )
    p = load(blob)
    kinds = [type(x).__name__ if x is not None else None for x in p.patterns]
    check(kinds == ["Pattern", None, "PatternClone", "Pattern"], "pattern slot kinds")
    pat, _, cl, small = p.patterns
    check(all(x.project is p for x in (pat, cl, small)), "pattern.project")
    check(pat.name == "pät", "PNME cut at NUL")
    check(small.name is None, "no PNME -> None")
    check((pat.tracks, pat.lines, pat.y_size) == (3, 2, 40), "PCHN/PLIN/PYSZ")
    check(pat.flags_PFLG == 3 and pat.flags_PFFF == 0x1A, "PFLG/PFFF")
    check(pat.icon == bytes(range(32)), "PICO")
    check(pat.fg_color == (1, 2, 3) and pat.bg_color == (4, 5, 6), "PFGC/PBGC")
    check(isinstance(pat.fg_color, tuple) and isinstance(pat.bg_color, tuple), "rgb tuples")
    check((pat.x, pat.y) == (-64, 96), "PXXX/PYYY")
    got = [(n.note, n.vel, n.module, n.ctl, n.val) for line in pat.data for n in line]
    want = [(NOTE.C4 + i, i, 300 + i, 0x0102 + i, 0xFF00 + i) for i in range(6)]
    check(got == want, "note cells row-major")
    check(pat.raw_data == cells, "raw_data preserved")
    check((cl.source, cl.flags_PFFF, cl.x, cl.y) == (0, 9, 128, -32), "clone fields")
    check(cl.source_pattern is pat, "clone resolves to its source")
    # pre-1.9.5.0 files: module high byte cleared in patterns
    old = load(
        header(VERS=bytes((0, 4, 9, 1)))
        + pattern_chunks(1, 1, cell(1, 2, 0x1234, 4, 5))
        + clone
        + module_chunks()
    )
    check(old.patterns[0].data[0][0].module == 0x34, "legacy high byte cleared")
    new = load(
        header(VERS=bytes((0, 5, 9, 1)))
        + pattern_chunks(1, 1, cell(1, 2, 0x1234, 4, 5))
        + module_chunks()
    )
    check(new.patterns[0].data[0][0].module == 0x1234, "1.9.5.0 keeps high byte")
    # readers used directly
    r = PatternReader(BytesIO(pattern_chunks(1, 1, cell(9, 8, 7, 6, 5))))
    check(r.object.raw_data == cell(9, 8, 7, 6, 5), "PatternReader standalone")
    r = PatternCloneReader(BytesIO(clone))
    check(isinstance(r.object, PatternClone) and r.object.x == 128, "clone standalone")
    for cls in (PatternReader, PatternCloneReader):
        check(issubclass(cls, Reader), cls.__name__ + " is a Reader")
        for h in ("process_PFFF", "process_PXXX", "process_PYYY", "process_PEND"):
            check(callable(getattr(cls, h, None)), "%s.%s" % (cls.__name__, h))
    check(not hasattr(PatternCloneReader, "process_PNME"), "clone reader has no PNME")
    raises(
        struct.error,
        lambda: load(header() + pattern_chunks(1, 1, b"", [chunk(b"PFGC", b"\1\2")])),
        "short PFGC",
    )
    raises(
        struct.error,
        lambda: load(header() + pattern_chunks(2, 2, cell(1, 1, 1, 1, 1))),
        "PDTA shorter than tracks*lines",
    )


def check_reader_base():
    r = Reader(BytesIO(b""))
    raises(RuntimeError, r.process_end_of_file, "Reader.process_end_of_file")
    check(r.process_PAMD(b"") is None, "PAMD ignored")
    raises(RuntimeError, lambda: Reader(BytesIO(b"")).object, "empty stream, no handler")
    r = Reader(BytesIO(b""))
    r.object = 1
    check(r.object == 1, "object setter")

    def again():
        r.object = 2

    raises(AttributeError, again, "object set twice")
    f = BytesIO(chunk(b"AAAA", b"12345") + chunk(b"BBBB", b"xy"))
    f.seek(8 + 5)
    Reader(f).rewind(b"12345")
    check(f.tell() == 0, "rewind to chunk start")
    f.seek(0, 2)
    Reader(f).rewind(b"xy")
    check(f.tell() == 13, "rewind second chunk")
    check(issubclass(ReaderFinished, Exception), "ReaderFinished")
    # SunVoxReader can be driven directly
    sv = SunVoxReader(BytesIO(header()[8:] + module_chunks()))
    check(sv.object.initial_bpm == 777, "SunVoxReader direct")
    # file name / Path input still works
    import os
    import tempfile
    from pathlib import Path

    fd, path = tempfile.mkstemp(suffix=".sunvox")
    try:
        with os.fdopen(fd, "wb") as fh:
            fh.write(header() + module_chunks())
        check(read_sunvox_file(path).initial_tpl == 13, "read by str path")
        check(read_sunvox_file(Path(path)).initial_tpl == 13, "read by Path")
    finally:
        os.unlink(path)


def stored_name(name):
    """Documented storage limit: longest prefix whose UTF-8 form fits 32 bytes."""
    return name.encode("utf-8")[:32].decode("utf-8", "ignore")


def rstrip_unused(links):
    """Trailing unused (-1) link entries are not preserved by a save/load cycle."""
    links = list(links)
    while links and links[-1] == -1:
        links.pop()
    return links


def snapshot(project):
    mods = []
    for mod in project.modules:
        if mod is None:
            mods.append(None)
            continue
        attached = [k for k, c in mod.controllers.items() if c.attached(mod)]
        mods.append(
            (
                type(mod).__name__,
                stored_name(mod.name),
                mod.flags,
                (mod.x, mod.y, mod.layer, mod.mod_scale, int(mod.visualization)),
                tuple(mod.color),
                (mod.midi_in_always, mod.midi_in_channel, mod.midi_out_name or None),
                (mod.midi_out_channel, mod.midi_out_bank, mod.midi_out_program),
                [mod.get_raw(k) for k in attached],
                [mod.controller_midi_maps[k].cmid_data for k in attached],
                dict(mod.option_values),
                list(mod.in_links),
                list(mod.in_link_slots),
                rstrip_unused(mod.out_links),
                rstrip_unused(mod.out_link_slots),
            )
        )
    pats = []
    for pat in project.patterns:
        if pat is None:
            pats.append(None)
        elif isinstance(pat, PatternClone):
            pats.append((pat.source, pat.flags_PFFF, pat.x, pat.y))
        else:
            pats.append((pat.name, pat.tracks, pat.lines, pat.x, pat.y, pat.raw_data))
    head = [
        project.name,
        project.flags,
        project.initial_bpm,
        project.initial_tpl,
        int(project.receive_sync_midi),
        int(project.receive_sync_other),
        project.based_on_version,
        project.timeline_position,
        project.restart_position,
    ]
    return head, mods, pats


def check_round_trip():
    p = Project()
    p.name = "ÆØÅ round trip"
    p.receive_sync_midi = 7
    p.receive_sync_other = 2
    p.restart_position = 4
    gen = p.new_module(m.Generator, name="é" * 20, midi_in_always=True, midi_in_channel=15)
    fm = p.new_module(m.Fm, midi_out_name="synth")
    rev = p.new_module(m.Reverb, color=(0, 128, 255))
    mix = p.new_module(m.Amplifier)
    gen >> rev >> mix >> p.output
    fm >> rev
    fm >> mix
    gen >> ~rev
    pat = Pattern(tracks=2, lines=4, name="p")
    for ln, line in enumerate(pat.data):
        for tr, note in enumerate(line):
            note.note = NOTE.C3 + ln
            note.vel = 1 + tr
            note.module = gen.index + 1
            note.ctl = 0x0700
            note.val = ln * 1000 + tr
    p.attach_pattern(pat)
    p.attach_pattern(None)
    p.attach_pattern(PatternClone(source=0, x=16))
    f = BytesIO()
    p.write_to(f)
    blob = f.getvalue()
    q = load(blob)
    check(snapshot(q) == snapshot(p), "round trip snapshot equal")
    check(q.modules[1].name == ("é" * 20).encode("utf-8")[:32].decode("utf-8"), "name")
    g = BytesIO()
    q.write_to(g)
    check(g.getvalue() == blob, "second save is byte-identical")
    check(snapshot(p.clone()) == snapshot(p), "Container.clone")


def main():
    check_header_fields()
    check_module_fields()
    check_pattern_fields()
    check_reader_base()
    check_round_trip()
    if FAILURES:
        print("%d check(s) failed" % len(FAILURES))
        sys.exit(1)
    print("PASS")


if __name__ == "__main__":
    main()
