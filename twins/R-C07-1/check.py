"""Behaviour check for Project.connect() and the >>, << and ~ operator sugar.

Drives exhaustive and random histories of connect/disconnect requests and
compares the four link lists of every module, after every operation, with
an independent model of the documented behaviour (slot for slot).  Also
checks operator return values, the DisconnectingModule proxy, error types
and the state left behind when a request fails half way.

Run with PYTHONPATH=<root>/src/python from the repository root.
"""
import itertools
import random
import sys
from io import BytesIO

from rv.api import Project, m, read_sunvox_file
from rv.errors import ModuleOwnershipError
from rv.modules.module import DisconnectingModule, Module, ModuleList

OWNERSHIP_MESSAGE = "Modules must have same parent to be connected or disconnected"


# ----------------------------------------------------------------- model


class Model:
    """Independent model of the four parallel link lists of each module."""

    def __init__(self, project):
        self.tables = {}
        for mod in project.modules:
            if mod is None:
                continue
            self.tables[mod.index] = dict(
                in_links=list(mod.in_links),
                in_link_slots=list(mod.in_link_slots),
                out_links=list(mod.out_links),
                out_link_slots=list(mod.out_link_slots),
            )

    def request(self, src, dst, disconnect):
        ins = self.tables[dst]["in_links"]
        in_slots = self.tables[dst]["in_link_slots"]
        outs = self.tables[src]["out_links"]
        out_slots = self.tables[src]["out_link_slots"]
        if disconnect:
            if src not in ins:
                return
            i = ins.index(src)
            o = outs.index(dst)
            ins[i] = in_slots[i] = -1
            outs[o] = out_slots[o] = -1
        else:
            if src in ins:
                return
            i, o = len(ins), len(outs)
            ins.append(src)
            outs.append(dst)
            in_slots.append(o)
            out_slots.append(i)

    def pairs(self):
        found = set()
        for dst, t in self.tables.items():
            for src in t["in_links"]:
                if src != -1:
                    found.add((src, dst))
        return found


def snapshot(project):
    return {
        mod.index: dict(
            in_links=list(mod.in_links),
            in_link_slots=list(mod.in_link_slots),
            out_links=list(mod.out_links),
            out_link_slots=list(mod.out_link_slots),
        )
        for mod in project.modules
        if mod is not None
    }


def check_invariant(project, context):
    """Every link is recorded on both ends at the slot the other end names."""
    mods = project.modules
    for mod in mods:
        if mod is None:
            continue
        for name in ("in_links", "in_link_slots", "out_links", "out_link_slots"):
            assert type(getattr(mod, name)) is list, (context, name)
        assert len(mod.in_links) == len(mod.in_link_slots), context
        assert len(mod.out_links) == len(mod.out_link_slots), context
        live_in = [x for x in mod.in_links if x != -1]
        live_out = [x for x in mod.out_links if x != -1]
        assert len(live_in) == len(set(live_in)), (context, "duplicate in")
        assert len(live_out) == len(set(live_out)), (context, "duplicate out")
        for i, (src, slot) in enumerate(zip(mod.in_links, mod.in_link_slots)):
            if src == -1:
                assert slot == -1, context
                continue
            peer = mods[src]
            assert peer.out_links[slot] == mod.index, context
            assert peer.out_link_slots[slot] == i, context
        for o, (dst, slot) in enumerate(zip(mod.out_links, mod.out_link_slots)):
            if dst == -1:
                assert slot == -1, context
                continue
            peer = mods[dst]
            assert peer.in_links[slot] == mod.index, context
            assert peer.in_link_slots[slot] == o, context


def assert_matches(project, model, context):
    actual = snapshot(project)
    assert actual == model.tables, (context, actual, model.tables)
    check_invariant(project, context)


# ------------------------------------------------------------ operations


def new_project(n):
    project = Project()
    mods = [project.new_module(m.Amplifier) for _ in range(n)]
    return project, mods


def as_list(operand):
    return list(operand) if isinstance(operand, (list, tuple)) else [operand]


def unwrap(x):
    if isinstance(x, DisconnectingModule):
        return x.__dict__["orig"], True
    return x, False


def apply_to_model(model, src_operand, dst_operand):
    for s in as_list(src_operand):
        for d in as_list(dst_operand):
            s_mod, s_dis = unwrap(s)
            d_mod, d_dis = unwrap(d)
            model.request(s_mod.index, d_mod.index, s_dis or d_dis)


def perform(project, style, src_operand, dst_operand):
    """Issue one request in the given style; return (result, expected_result)."""
    if style == "call":
        return project.connect(src_operand, dst_operand), None
    if style == "rshift":
        lhs = src_operand
        if type(lhs) is list:
            lhs = ModuleList(project, lhs)
        return lhs >> dst_operand, dst_operand
    if style == "lshift":
        lhs = dst_operand
        if type(lhs) is list:
            lhs = ModuleList(project, lhs)
        return lhs << src_operand, src_operand
    raise AssertionError(style)


def check_result(project, style, result, expected):
    if style == "call":
        assert result is None
        return
    if isinstance(expected, list):
        assert type(result) is ModuleList
        assert result.parent is project
        assert list(result) == list(expected)
        assert all(a is b for a, b in zip(result, expected))
    else:
        assert result is expected


def run_history(n, history, styles):
    project, mods = new_project(n)
    model = Model(project)
    for step, ((src, dst), style) in enumerate(zip(history, styles)):
        src_operand = build_operand(mods, src)
        dst_operand = build_operand(mods, dst)
        lhs = dst_operand if style == "lshift" else src_operand
        if isinstance(lhs, DisconnectingModule):
            # the proxy does not define the shift operators (see
            # test_operator_results_and_proxy); use the method call instead
            style = "call"
        result, expected = perform(project, style, src_operand, dst_operand)
        apply_to_model(model, src_operand, dst_operand)
        check_result(project, style, result, expected)
        assert_matches(project, model, (n, history, styles, step))
    return project, mods, model


def build_operand(mods, spec):
    """spec: int (module), ('~', int) or a list of those."""
    if isinstance(spec, list):
        return [build_operand(mods, s) for s in spec]
    if isinstance(spec, tuple):
        return ~mods[spec[1]]
    return mods[spec]


# ------------------------------------------------------------------ tests


def test_exhaustive_single_operands():
    n = 3
    specs = []
    for i in range(n):
        specs.append(i)
        specs.append(("~", i))
    requests = list(itertools.product(specs, specs))
    count = 0
    for length in (1, 2, 3):
        for history in itertools.product(requests, repeat=length):
            # keep the run time bounded: only method-call style here, and for
            # length 3 only histories over the first two modules' requests
            if length == 3 and any(
                (s if isinstance(s, int) else s[1]) == 2
                or (d if isinstance(d, int) else d[1]) == 2
                for s, d in history
            ):
                continue
            run_history(n, history, ["call"] * length)
            count += 1
    return count


def test_exhaustive_list_operands():
    n = 3
    singles = [0, 1, 2, ("~", 0), ("~", 1)]
    lists = [[0, 1], [1, 2], [("~", 1), 2], [2, ("~", 0)], [0, 1, 2], [1, 1], []]
    operands = singles + lists
    requests = [(s, d) for s in operands for d in operands]
    count = 0
    rng = random.Random(7)
    for first in requests:
        for second in rng.sample(requests, 25):
            for style in ("call", "rshift", "lshift"):
                run_history(n, [first, second], [style, style])
                count += 1
    return count


def test_random_histories():
    rng = random.Random(20240607)
    count = 0
    for _ in range(400):
        n = rng.randint(1, 6)
        length = rng.randint(1, 25)

        def operand():
            def single():
                i = rng.randrange(n)
                return ("~", i) if rng.random() < 0.35 else i

            if rng.random() < 0.45:
                return [single() for _ in range(rng.randint(0, 4))]
            return single()

        history = [(operand(), operand()) for _ in range(length)]
        styles = [rng.choice(["call", "rshift", "lshift"]) for _ in range(length)]
        run_history(n, history, styles)
        count += 1
    return count


def test_expected_connection_sets():
    project, (a, b, c, d) = new_project(4)
    idx = lambda *ms: tuple(x.index for x in ms)
    model = Model(project)

    a >> b >> c >> d
    for s, t in ((a, b), (b, c), (c, d)):
        model.request(s.index, t.index, False)
    assert_matches(project, model, "chain")
    assert model.pairs() == {idx(a, b), idx(b, c), idx(c, d)}

    # overlapping list: a->b exists already, a->c and a->d must still be made
    a >> [b, c, d]
    model.request(a.index, c.index, False)
    model.request(a.index, d.index, False)
    assert_matches(project, model, "overlap connect")
    assert model.pairs() == {
        idx(a, b), idx(b, c), idx(c, d), idx(a, c), idx(a, d)
    }

    # overlapping disconnect: b->d was never connected, must not stop the loop
    project.connect([a, b, c], ~d)
    model.request(a.index, d.index, True)
    model.request(c.index, d.index, True)
    assert_matches(project, model, "overlap disconnect")
    assert model.pairs() == {idx(a, b), idx(b, c), idx(a, c)}
    assert d.in_links == [-1, -1] and d.in_link_slots == [-1, -1]

    # reconnect after disconnect appends a fresh slot, holes stay
    c >> d
    model.request(c.index, d.index, False)
    assert_matches(project, model, "reconnect")
    assert d.in_links == [-1, -1, c.index]
    assert c.out_links == [-1, d.index]
    assert d.in_link_slots == [-1, -1, 1]
    assert c.out_link_slots == [-1, 2]

    # self link and its removal
    b >> b
    model.request(b.index, b.index, False)
    assert_matches(project, model, "self link")
    b >> ~b
    model.request(b.index, b.index, True)
    assert_matches(project, model, "self unlink")

    # mixed list: connect one, disconnect another in the same request
    a >> [~b, d]
    model.request(a.index, b.index, True)
    model.request(a.index, d.index, False)
    assert_matches(project, model, "mixed list")
    assert model.pairs() == {idx(b, c), idx(a, c), idx(c, d), idx(a, d)}

    # both ends marked: still a disconnect
    project.connect(~b, ~c)
    model.request(b.index, c.index, True)
    assert_matches(project, model, "both marked")

    # output module participates like any other
    out = project.output
    ModuleList(project, [c, d]) >> out
    model.request(c.index, 0, False)
    model.request(d.index, 0, False)
    assert_matches(project, model, "output")
    assert out.in_links == [c.index, d.index]


def test_iterable_operands():
    project, (a, b, c, d) = new_project(4)
    model = Model(project)
    project.connect((a, b), (c, d))  # tuples are accepted
    for s in (a, b):
        for t in (c, d):
            model.request(s.index, t.index, False)
    assert_matches(project, model, "tuples")
    # a generator on the right is consumed by the first left operand only
    project2, (e, f, g) = new_project(3)
    model2 = Model(project2)
    project2.connect([e, f], (x for x in [g]))
    model2.request(e.index, g.index, False)
    assert_matches(project2, model2, "generator rhs")
    # a generator on the left is walked once, completely
    project2.connect((x for x in [f, g]), [e])
    model2.request(f.index, e.index, False)
    model2.request(g.index, e.index, False)
    assert_matches(project2, model2, "generator lhs")
    # empty operands do nothing
    before = snapshot(project2)
    project2.connect([], [e, f])
    project2.connect([e, f], [])
    assert snapshot(project2) == before


def test_operator_results_and_proxy():
    project, (a, b, c) = new_project(3)
    assert (a >> b) is b
    assert (a << b) is b
    r = a >> [b, c]
    assert type(r) is ModuleList and r.parent is project and r == [b, c]
    r2 = r >> a
    assert r2 is a
    ml = ModuleList(project, [a, b])
    r3 = c >> ml
    assert type(r3) is ModuleList and r3 is not ml and r3 == [a, b]
    r4 = c << [a, b]
    assert type(r4) is ModuleList and r4.parent is project and r4 == [a, b]
    r5 = ml << [c]
    assert type(r5) is ModuleList and r5 == [c]

    dm = ~a
    assert type(dm) is DisconnectingModule
    assert dm.__dict__ == {"orig": a}
    assert ~dm is a
    assert ~~a is a
    assert (b >> dm) is dm
    assert (b << dm) is dm
    # attribute reads and writes go to the wrapped module
    assert dm.index == a.index and dm.parent is project
    assert dm.in_links is a.in_links
    dm.name = "renamed"
    assert a.name == "renamed" and "name" not in dm.__dict__
    dm.orig = "elsewhere"  # goes to the module, proxy keeps its target
    assert a.__dict__["orig"] == "elsewhere" and ~dm is a
    del a.__dict__["orig"]
    try:
        dm.no_such_attribute
    except AttributeError:
        pass
    else:
        raise AssertionError("AttributeError expected")
    # the proxy itself has no shift operators: it can only be an operand
    p2, (x, y) = new_project(2)
    for fn in (lambda: ~x >> y, lambda: ~y << x):
        try:
            fn()
        except TypeError:
            pass
        else:
            raise AssertionError("TypeError expected")
    assert y.in_links == [] and x.out_links == []
    assert not isinstance(dm, Module)
    assert int(a) == a.index + 1


def test_errors():
    p1, (a, b, c) = new_project(3)
    p2, (x, y) = new_project(2)
    stray = m.Amplifier()

    def expect_ownership(fn):
        try:
            fn()
        except ModuleOwnershipError as e:
            assert str(e) == OWNERSHIP_MESSAGE, str(e)
            assert not isinstance(e, ValueError)
        else:
            raise AssertionError("ModuleOwnershipError expected")

    before1, before2 = snapshot(p1), snapshot(p2)
    expect_ownership(lambda: a >> x)
    expect_ownership(lambda: x >> a)
    expect_ownership(lambda: a << x)
    expect_ownership(lambda: a >> ~x)
    expect_ownership(lambda: p1.connect(x, y))
    expect_ownership(lambda: p1.connect(a, stray))
    expect_ownership(lambda: p1.connect(stray, a))
    expect_ownership(lambda: p1.connect(~stray, ~a))
    expect_ownership(lambda: p1.connect([x], [a]))
    assert snapshot(p1) == before1 and snapshot(p2) == before2
    assert stray.in_links == [] and stray.out_links == []
    assert x.in_links == [] and x.out_links == []

    # a failing request keeps the pairs made before the failure, and only those
    model = Model(p1)
    expect_ownership(lambda: a >> [b, x, c])
    model.request(a.index, b.index, False)
    assert_matches(p1, model, "partial")
    expect_ownership(lambda: p1.connect([b, x, c], a))
    model.request(b.index, a.index, False)
    assert_matches(p1, model, "partial 2")
    assert snapshot(p2) == before2

    # unattached module on the left of an operator: there is no project to ask
    for fn in (lambda: stray >> a, lambda: stray << a):
        try:
            fn()
        except AttributeError:
            pass
        else:
            raise AssertionError("AttributeError expected")

    # non-module operands are not accepted silently
    for bad in (None, 3):
        try:
            p1.connect(a, bad)
        except TypeError:
            pass
        else:
            raise AssertionError("TypeError expected")


def test_after_file_round_trip():
    rng = random.Random(99)
    for _ in range(30):
        n = rng.randint(2, 5)
        project, mods = new_project(n)
        for _ in range(rng.randint(1, 10)):
            s, t = rng.choice(mods), rng.choice(mods)
            if rng.random() < 0.3:
                project.connect(s, ~t)
            else:
                project.connect(s, t)
        f = BytesIO()
        project.write_to(f)
        f.seek(0)
        loaded = read_sunvox_file(f)
        lmods = [x for x in loaded.modules if x is not None]
        model = Model(loaded)
        check_invariant(loaded, "loaded")
        for step in range(12):
            s, t = rng.choice(lmods), rng.choice(lmods)
            dis = rng.random() < 0.4
            if dis:
                rng.choice([lambda: s >> ~t, lambda: t << ~s,
                            lambda: loaded.connect(~s, ~t)])()
            else:
                rng.choice([lambda: s >> t, lambda: t << s,
                            lambda: loaded.connect([s], [t])])()
            model.request(s.index, t.index, dis)
            assert_matches(loaded, model, ("loaded", step))


def main():
    n1 = test_exhaustive_single_operands()
    n2 = test_exhaustive_list_operands()
    n3 = test_random_histories()
    test_expected_connection_sets()
    test_iterable_operands()
    test_operator_results_and_proxy()
    test_errors()
    test_after_file_round_trip()
    print(f"histories: exhaustive-single={n1} exhaustive-list={n2} random={n3}")
    print("PASS")
    return 0


if __name__ == "__main__":
    sys.exit(main())
