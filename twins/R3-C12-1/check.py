"""Behaviour check for rv.modules.module.Visualization packed sub-fields.

Compares the library class against an independent oracle (plain arithmetic
written out here) for getters, setters, clamping/masking, error types and
independence of the other sub-fields, over many (old word, field, new value)
triples.  Also checks the SVPR chunk written for a module.
"""
import itertools
import random
import sys
from struct import pack

from rv.modules.module import (
    LevelMode,
    Orientation,
    OscilloscopeMode,
    Visualization,
)

FAILS = []


def fail(msg):
    FAILS.append(msg)
    if len(FAILS) < 20:
        print("FAIL:", msg)


# ---- oracle ---------------------------------------------------------------
ENUMS = {
    "level_mode": LevelMode,
    "orientation": Orientation,
    "oscilloscope_mode": OscilloscopeMode,
}
LAYOUT = {
    "level_mode": (0, 0b11111),
    "orientation": (5, 1),
    "oscilloscope_mode": (8, 0b11111),
    "oscilloscope_size": (16, 0xFF),
    "bg_transparency": (24, 3),
    "shadow_opacity": (26, 3),
}
CLAMPED = {"oscilloscope_size", "bg_transparency", "shadow_opacity"}


def oracle_get(word, name):
    shift, mask = LAYOUT[name]
    raw = (word >> shift) & mask
    if name in ENUMS:
        return ENUMS[name](raw)  # may raise ValueError
    return raw


def oracle_set(word, name, v):
    shift, mask = LAYOUT[name]
    old = oracle_get(word, name)
    if name == "level_mode":
        new = v & mask
    elif name in ENUMS:
        new = int(v) & mask
    else:
        new = max(0, min(v, mask))
    return word - (int(old) << shift) + (new << shift)


def outcome(fn):
    try:
        return ("ok", fn())
    except Exception as e:  # noqa
        return ("err", type(e))


def lib_set(word, name, v):
    viz = Visualization(word)
    setattr(viz, name, v)
    return viz.value


def lib_get(word, name):
    return getattr(Visualization(word), name)


def compare(word, name, v):
    want = outcome(lambda: oracle_set(word, name, v))
    got = outcome(lambda: lib_set(word, name, v))
    if want != got:
        fail("set %s=%r on %#x: want %r got %r" % (name, v, word, want, got))
        return
    if got[0] == "err":
        # a failed set must leave the word alone
        viz = Visualization(word)
        try:
            setattr(viz, name, v)
        except Exception:
            pass
        if viz.value != word:
            fail("failed set %s=%r mutated %#x -> %#x" % (name, v, word, viz.value))
        return
    new_word = got[1]
    if type(new_word) is not int:
        fail("value type after set %s=%r on %#x is %r" % (name, v, word, type(new_word)))
    # independence + read-back, only meaningful for well-formed words/values
    if isinstance(v, int) and 0 <= word < 2**32:
        shift, mask = LAYOUT[name]
        if (new_word ^ word) & ~(mask << shift):
            fail("set %s=%r on %#x touched other bits: %#x" % (name, v, word, new_word))
        exp = max(0, min(v, mask)) if name in CLAMPED else v & mask
        rb = outcome(lambda: lib_get(new_word, name))
        rb_want = outcome(lambda: oracle_get(new_word, name))
        if rb != rb_want:
            fail("read-back %s on %#x: want %r got %r" % (name, new_word, rb_want, rb))
        elif rb[0] == "ok" and int(rb[1]) != exp:
            fail("read-back %s after set %r on %#x gives %r" % (name, v, word, rb[1]))
        for other in LAYOUT:
            if other == name:
                continue
            a = outcome(lambda: lib_get(word, other))
            b = outcome(lambda: lib_get(new_word, other))
            if a != b:
                fail("set %s=%r on %#x changed %s: %r -> %r" % (name, v, word, other, a, b))


def build(lm, ori, om, size, bg, sh, junk=0):
    return lm | ori << 5 | om << 8 | size << 16 | bg << 24 | sh << 26 | junk


# ---- getters over all valid words (sampled sizes) ---------------------------
sizes = [0, 1, 2, 0x7F, 0x80, 0xFE, 0xFF]
junks = [0, 0x40, 0x80, 0xC0, 0xE000, 0x10000000, 0xF000E0C0]
valid_words = []
for lm, ori, om, size, bg, sh in itertools.product(
    LevelMode, Orientation, OscilloscopeMode, sizes, range(4), range(4)
):
    w = build(int(lm), int(ori), int(om), size, bg, sh)
    valid_words.append(w)
    viz = Visualization(w)
    got = (
        viz.level_mode,
        viz.orientation,
        viz.oscilloscope_mode,
        viz.oscilloscope_size,
        viz.bg_transparency,
        viz.shadow_opacity,
    )
    if got != (lm, ori, om, size, bg, sh):
        fail("getters on %#x: %r" % (w, got))
    if not (
        isinstance(got[0], LevelMode)
        and isinstance(got[1], Orientation)
        and isinstance(got[2], OscilloscopeMode)
        and type(got[3]) is int
        and type(got[4]) is int
        and type(got[5]) is int
    ):
        fail("getter types on %#x: %r" % (w, [type(x) for x in got]))
    if int(viz) != w or viz.value != w:
        fail("__int__ on %#x" % w)

# ---- setters: complete sub-field domains on a sample of old words -----------
rnd = random.Random(12)
sample = rnd.sample(valid_words, 60)
sample += [build(4, 1, 7, 0xFF, 3, 3, j) for j in junks]
sample += [build(0, 0, 0, 0, 0, 0, j) for j in junks]
# words whose enumerated parts hold undefined members (getter/setter raise)
invalid_words = [5, 31, 0x0800, 0x1F00, 0x1F1F, build(9, 1, 3, 7, 1, 2), build(2, 0, 12, 7, 1, 2)]
odd_words = [-1, -32, 2**32 + 5, 2**40 | build(3, 1, 6, 9, 2, 1)]

domains = {
    "level_mode": list(range(-40, 300)) + list(LevelMode) + [True, False, 2**20 + 3],
    "orientation": list(range(-5, 40)) + list(Orientation) + [True, False, 1.9, "1", "0", 2**20 + 1],
    "oscilloscope_mode": list(range(-40, 300)) + list(OscilloscopeMode) + [True, 3.7, "6"],
    "oscilloscope_size": list(range(-20, 400)) + [True, False, 10**9, -(10**9)],
    "bg_transparency": list(range(-20, 40)) + [True, False, 10**9],
    "shadow_opacity": list(range(-20, 40)) + [True, False, 10**9],
}
bad_values = [None, 1.5, 0.0, -0.5, 300.5, "x", "2", b"1", [1], 2.0]

for word in sample + invalid_words + odd_words:
    for name, dom in domains.items():
        for v in dom:
            compare(word, name, v)
        for v in bad_values:
            compare(word, name, v)

# 16-bit sweep of new values for each field on a couple of words
for word in (0, build(4, 1, 7, 0xAA, 2, 1, 0xC0)):
    for name in LAYOUT:
        for v in range(0, 1 << 16, 7):
            compare(word, name, v)

# ---- explicit spot checks (documented expectations) -------------------------
viz = Visualization(0)
viz.level_mode = LevelMode.glow
viz.orientation = Orientation.vertical
viz.oscilloscope_mode = OscilloscopeMode.xy
viz.oscilloscope_size = 1000
viz.bg_transparency = -3
viz.shadow_opacity = 2
if viz.value != (4 | 1 << 5 | 7 << 8 | 0xFF << 16 | 0 << 24 | 2 << 26):
    fail("spot check word %#x" % viz.value)
viz.level_mode = LevelMode.mono  # overwrite non-zero
viz.oscilloscope_size = 3
viz.shadow_opacity = 9
if viz.value != (1 | 1 << 5 | 7 << 8 | 3 << 16 | 3 << 26):
    fail("spot check overwrite %#x" % viz.value)
try:
    Visualization(5).level_mode = 1
    fail("no ValueError for undefined old level mode")
except ValueError:
    pass
try:
    Visualization(0x0900).oscilloscope_mode = 1
    fail("no ValueError for undefined old oscilloscope mode")
except ValueError:
    pass
try:
    Visualization(0).level_mode = 1.0
    fail("no TypeError for float level mode")
except TypeError:
    pass

# ---- SVPR chunk carries int(visualization) ----------------------------------
from rv.api import Project, m  # noqa: E402

p = Project()
mod = p.new_module(m.Amplifier)
viz = mod.visualization  # a fresh Visualization view of the module's word
if not isinstance(viz, Visualization) or int(viz) != 0x000C0101:
    fail("default module visualization %r" % (viz,))
viz.oscilloscope_size = 77
viz.level_mode = LevelMode.stereo
viz.shadow_opacity = 3
mod.visualization = int(viz)
expect_word = 2 | 1 << 8 | 77 << 16 | 3 << 26
svpr = [v for k, v in mod.iff_chunks() if k == b"SVPR"]
if svpr != [pack("<I", expect_word)]:
    fail("SVPR chunk %r != %r" % (svpr, pack("<I", expect_word)))
if mod.visualization.oscilloscope_size != 77 or mod.visualization.level_mode != 2:
    fail("module visualization read-back")

if FAILS:
    print("FAILED (%d)" % len(FAILS))
    sys.exit(1)
print("PASS")
