import hashlib
import io
import logging
import random
import sys
from enum import Enum

logging.disable(logging.CRITICAL)

import rv.api  # noqa: E402  (registers every module class)
from rv.api import Project, Synth, m, read_sunvox_file  # noqa: E402
from rv.controller import DependentRange, Range  # noqa: E402
from rv.errors import EmptySynthError  # noqa: E402
from rv.modules import MODULE_CLASSES  # noqa: E402

FAILURES = []


def check(cond, msg):
    if not cond:
        FAILURES.append(msg)


def module_types():
    return sorted(k for k in MODULE_CLASSES if k != "Output")


def ends(t, which):
    """Return the low/high end value for controller value type t."""
    if isinstance(t, Range):
        return t.min if which == "min" else t.max
    if t is bool:
        return which == "max"
    if isinstance(t, type) and issubclass(t, Enum):
        members = list(t)
        return members[0] if which == "min" else members[-1]
    return None


def set_controllers(mod, which):
    """Set every controller of mod to its range end (parents before dependants)."""
    items = list(mod.controllers.items())
    plain = [(n, c) for n, c in items if not isinstance(c.value_type, DependentRange)]
    dependent = [(n, c) for n, c in items if isinstance(c.value_type, DependentRange)]
    for name, ctl in plain + dependent:
        if not ctl.attached(mod) or name == "user_defined_controllers":
            continue
        t = ctl.instance_value_type(mod)
        v = ends(t, which)
        if v is not None:
            mod.controller_values[name] = v


def set_options(mod, which):
    for name, option in mod.options.items():
        cur = mod.option_values[name]
        if name == "user_defined_controllers":
            # drives controller attachment; exercised separately
            mod.option_values[name] = {"min": 0, "max": 5}[which]
        elif option.size == 1:
            mod.option_values[name] = which == "max"
        elif isinstance(cur, Enum):
            members = list(type(cur))
            mod.option_values[name] = members[0] if which == "min" else members[-1]
        else:
            mod.option_values[name] = 0 if which == "min" else (1 << option.size) - 1


def set_midi(mod, seed):
    from rv.cmidmap import MidiMessageType, Slope

    rnd = random.Random(seed)
    for name in mod.controllers:
        if rnd.random() < 0.6:
            mm = mod.controller_midi_maps[name]
            mm.channel = rnd.randrange(0, 17)
            mm.message_type = rnd.choice(list(MidiMessageType))
            mm.message_parameter = rnd.randrange(0, 0x10000)
            mm.slope = rnd.choice(list(Slope))


def set_common(mod, seed):
    rnd = random.Random(seed)
    mod.mod_finetune = rnd.randrange(-256, 257)
    mod.mod_relative_note = rnd.randrange(-64, 65)
    mod.mod_scale = rnd.randrange(1, 1025)
    mod.color = (rnd.randrange(256), rnd.randrange(256), rnd.randrange(256))
    mod.midi_in_always = rnd.random() < 0.5
    mod.midi_in_channel = rnd.randrange(0, 17)
    mod.midi_out_name = rnd.choice([None, "out", "Some MIDI device"])
    mod.midi_out_channel = rnd.randrange(0, 17)
    mod.midi_out_bank = rnd.randrange(-1, 128)
    mod.midi_out_program = rnd.randrange(-1, 128)
    mod.name = rnd.choice([mod.name, "x", "A rather long module name over 32 chars", "été"])


def set_payload(mod, which, seed):
    """Fill type specific payload with boundary / random contents."""
    rnd = random.Random(seed)

    def fill(chunk, lo, hi, as_float=False):
        n = chunk.length
        if which == "min":
            chunk.values = [lo] * n
        elif which == "max":
            chunk.values = [hi] * n
        elif as_float:
            chunk.values = [rnd.randrange(-1024, 1025) / 1024.0 for _ in range(n)]
        else:
            chunk.values = [rnd.randrange(lo, hi + 1) for _ in range(n)]

    mt = mod.mtype
    if mt == "MultiSynth":
        fill(mod.nv_curve, 0, 255)
        fill(mod.vv_curve, 0, 255)
        fill(mod.np_curve, 0, 65535)
    elif mt == "WaveShaper":
        fill(mod.curve, 0, 65535)
    elif mt == "MultiCtl":
        fill(mod.curve, 0, 65535)
        top = 0xFFFFFFFF
        for i in range(16):
            if which == "min":
                vals = (0,) * 8
            elif which == "max":
                vals = (top,) * 8
            else:
                vals = tuple(rnd.randrange(0, top + 1) for _ in range(8))
            mod.mappings.values[i] = mod.Mapping(vals)
    elif mt == "FMX":
        fill(mod.custom_waveform, -1.0, 1.0, as_float=True)
    elif mt == "SpectraVoice":
        for h in mod.harmonics:
            if which == "min":
                h.freq_hz, h.volume, h.width, h.type = 0, 0, 0, list(mod.HarmonicType)[0]
            elif which == "max":
                h.freq_hz, h.volume, h.width, h.type = 65535, 255, 255, list(mod.HarmonicType)[-1]
            else:
                h.freq_hz = rnd.randrange(0, 65536)
                h.volume = rnd.randrange(0, 256)
                h.width = rnd.randrange(0, 256)
                h.type = rnd.choice(list(mod.HarmonicType))
    elif mt in ("Generator", "Analog generator"):
        if which == "min":
            mod.drawn_waveform.samples = [-128] * 32
        elif which == "max":
            mod.drawn_waveform.samples = [127] * 32
        else:
            mod.drawn_waveform.samples = [rnd.randrange(-128, 128) for _ in range(32)]
    elif mt == "Vorbis player":
        if which == "min":
            mod.data = b""
        elif which == "max":
            mod.data = bytes(range(256)) * 3
        else:
            mod.data = bytes(rnd.randrange(256) for _ in range(rnd.randrange(1, 200)))


def payload_state(mod):
    mt = mod.mtype
    if mt == "MultiSynth":
        return (mod.nv_curve.values, mod.vv_curve.values, mod.np_curve.values)
    if mt == "WaveShaper":
        return (mod.curve.values,)
    if mt == "MultiCtl":
        return (
            mod.curve.values,
            [
                (x.min, x.max, x.controller, x.flags, x.future_use2, x.future_use3,
                 x.future_use4, x.future_use5)
                for x in mod.mappings.values
            ],
        )
    if mt == "FMX":
        return (mod.custom_waveform.values,)
    if mt == "SpectraVoice":
        return (
            mod.harmonic_freqs.values,
            mod.harmonic_volumes.values,
            mod.harmonic_widths.values,
            [int(x) for x in mod.harmonic_types.values],
            [(h.freq_hz, h.volume, h.width, int(h.type)) for h in mod.harmonics],
        )
    if mt in ("Generator", "Analog generator"):
        dw = mod.drawn_waveform
        return (dw.samples, dw.format, dw.freq)
    if mt == "Vorbis player":
        return (mod.data or b"",)
    if mt == "MetaModule":
        return (mod.project.read(),)
    return ()


def state(mod):
    attached = [n for n, c in mod.controllers.items() if c.attached(mod)]
    return dict(
        type=type(mod),
        mtype=mod.mtype,
        name=mod.name.encode("utf8")[:32].decode("utf8", "ignore"),
        flags=mod.flags,
        controllers={n: mod.controller_values[n] for n in attached},
        raw={n: mod.get_raw(n) for n in attached},
        options=dict(mod.option_values),
        # (MIDI bindings of types with detached controllers are position-shifted on
        # load by the library as it stands, so only compare them when all attached)
        cmid={n: mod.controller_midi_maps[n].cmid_data for n in mod.controllers}
        if len(attached) == len(mod.controllers)
        else None,
        common=(
            mod.mod_finetune, mod.mod_relative_note, mod.mod_scale, tuple(mod.color),
            bool(mod.midi_in_always), mod.midi_in_channel, mod.midi_out_name or None,
            mod.midi_out_channel, mod.midi_out_bank, mod.midi_out_program,
        ),
        payload=payload_state(mod),
    )


def diff(a, b):
    return [k for k in a if a[k] != b[k]]


def unit_variants(cls):
    """For modules with unit-dependent ranges yield one kwargs dict per unit."""
    parents = []
    for name, ctl in cls.controllers.items():
        vt = ctl.value_type
        if isinstance(vt, DependentRange) and vt.ctl_name not in parents:
            parents.append(vt.ctl_name)
    if not parents:
        yield {}
        return
    for p in parents:
        for member in cls.controllers[p].value_type:
            yield {p: member}


def build_variants(mtype):
    cls = MODULE_CLASSES[mtype]
    n = 0
    for kw in unit_variants(cls):
        for which in ("default", "min", "max", "random"):
            mod = cls(**kw)
            if which != "default":
                ctl_which = which if which != "random" else "max"
                for p, v in kw.items():
                    mod.controller_values[p] = v
                set_controllers(mod, ctl_which)
                for p, v in kw.items():
                    mod.controller_values[p] = v
                # re-run dependants now that the unit is final
                for name, ctl in mod.controllers.items():
                    if isinstance(ctl.value_type, DependentRange):
                        v = ends(ctl.instance_value_type(mod), ctl_which)
                        if v is not None:
                            mod.controller_values[name] = v
                set_options(mod, "max" if which == "random" else which)
                if hasattr(mod, "recompute_controller_attachment"):
                    mod.recompute_controller_attachment()
                    set_controllers(mod, ctl_which)
                set_payload(mod, which, seed=f"{mtype}-{n}")
                set_midi(mod, seed=f"{mtype}-{n}")
                set_common(mod, seed=f"{mtype}-{n}")
            n += 1
            yield f"{mtype}[{kw}|{which}]", mod


def synth_bytes(mod):
    return Synth(mod).read()


def load_synth(data):
    return read_sunvox_file(io.BytesIO(data)).module


def project_roundtrip(mod):
    p = Project()
    p.attach_module(mod)
    data = p.read()
    p2 = read_sunvox_file(io.BytesIO(data))
    return data, p2.modules[mod.index]


def run_all(digest_expected=None, extra=None):
    h = hashlib.sha256()
    count = 0
    for mtype in module_types():
        for label, mod in build_variants(mtype):
            count += 1
            before = state(mod)
            data = synth_bytes(mod)
            h.update(data)
            check(data[:8] == b"SSYN\0\0\0\0", f"{label}: magic")
            check(data.endswith(b"SEND\0\0\0\0"), f"{label}: SEND")
            loaded = load_synth(data)
            d = diff(before, state(loaded))
            check(not d, f"{label}: synth round trip differs in {d}")
            check(synth_bytes(loaded) == data, f"{label}: second write differs")
            clone = mod.clone()
            check(clone is not mod, f"{label}: clone identity")
            d = diff(before, state(clone))
            check(not d, f"{label}: clone differs in {d}")
            check(diff(before, state(mod)) == [], f"{label}: source mutated")
            if extra:
                extra(label, mod, before)
            # in-project context (last, as attaching gives the module a parent)
            pdata, pmod = project_roundtrip(mod)
            h.update(pdata)
            d = diff(before, state(pmod))
            check(not d, f"{label}: project round trip differs in {d}")
            check(synth_bytes(pmod) == data, f"{label}: project->synth bytes differ")
    try:
        Synth().read()
        check(False, "empty synth serialized")
    except EmptySynthError:
        pass
    try:
        gen = Synth().chunks()
        next(gen)
        check(False, "empty synth yielded a chunk")
    except EmptySynthError:
        pass
    buf = io.BytesIO()
    try:
        Synth(None).write_to(buf)
        check(False, "empty synth wrote")
    except EmptySynthError:
        check(buf.getvalue() == b"", "empty synth wrote partial data")
    digest = h.hexdigest()
    if digest_expected is not None:
        check(digest == digest_expected, f"serialized bytes digest changed: {digest}")
    return count, digest


def finish(count):
    if FAILURES:
        for f in FAILURES[:40]:
            print("FAIL:", f)
        print(f"{len(FAILURES)} failures")
        sys.exit(1)
    print(f"PASS ({count} module variants)")

EXPECTED_DIGEST = "eea60413fa8c31d1406687427fa4e0f4cd97d181b1aac6c42e719434ae0096c0"


# ---------------------------------------------------------------------------
# Checks specific to this refactoring: ModuleReader chunk handlers (scalar
# settings, names, links, CVAL application order), Module.load_cmid /
# load_options and the load_chunk dispatch of MultiSynth / SpectraVoice /
# MultiCtl.
# ---------------------------------------------------------------------------
import struct  # noqa: E402

from rv.lib.iff import chunks as read_iff_chunks  # noqa: E402
from rv.modules import Chunk as RawChunk  # noqa: E402
from rv.readers.module import ModuleReader  # noqa: E402


def split(data):
    return list(read_iff_chunks(io.BytesIO(data)))


def join(chunk_list):
    return b"".join(n + struct.pack("<I", len(d)) + d for n, d in chunk_list)


def edit(data, fn):
    """Rewrite a file chunk by chunk; fn returns a list of replacement chunks."""
    out = []
    for name, payload in split(data):
        out.extend(fn(name, payload))
    return join(out)


def reader_for(mod):
    r = ModuleReader(io.BytesIO(b""), 1)
    r._object = mod
    return r


class Capture(logging.Handler):
    def __init__(self):
        super().__init__(level=logging.DEBUG)
        self.lines = []

    def emit(self, record):
        self.lines.append((record.levelname, record.getMessage()))


def captured_load(data):
    logger = logging.getLogger("rv.readers.module")
    handler = Capture()
    old_level = logger.level
    logging.disable(logging.NOTSET)
    logger.addHandler(handler)
    logger.setLevel(logging.DEBUG)
    try:
        mod = load_synth(data)
    finally:
        logger.setLevel(old_level)
        logger.removeHandler(handler)
        logging.disable(logging.CRITICAL)
    return mod, handler.lines


def handler_checks(label, mod, before):
    """Every variant: poke the reader's handlers with this module's own data."""
    data = synth_bytes(mod)
    attached = [n for n, c in mod.controllers.items() if c.attached(mod)]
    if mod.mtype == "MetaModule":
        return
    # CVAL application order and logging
    loaded, lines = captured_load(data)
    sets = [msg for lvl, msg in lines if msg.startswith("Setting ")]
    expect = [f"Setting {n} from raw {before['raw'][n]}" for n in reversed(attached)]
    check(sets == expect, f"{label}: CVALs applied last to first")
    check(loaded.controllers_loaded >= set(attached), f"{label}: controllers_loaded")
    # two surplus CVALs are reported (highest first) before anything is applied
    surplus = edit(
        data,
        lambda n, d: [(n, d)]
        if n != b"CMID"
        else [(b"CVAL", struct.pack("<i", 111)), (b"CVAL", struct.pack("<i", -5)), (n, d)],
    )
    if attached:
        loaded, lines = captured_load(surplus)
        msgs = [msg for lvl, msg in lines
                if msg.startswith("Setting ") or msg.startswith("Unsupported")]
        k = len(attached)
        check(
            msgs[:2]
            == [
                f"Unsupported controller at index {k + 1} with raw value -5",
                f"Unsupported controller at index {k} with raw value 111",
            ],
            f"{label}: surplus CVAL warnings",
        )
        check(msgs[2:] == expect, f"{label}: surplus CVALs do not disturb the rest")
        check([lvl for lvl, msg in lines if msg.startswith("Unsupported")]
              == ["WARNING", "WARNING"], f"{label}: warning level")
        d = diff(before, state(loaded))
        check(not d, f"{label}: surplus CVAL load differs in {d}")
        # drop the last CVAL: that controller keeps its default
        seen = []

        def drop_last(n, d):
            if n == b"CVAL":
                seen.append(d)
                return [] if len(seen) == len(attached) else [(n, d)]
            return [(n, d)]

        loaded = load_synth(edit(data, drop_last))
        fresh = type(mod)()
        last = attached[-1]
        for n in attached[:-1]:
            if loaded.controller_values[n] != mod.controller_values[n]:
                check(False, f"{label}: {n} changed when last CVAL dropped")
                break
        from rv.controller import DependentRange as _DR

        if not isinstance(mod.controllers[last].value_type, _DR):
            check(loaded.controller_values[last] == fresh.controller_values[last],
                  f"{label}: dropped CVAL keeps default")
    # CMID: ragged tail ignored, short data only covers the first controllers
    if before["cmid"] is not None and len(attached) >= 2:
        full = b"".join(mod.controller_midi_maps[n].cmid_data for n in attached)
        for cut in (0, 5, 8, 11, len(full) - 1, len(full) + 8):
            target = type(mod)()
            target.load_cmid((full + b"\x07" * 16)[:cut])
            whole = min(cut // 8, len(attached))
            got = [target.controller_midi_maps[n].cmid_data for n in attached]
            blank = type(mod)().controller_midi_maps["x"].cmid_data
            want = [full[i * 8 : i * 8 + 8] for i in range(whole)]
            want += [blank] * (len(attached) - whole)
            check(got == want, f"{label}: load_cmid with {cut} bytes")
    # options: short / empty / long bytemaps
    if mod.options:
        chdt = list(mod.options_chunks())[1][1]
        for piece in (chdt, chdt[:1], b"", chdt + b"\xff" * 70):
            target = type(mod)()
            raw = RawChunk()
            raw.chnm = mod.options_chnm
            raw.chdt = piece
            target.load_options(raw)
            padded = piece.ljust(64, b"\0")
            for name, option in mod.options.items():
                v = (padded[option.byte] >> option.bit) & ((1 << option.size) - 1)
                got = target.option_values[name]
                if option.size == 1:
                    check(got is bool(v), f"{label}: option {name} bool from {piece!r}")
                else:
                    check(got == v and type(got) is int, f"{label}: option {name} int")


def reader_unit_checks():
    amp = m.Amplifier()
    r = reader_for(amp)
    # every chunk tag a module can contain has a callable handler
    for tag in ("SFFF SNAM STYP SFIN SREL SXXX SYYY SZZZ SSCL SVPR SCOL SMII SMIN "
                "SMIC SMIB SMIP SLNK SLnK CVAL CMID CHNK CHNM CHDT CHFF CHFR SEND").split():
        check(callable(getattr(r, f"process_{tag}", None)), f"handler for {tag}")
        check(callable(getattr(ModuleReader, f"process_{tag}", None)), f"class {tag}")
    scalars = [
        ("SFFF", "<I", "flags", [0, 0x51, 0xFFFFFFFF]),
        ("SFIN", "<i", "mod_finetune", [-(1 << 31), -256, 0, 256, (1 << 31) - 1]),
        ("SREL", "<i", "mod_relative_note", [-(1 << 31), -1, 0, 1, (1 << 31) - 1]),
        ("SXXX", "<i", "x", [-(1 << 31), -5, 0, 512, (1 << 31) - 1]),
        ("SYYY", "<i", "y", [-(1 << 31), -5, 0, 512, (1 << 31) - 1]),
        ("SZZZ", "<I", "layer", [0, 7, 0xFFFFFFFF]),
        ("SSCL", "<I", "mod_scale", [0, 256, 0xFFFFFFFF]),
        ("SMIC", "<i", "midi_out_channel", [-(1 << 31), 0, 16, (1 << 31) - 1]),
        ("SMIB", "<i", "midi_out_bank", [-(1 << 31), -1, 0, 127, (1 << 31) - 1]),
        ("SMIP", "<i", "midi_out_program", [-(1 << 31), -1, 0, 127, (1 << 31) - 1]),
    ]
    for tag, fmt, attr, values in scalars:
        handler = getattr(r, f"process_{tag}")
        for v in values:
            check(handler(struct.pack(fmt, v)) is None, f"{tag} returns None")
            got = getattr(amp, attr)
            check(got == v and type(got) is int, f"{tag} {v} -> {attr}")
        for bad in (b"", b"\0\0\0", b"\0" * 5, b"\0" * 8):
            keep = getattr(amp, attr)
            try:
                handler(bad)
                check(False, f"{tag} accepted {len(bad)} bytes")
            except struct.error:
                check(getattr(amp, attr) == keep, f"{tag} bad size leaves {attr}")
    for v in (0, 0x000C0101, 0xFFFFFFFF):
        r.process_SVPR(struct.pack("<I", v))
        check(int(amp.visualization) == v, f"SVPR {v:#x}")
        check(type(amp.visualization).__name__ == "Visualization", "SVPR type")
    r.process_SCOL(bytes([1, 2, 255]))
    check(amp.color == (1, 2, 255), "SCOL")
    for packed in (0, 1, 2, 3, 32, 33, 0xFFFFFFFE, 0xFFFFFFFF):
        r.process_SMII(struct.pack("<I", packed))
        check(amp.midi_in_always is bool(packed & 1), f"SMII always {packed}")
        check(amp.midi_in_channel == packed >> 1 and type(amp.midi_in_channel) is int,
              f"SMII channel {packed}")
    names = [
        (b"Amp\0\0\0", "Amp"),
        (b"Amp", "Amp"),
        (b"", ""),
        (b"\0", ""),
        (b"\0junk", ""),
        (b"ab\0cd\0ef", "ab"),
        ("été\0".encode("utf8").ljust(32, b"\0"), "été"),
    ]
    for raw, want in names:
        r.process_SNAM(raw)
        check(amp.name == want, f"SNAM {raw!r}")
        r.process_SMIN(raw)
        check(amp.midi_out_name == want, f"SMIN {raw!r}")
    try:
        r.process_SNAM(b"\xff\xfe")
        check(False, "bad utf8 accepted")
    except UnicodeDecodeError:
        pass
    # STYP swaps the placeholder for a real module, with or without NUL
    for raw in (b"Amplifier\0", b"Amplifier", b"Amplifier\0garbage"):
        rr = ModuleReader(io.BytesIO(b""), 1)
        from rv.modules import Module

        rr._object = Module()
        rr.process_SFFF(struct.pack("<I", 0x100))
        rr.process_SNAM(b"Named\0")
        rr.process_STYP(raw)
        check(type(rr.object) is m.Amplifier, f"STYP {raw!r}")
        check(rr.object.name == "Named" and rr.object.mtype == "Amplifier", "STYP name")
        check(rr.object.flags == 0x100 | m.Amplifier.default_flags, "STYP flags")
        check(rr._controller_keys == list(m.Amplifier.controllers), "STYP keys")
    try:
        rr = ModuleReader(io.BytesIO(b""), 1)
        rr._object = Module()
        rr.process_STYP(b"NoSuchModule\0")
        check(False, "unknown module type accepted")
    except KeyError:
        pass
    # links
    cases = [
        ([], [], []),
        ([], [3], [3]),
        ([], [3, -1, -1], [3]),
        ([], [-1, 3, -1], [-1, 3]),
        ([], [-1, -1], []),
        ([], [0, -1], [0]),
        ([7, -1], [-1], [7]),
        ([-1, -1], [-1], []),
        ([5], [2, -2, -1], [5, 2, -2]),
        ([-1], [4], [-1, 4]),
    ]
    for attr, handler_name in (("in_links", "process_SLNK"), ("in_link_slots", "process_SLnK")):
        for start, incoming, want in cases:
            mod = m.Amplifier()
            lst = getattr(mod, attr)
            lst.extend(start)
            rr = reader_for(mod)
            payload = struct.pack(f"<{len(incoming)}i", *incoming)
            getattr(rr, handler_name)(payload)
            if not incoming:
                want = start  # empty payload: nothing is touched, nor trimmed
            check(getattr(mod, attr) == want, f"{handler_name} {start}+{incoming}")
            check(getattr(mod, attr) is lst, f"{handler_name} edits in place")
            other = "in_link_slots" if attr == "in_links" else "in_links"
            check(getattr(mod, other) == [], f"{handler_name} leaves {other}")
        for bad in (b"\1", b"\1\0\0", b"\0" * 5, b"\0" * 7):
            mod = m.Amplifier()
            getattr(mod, attr).append(9)
            try:
                getattr(reader_for(mod), handler_name)(bad)
                check(False, f"{handler_name} accepted {len(bad)} bytes")
            except struct.error:
                check(getattr(mod, attr) == [9], f"{handler_name} bad size no change")
    # project level: links survive, trailing -1 trimmed, SLnK optional
    p = Project()
    a = p.new_module(m.Amplifier)
    b = p.new_module(m.Amplifier)
    c = p.new_module(m.Amplifier)
    p.connect(a, c)
    p.connect(b, c)
    p.connect(c, p.output)
    seen = []

    def pad_links(n, d):
        if n == b"SLNK":
            seen.append(d)
            if len(seen) == c.index + 1:
                check(d == struct.pack("<2i", a.index, b.index), "written SLNK")
                return [(n, struct.pack("<4i", a.index, -1, -1, -1)),
                        (b"SLnK", struct.pack("<4i", 0, 0, -1, -1))]
        return [(n, d)]

    blob = edit(p.read(), pad_links)
    p2 = read_sunvox_file(io.BytesIO(blob))
    check(p2.modules[c.index].in_links == [a.index], "project links trimmed")
    check(p2.modules[c.index].in_link_slots == [0, 0], "project link slots trimmed")
    check(p2.modules[0].in_links == [c.index], "output links")
    check(p2.modules[a.index].in_links == [], "no links")
    p3 = read_sunvox_file(io.BytesIO(p.read()))
    check(p3.modules[c.index].in_links == [a.index, b.index], "project links")
    check(p3.read() == p.read(), "project bytes stable")


def dispatch_checks():
    def raw_chunk(chnm, chdt):
        raw = RawChunk()
        raw.chnm = chnm
        raw.chdt = chdt
        return raw

    # MultiSynth
    ms = m.MultiSynth()
    ms.load_chunk(raw_chunk(0, bytes(range(128))))
    check(ms.nv_curve.values == list(range(128)), "MultiSynth chnm 0")
    ms.load_chunk(raw_chunk(2, bytes(reversed(range(256))) + b"\x09"))
    check(ms.vv_curve.values == list(reversed(range(256))) + [9], "MultiSynth chnm 2")
    ms.load_chunk(raw_chunk(3, struct.pack("<128H", *range(1000, 1128))))
    check(ms.np_curve.values == list(range(1000, 1128)), "MultiSynth chnm 3")
    ms.load_chunk(raw_chunk(1, bytes([1, 0, 2, 1, 0b11001101, 1])))
    check(ms.use_static_note_C5 is True and ms.active_curve == 2 and ms.trigger is True,
          "MultiSynth options chunk")
    check(ms.round_pitch_y is True and ms.out_port_mode == 3 and ms.out_port_mode_random,
          "MultiSynth options chunk bits")
    check(ms.nv_curve.values == list(range(128)), "options chunk leaves curves")
    keep = (list(ms.nv_curve.values), list(ms.vv_curve.values), list(ms.np_curve.values),
            dict(ms.option_values))
    for chnm in (4, 5, 99, -1, None):
        ms.load_chunk(raw_chunk(chnm, b"\x55" * 300))
    check(keep == (ms.nv_curve.values, ms.vv_curve.values, ms.np_curve.values,
                   ms.option_values), "MultiSynth unknown chunks ignored")
    names = [struct.unpack("<I", d)[0] for n, d in ms.specialized_iff_chunks() if n == b"CHNM"]
    check(names == [0, 1, 2, 3], "MultiSynth chunk order (changed pitch curve)")
    names = [struct.unpack("<I", d)[0]
             for n, d in m.MultiSynth().specialized_iff_chunks() if n == b"CHNM"]
    check(names == [0, 1, 2], "MultiSynth chunk order (default pitch curve)")

    # SpectraVoice
    sv = m.SpectraVoice()
    sv.load_chunk(raw_chunk(0, struct.pack("<16H", *range(100, 1700, 100))))
    check(sv.harmonic_freqs.values == list(range(100, 1700, 100)), "SV chnm 0 array")
    check([h.freq_hz for h in sv.harmonics] == list(range(100, 1700, 100)), "SV chnm 0 harm")
    sv.load_chunk(raw_chunk(1, bytes(range(240, 256))))
    check([h.volume for h in sv.harmonics] == list(range(240, 256)), "SV chnm 1")
    check(sv.harmonic_volumes.values == list(range(240, 256)), "SV chnm 1 array")
    sv.load_chunk(raw_chunk(2, bytes(range(16))))
    check([h.width for h in sv.harmonics] == list(range(16)), "SV chnm 2")
    sv.load_chunk(raw_chunk(3, bytes(range(3, 19))))
    check([h.type for h in sv.harmonics] == [sv.HarmonicType(i) for i in range(3, 19)],
          "SV chnm 3")
    check(all(type(v) is sv.HarmonicType for v in sv.harmonic_types.values), "SV type enum")
    check([h.freq_hz for h in sv.harmonics] == list(range(100, 1700, 100)), "SV freq kept")
    # a short chunk only updates the leading harmonics' view
    sv.load_chunk(raw_chunk(1, bytes([1, 2, 3])))
    check(sv.harmonic_volumes.values == [1, 2, 3], "SV short array")
    check([h.volume for h in sv.harmonics] == [1, 2, 3] + list(range(243, 256)), "SV short")
    sv2 = m.SpectraVoice()
    ref = payload_state(sv2)
    for chnm in (4, 5, -1, None, 100):
        sv2.load_chunk(raw_chunk(chnm, b"\x01" * 64))
    check(payload_state(sv2) == ref, "SV unknown chunks ignored")
    try:
        sv2.load_chunk(raw_chunk(3, bytes([200])))
        check(False, "bad harmonic type accepted")
    except ValueError:
        pass
    names = [struct.unpack("<I", d)[0]
             for n, d in m.SpectraVoice().specialized_iff_chunks() if n == b"CHNM"]
    check(names == [0, 1, 2, 3], "SV chunk order")
    check(list(m.SpectraVoice().specialized_iff_chunks())[-1] == (None, None), "SV no opts")

    # MultiCtl
    mc = m.MultiCtl()
    flat = list(range(1, 129))
    mc.load_chunk(raw_chunk(0, struct.pack("<128I", *flat)))
    got = [(x.min, x.max, x.controller, x.flags, x.future_use2, x.future_use3,
            x.future_use4, x.future_use5) for x in mc.mappings.values]
    check(got == [tuple(flat[i : i + 8]) for i in range(0, 128, 8)], "MultiCtl chnm 0")
    check(mc.mappings.encoded_values == flat, "MultiCtl encoded_values order")
    check(type(mc.mappings.encoded_values) is list, "MultiCtl encoded_values list")
    check(mc.mappings.bytes == struct.pack("<128I", *flat), "MultiCtl mapping bytes")
    mc.load_chunk(raw_chunk(1, struct.pack("<257H", *range(0, 257 * 255, 255))))
    check(mc.curve.values == list(range(0, 257 * 255, 255)), "MultiCtl chnm 1")
    check(mc.mappings.encoded_values == flat, "MultiCtl curve leaves mappings")
    keep = (list(mc.curve.values), list(mc.mappings.encoded_values))
    for chnm in (2, 3, -1, None):
        mc.load_chunk(raw_chunk(chnm, b"\x01" * 64))
    check(keep == (mc.curve.values, mc.mappings.encoded_values), "MultiCtl unknown ignored")
    mc.mappings.values[3].future_use4 = 1 << 32
    try:
        mc.mappings.bytes
        check(False, "uint32 overflow packed")
    except struct.error:
        pass
    del mc.mappings.values[3].future_use4
    try:
        mc.mappings.encoded_values
        check(False, "missing field tolerated")
    except AttributeError:
        pass
    names = [struct.unpack("<I", d)[0]
             for n, d in m.MultiCtl().specialized_iff_chunks() if n == b"CHNM"]
    check(names == [0, 1], "MultiCtl chunk order")
    try:
        m.MultiCtl.Mapping((1, 2, 3))
        check(False, "short mapping accepted")
    except ValueError:
        pass
    check(m.MultiCtl.Mapping(tuple(range(12))).future_use5 == 7, "long mapping truncated")


if __name__ == "__main__":
    count, digest = run_all(digest_expected=EXPECTED_DIGEST, extra=handler_checks)
    reader_unit_checks()
    dispatch_checks()
    finish(count)
