"""Behaviour check for C14 (module/pattern ownership and indexing).

Run from the repository root:
    PYTHONPATH=<root>/src/python python check.py

Focus of this script: Project.__iadd__ dispatch, attach_pattern, new_module,
module_index, Note.module_index / Note.mod / tabular_repr, Module.index /
parent / int(), Output.index, and the >> / << chaining operators of Module
and ModuleList (which rely on module indexes), plus the general attach /
gap-fill / refusal / save-load histories.
"""
import os
import random
import sys
from io import BytesIO
from struct import pack

from rv.api import NOTE, NOTECMD, Note, Pattern, PatternClone, Project, m, read_sunvox_file
from rv.errors import ModuleOwnershipError, PatternOwnershipError
from rv.modules.module import Module
from rv.modules.output import Output

CHECKS = 0


def ok(cond, msg):
    global CHECKS
    CHECKS += 1
    if not cond:
        print("FAIL:", msg)
        sys.exit(1)


def raises(exc, fn, *args, **kw):
    try:
        fn(*args, **kw)
    except exc as e:
        return e
    except BaseException as e:  # pragma: no cover
        print("FAIL: expected %s, got %r" % (exc.__name__, e))
        sys.exit(1)
    print("FAIL: expected %s, nothing raised" % exc.__name__)
    sys.exit(1)


def coherent(project):
    ok(isinstance(project.modules[0], Output), "slot 0 is the output")
    ok(project.output is project.modules[0], "project.output is slot 0")
    for i, mod in enumerate(project.modules):
        if mod is None:
            continue
        ok(mod.index == i, "index %r == position %r" % (mod.index, i))
        ok(mod.parent is project, "parent is project")
        ok(project.module_index(mod) == i, "module_index agrees")
        ok(int(mod) == i + 1, "int(module)")
    for pat in project.patterns:
        if pat is not None:
            ok(pat.project is project, "pattern owner")


def snapshot(project):
    return (
        [id(x) if x is not None else None for x in project.modules],
        [(x.index, id(x.parent)) for x in project.modules if x is not None],
        [id(x) if x is not None else None for x in project.patterns],
        id(project.output),
    )


def roundtrip(project):
    f = BytesIO(project.read())
    return read_sunvox_file(f)


def shape(project):
    result = [None if x is None else (x.mtype, x.name, x.index) for x in project.modules]
    while result and result[-1] is None:  # the reader trims trailing empty slots
        result.pop()
    return result


# ---------------------------------------------------------------- fresh project
p = Project()
ok(len(p.modules) == 1 and p.modules[0] is p.output, "fresh project has only output")
ok(p.output.index == 0 and p.output.parent is p, "output back references")
ok(p.patterns == [], "no patterns")
coherent(p)

# append at end, returns the same object
amp = m.Amplifier()
ok(amp.index is None and amp.parent is None, "detached module has no owner")
ret = p.attach_module(amp)
ok(ret is amp and amp.index == 1 and amp.parent is p, "append first module")
gen = p.new_module(m.Generator, name="g", x=3)
ok(type(gen) is m.Generator and gen.index == 2 and gen.name == "g" and gen.x == 3, "new_module")
ok(p.modules == [p.output, amp, gen], "module list")
coherent(p)

# attaching twice is a no-op
before = snapshot(p)
ok(p.attach_module(amp) is amp, "reattach returns module")
ok(p.attach_module(amp, loading=True) is amp, "reattach (loading) returns module")
ok(p.attach_module(p.output) is p.output, "reattach output")
ok(snapshot(p) == before, "reattach changes nothing")

# base Module refused
before = snapshot(p)
e = raises(RuntimeError, p.attach_module, Module())
ok(not isinstance(e, ModuleOwnershipError), "plain RuntimeError")
ok(snapshot(p) == before, "refusal leaves state")

# foreign module refused
q = Project()
qa = q.new_module(m.Echo)
before_q = snapshot(q)
raises(ModuleOwnershipError, p.attach_module, qa)
raises(ModuleOwnershipError, p.attach_module, qa, loading=True)
raises(ModuleOwnershipError, p.attach_module, q.output)
raises(ModuleOwnershipError, p.__iadd__, qa)
raises(ModuleOwnershipError, p.__iadd__, [m.Lfo(), qa])
ok(snapshot(q) == before_q, "foreign project untouched")
ok(qa.index == 1 and qa.parent is q, "foreign module untouched")
ok(len(p.modules) == 4 and p.modules[:3] == [p.output, amp, gen], "list partially applied")
ok(type(p.modules[3]) is m.Lfo and p.modules[3].index == 3, "item before refused one was attached")
coherent(p)
coherent(q)

# None appends an empty slot, regardless of loading flag
ok(p.attach_module(None) is None, "None returns None")
ok(p.modules[-1] is None and len(p.modules) == 5, "None appended")
ok(p.attach_module(None, loading=True) is None, "None returns None (loading)")
ok(p.modules[-2:] == [None, None] and len(p.modules) == 6, "second None appended")
d1 = p.new_module(m.Delay)
ok(d1.index == 4 and p.modules[4] is d1 and len(p.modules) == 6, "lowest gap filled")
d2 = m.Delay()
ok(p.attach_module(d2, loading=True) is d2, "loading attach")
ok(d2.index == 6 and p.modules[5] is None and len(p.modules) == 7, "loading appends despite gap")
d3 = p.new_module(m.Delay)
ok(d3.index == 5 and len(p.modules) == 7, "remaining gap filled")
d4 = p.new_module(m.Delay)
ok(d4.index == 7 and len(p.modules) == 8, "no gap -> end")
coherent(p)

# a module with explicit parent=self / stale index kwargs
r = Project()
pre = m.Amplifier(index=17, parent=r)
ok(pre.index == 17, "kw index kept")
ok(r.attach_module(pre) is pre and pre.index == 1 and pre.parent is r, "preparented module attached and reindexed")
coherent(r)

# a second Output is an ordinary module unless it lands in slot 0
r = Project()
o2 = Output()
r.attach_module(o2)
ok(o2.index == 1 and r.output is r.modules[0] and r.output is not o2, "second output not the output")
r2 = Project()
r2.modules[0].parent = None
r2.modules[0] = None
o3 = Output()
r2.attach_module(o3)
ok(o3.index == 0 and r2.output is o3 and r2.modules == [o3], "output placed in empty slot 0 becomes project.output")
r3 = Project()
r3.modules[0] = None
a3 = r3.new_module(m.Amplifier)
ok(a3.index == 0 and r3.output is not a3, "non-output in slot 0 does not replace project.output")

# ---------------------------------------------------------------- random histories
rng = random.Random(1414)
classes = [m.Amplifier, m.Generator, m.Echo, m.Lfo, m.Delay, m.Filter, m.Reverb]
for trial in range(30):
    proj = Project()
    other = Project()
    for step in range(rng.randrange(5, 40)):
        op = rng.randrange(8)
        before = snapshot(proj)
        if op == 0:
            proj.attach_module(None)
            ok(proj.modules[-1] is None and snapshot(proj)[0][:-1] == before[0], "None appended only")
        elif op in (1, 2, 3):
            expect = proj.modules.index(None) if None in proj.modules else len(proj.modules)
            if op == 1:
                mod = proj.new_module(rng.choice(classes))
            elif op == 2:
                mod = rng.choice(classes)()
                proj += mod
            else:
                mod = proj.attach_module(rng.choice(classes)())
            ok(mod.index == expect, "lowest gap or end")
            after = snapshot(proj)[0]
            ok(
                all(a == b for i, (a, b) in enumerate(zip(after, before[0])) if i != expect),
                "no other module moved",
            )
            ok(len(after) == max(len(before[0]), expect + 1), "length")
        elif op == 4:
            mod = rng.choice(classes)()
            proj.attach_module(mod, loading=True)
            ok(mod.index == len(before[0]) and proj.modules[-1] is mod, "loading appends")
        elif op == 5:
            foreign = other.new_module(rng.choice(classes))
            raises(ModuleOwnershipError, proj.attach_module, foreign)
            ok(snapshot(proj) == before, "refused: nothing changes")
        elif op == 6:
            present = [x for x in proj.modules if x is not None]
            proj.attach_module(rng.choice(present))
            ok(snapshot(proj) == before, "reattach no-op")
        else:
            proj = roundtrip(proj)
        coherent(proj)
        coherent(other)
    shape1 = shape(proj)
    proj2 = roundtrip(proj)
    ok(shape(proj2) == shape1, "save/load keeps positions and gaps")
    coherent(proj2)
    expect = proj2.modules.index(None) if None in proj2.modules else len(proj2.modules)
    ok(proj2.new_module(m.Amplifier).index == expect, "gap fill after load")

# loaded project with a gap (issue54)
path = os.path.join("tests", "files", "issue54", "test1.sunvox")
if os.path.exists(path):
    with open(path, "rb") as f:
        lp = read_sunvox_file(f)
    coherent(lp)
    ok(None in lp.modules, "issue54 file has a gap")
    gap = lp.modules.index(None)
    n = len(lp.modules)
    filler = lp.new_module(m.Amplifier)
    ok(filler.index == gap and len(lp.modules) == n, "gap in loaded file filled")
    coherent(lp)

# ---------------------------------------------------------------- Note.mod
np_ = Project()
na = np_.new_module(m.Amplifier)
np_.attach_module(None)
nb = np_.new_module(m.Generator, )
nc = np_.new_module(m.Echo)
ok([x if x is None else x.index for x in np_.modules] == [0, 1, 2, 3], "gap filled before notes")
np_.attach_module(None)
pat = Pattern(tracks=2, lines=4)
note = pat.data[0][0]
ok(note.module == 0 and note.module_index is None, "empty note has no module")
raises(PatternOwnershipError, lambda: note.mod)
idx = np_.attach_pattern(pat)
ok(idx == 0 and pat.project is np_ and note.project is np_, "pattern attached")
ok(note.mod is None, "module 0 -> None")
for number in range(0, 12):
    note.module = number
    ok(note.module_index == (None if number == 0 else number - 1), "module_index")
    if number == 0:
        expected = None
    elif number - 1 < len(np_.modules):
        expected = np_.modules[number - 1]
    else:
        expected = None
    ok(note.mod is expected, "note.mod resolves position %d" % number)
note.module = 0xFFFF
ok(note.mod is None and note.module_index == 0xFFFE, "max module number")
for target in (np_.output, na, nb, nc):
    note.mod = target
    ok(note.module == target.index + 1 == int(target), "mod setter")
    ok(note.mod is target, "mod getter after setter")
lonely = m.Amplifier()
note.module = 3
e = raises(ModuleOwnershipError, setattr, note, "mod", lonely)
ok(note.module == 3, "setter refusal leaves note")
other_proj = Project()
oa = other_proj.new_module(m.Amplifier)
other_proj.new_module(m.Amplifier)
ob = other_proj.new_module(m.Amplifier)
note.mod = ob  # owned by another project: only the number is taken
ok(note.module == 4 and note.mod is np_.modules[3], "setter uses the index only")
orphan = Note()
raises(AttributeError, lambda: orphan.mod)
raises(AttributeError, lambda: orphan.project)
raises(AttributeError, setattr, note, "mod", None)

# raw_data and clone keep the module reference
for number in (0, 1, 2, 255, 256, 0xFFFF):
    n1 = Note(note=NOTE.C4, vel=64, module=number, ctl=0x1234, val=0xABCD)
    raw = n1.raw_data
    ok(raw == pack("<BBHHH", int(NOTE.C4), 64, number, 0x1234, 0xABCD), "raw_data bytes")
    ok(isinstance(raw, bytes) and len(raw) == 8, "raw_data is 8 bytes")
    n2 = Note()
    n2.raw_data = raw
    ok((n2.note, n2.vel, n2.module, n2.ctl, n2.val) == (NOTECMD.C4, 64, number, 0x1234, 0xABCD), "raw_data setter")
    ok(type(n2.note) is int and type(n2.module) is int, "plain ints stored by the raw_data setter")
    n3 = n1.clone()
    ok(n3 == Note(note=NOTE.C4, vel=64, module=number, ctl=0x1234, val=0xABCD) and n3.pattern is None, "clone")
bad = Note()
raises(Exception, setattr, bad, "raw_data", b"\0" * 7)
raises(Exception, setattr, bad, "raw_data", b"\0" * 9)
n5 = Note()
n5.raw_data = bytearray(b"\x01\x02\x03\x00\x04\x00\x05\x00")
ok((n5.note, n5.vel, n5.module, n5.ctl, n5.val) == (1, 2, 3, 4, 5), "raw_data from bytearray")
n5.raw_data = memoryview(b"\x00\x00\xff\xff\x00\x00\x00\x00")
ok(n5.module == 0xFFFF, "raw_data from memoryview")

# notes survive save/load and still resolve
note.mod = nc
pat.data[1][1].mod = np_.output
loaded = roundtrip(np_)
coherent(loaded)
lpat = loaded.patterns[0]
ok(lpat.data[0][0].mod is loaded.modules[nc.index], "note resolves after load")
ok(lpat.data[1][1].mod is loaded.output, "output note resolves after load")
ok(lpat.data[2][0].mod is None, "empty note after load")
ok(loaded.modules[-1] is loaded.modules[nc.index], "trailing gap trimmed by the reader")

# ---------------------------------------------------------------- patterns
pp = Project()
pa = Pattern()
ok(pp.attach_pattern(pa) == 0 and pa.project is pp, "first pattern index 0")
ok(pp.attach_pattern(None) == 1 and pp.patterns == [pa, None], "None pattern slot")
clone = PatternClone(source=0)
ok(pp.attach_pattern(clone) == 2 and clone.project is pp, "clone attached")
before = snapshot(pp)
raises(PatternOwnershipError, pp.attach_pattern, pa)
raises(PatternOwnershipError, Project().attach_pattern, pa)
raises(PatternOwnershipError, Project().attach_pattern, clone)
ok(snapshot(pp) == before and pa.project is pp, "pattern refusal leaves state")
pp += [Pattern(), m.Amplifier(), PatternClone(source=0), [m.Lfo(), Pattern()]]
ok(len(pp.patterns) == 6 and len(pp.modules) == 3, "+= list dispatch")
same = pp
pp += "ignored"
pp += None
pp += 5
ok(pp is same and len(pp.patterns) == 6 and len(pp.modules) == 3, "+= ignores other types")
coherent(pp)
coherent(roundtrip(pp))

# ---------------------------------------------------------------- names, constants
import rv.project as project_mod
import rv.note as note_mod
import rv.modules.module as module_mod
import rv.modules.output as output_mod

for name in ("Project", "PatternLine", "M", "Module", "DisconnectingModule", "Output", "Pattern", "PatternClone"):
    ok(hasattr(project_mod, name), "rv.project.%s importable" % name)
for name in ("Note", "NOTE", "NOTECMD", "ALL_NOTES", "Module", "ModuleOwnershipError", "PatternOwnershipError"):
    ok(hasattr(note_mod, name), "rv.note.%s importable" % name)
for name in ("Module", "ModuleList", "DisconnectingModule", "Chunk", "Behavior"):
    ok(hasattr(module_mod, name), "rv.modules.module.%s importable" % name)
ok(Output.index == 0 and type(Output.index) is int, "Output.index class attribute is 0")
ok(Output().index is None, "detached Output instance has no index")
ok(not hasattr(Module, "index"), "Module class itself defines no index value")
ok(output_mod.Output is Output and m.Output is Output, "Output re-exported")
ok(isinstance(Project.module_index, type(Project.new_module)), "module_index is a plain method")

# ---------------------------------------------------------------- int(), repr, hash
ip = Project()
ia = ip.new_module(m.Amplifier)
ib = ip.new_module(m.Generator, name="gen")
ok(int(ip.output) == 1 and int(ia) == 2 and int(ib) == 3, "int(module) is index + 1")
ok(type(int(ia)) is int, "int type")
raises(TypeError, int, m.Amplifier())
ok(repr(ia) == "<Amplifier index=1>" and repr(ib) == "<Generator index=2 name=gen>", "repr")
ok(repr(m.Amplifier()) == "<Amplifier>", "repr detached")
ok(hash(ia) == hash((id(ip), 1)), "hash")

# ---------------------------------------------------------------- tabular_repr / module_index
for number, text in ((0, "    "), (1, "0000"), (2, "0001"), (256, "00FF"), (0xFFFF, "FFFE")):
    nt = Note(module=number)
    ok(nt.tabular_repr(note_fmt="MMMM") == text, "tabular module column %r" % number)
    ok(nt.module_index == (None if number == 0 else number - 1), "module_index %r" % number)
ok(Note(note=NOTE.C4, vel=129, module=3, ctl=0x0102, val=0x0304).tabular_repr()
   == "C4 80 0002 01 02 0304", "full tabular repr")
ok(Note().tabular_repr() == ".." + " " * 19, "empty tabular repr")
ok(isinstance(Note.module_index, property) and isinstance(Note.mod, property)
   and isinstance(Note.project, property), "properties stay properties")
ok(Note.mod.fset is not None and Note.module_index.fset is None, "only mod has a setter")

# ---------------------------------------------------------------- >> and << chaining
from rv.modules.module import DisconnectingModule, ModuleList

cp = Project()
g1 = cp.new_module(m.Generator)
g2 = cp.new_module(m.Generator)
fx = cp.new_module(m.Echo)
amp2 = cp.new_module(m.Amplifier)
res = g1 >> fx
ok(res is fx, ">> returns right operand")
res = [g1, g2] if False else (g2 >> fx >> amp2 >> cp.output)
ok(res is cp.output, "chain returns last operand")
ok(fx.in_links == [g1.index, g2.index] and fx.in_link_slots == [0, 0], "in links")
ok(g1.out_links == [fx.index] and g2.out_links == [fx.index], "out links")
ok(amp2.in_links == [fx.index] and cp.output.in_links == [amp2.index], "chain links")
lst = [g1, g2]
res = amp2 << lst
ok(type(res) is ModuleList and list(res) == lst and res.parent is cp and res is not lst, "<< wraps list")
ok(amp2.in_links == [fx.index, g1.index, g2.index], "<< list connects all")
res2 = res >> cp.output
ok(res2 is cp.output and cp.output.in_links == [amp2.index, g1.index, g2.index], "ModuleList >>")
extra_fx = cp.new_module(m.Reverb)
res3 = res << [extra_fx]
ok(type(res3) is ModuleList and list(res3) == [extra_fx] and res3.parent is cp, "ModuleList << list")
ok(g1.in_links == [extra_fx.index] and g2.in_links == [extra_fx.index], "ModuleList << links")
res4 = res >> [extra_fx]
ok(type(res4) is ModuleList and extra_fx.in_links == [g1.index, g2.index], "ModuleList >> list")
res5 = g1 >> [amp2]
ok(type(res5) is ModuleList and list(res5) == [amp2], ">> list (already connected)")
ok(amp2.in_links == [fx.index, g1.index, g2.index], "already connected is a no-op")
dis = ~g1
ok(type(dis) is DisconnectingModule and ~dis is g1 and dis.index == g1.index, "invert")
res6 = g1 >> ~amp2
ok(type(res6) is DisconnectingModule and amp2.in_links == [fx.index, -1, g2.index], "disconnect")
ok(g1.out_links[1] == -1, "disconnect out link")
stranger = Project().new_module(m.Amplifier)
before = (list(g1.out_links), list(stranger.in_links))
raises(ModuleOwnershipError, lambda: g1 >> stranger)
raises(ModuleOwnershipError, lambda: g1 << stranger)
raises(ModuleOwnershipError, lambda: ModuleList(cp, [g1]) >> stranger)
ok((list(g1.out_links), list(stranger.in_links)) == before, "refused connection leaves links")
raises(AttributeError, lambda: m.Amplifier() >> g1)
raises(AttributeError, lambda: m.Amplifier() << g1)
coherent(cp)
rc = roundtrip(cp)
coherent(rc)
ok([None if x is None else x.in_links for x in rc.modules]
   == [None if x is None else x.in_links for x in cp.modules], "links survive save/load")

# ---------------------------------------------------------------- += dispatch details
dp = Project()
same = dp
dp += []
dp += [[], [[]]]
ok(dp is same and len(dp.modules) == 1 and dp.patterns == [], "empty lists")
x1, x2, x3 = m.Amplifier(), m.Echo(), m.Lfo()
pt1, pt2 = Pattern(), Pattern()
dp += [x1, [pt1, [x2, PatternClone(source=0)], pt2], x3]
ok([x.index for x in dp.modules] == [0, 1, 2, 3] and dp.modules[1:] == [x1, x2, x3], "depth first order")
ok(dp.patterns[0] is pt1 and type(dp.patterns[1]) is PatternClone and dp.patterns[2] is pt2, "pattern order")
dp += (m.Delay(),)  # tuples are not lists
dp += {"a": m.Delay()}
dp += iter([m.Delay()])
ok(len(dp.modules) == 4, "only real lists are expanded")
dp += ModuleList(dp, [m.Delay()])
ok(len(dp.modules) == 5 and type(dp.modules[4]) is m.Delay, "list subclasses are expanded")
dp += ~x1  # a DisconnectingModule is neither Module nor Pattern
ok(len(dp.modules) == 5, "DisconnectingModule ignored by +=")
ok(dp.__iadd__(m.Delay()) is dp and len(dp.modules) == 6, "__iadd__ returns the project")
foreign_pat = Pattern()
Project().attach_pattern(foreign_pat)
snap = snapshot(dp)
raises(PatternOwnershipError, dp.__iadd__, [foreign_pat, m.Delay()])
ok(snapshot(dp) == snap, "refused pattern stops the += before later items")
ok(dp.attach_pattern(None) == 3 and dp.attach_pattern(Pattern()) == 4, "attach_pattern returns positions")
ok(type(dp.attach_pattern(None)) is int, "attach_pattern returns int")
coherent(dp)

print("PASS (%d checks)" % CHECKS)
