"""check.py for C05-3: the writing side (Project.chunks, Synth.chunks, CVAL/CMID block, option bytes).

Checks the exact chunk layout of hand-built projects and synths, every project header
field, link/slot tables (including malformed ones), Module.options_chunks/load_options
on all option-bearing module types, and runs the C05 property (re-saving is stable,
saving is pure) over fixtures with mutated CVAL, option, SLNK and SLnK bytes.  Bytes,
errors and log records are folded into a digest recorded on the unpatched tree.
"""
# ---------------------------------------------------------------------------
# shared harness (copied verbatim into every check.py; standalone on purpose)
# ---------------------------------------------------------------------------
import hashlib
import io
import logging
import struct
import sys
from enum import Enum
from pathlib import Path

import rv
from rv.api import Project, Synth, m, read_sunvox_file
from rv.lib.iff import chunks as iff_chunks

ROOT = Path(rv.__file__).resolve().parents[3]
FILES = ROOT / "tests" / "files"
FAILURES = []


def check(cond, label):
    if not cond:
        FAILURES.append(label)
        print("FAIL:", label)


class _Capture(logging.Handler):
    """Collects (logger, level, message) of everything the library logs."""

    def __init__(self):
        super().__init__(level=logging.INFO)
        self.records = []

    def emit(self, record):
        self.records.append((record.name, record.levelname, record.getMessage()))


CAPTURE = _Capture()
_rvlog = logging.getLogger("rv")
_rvlog.addHandler(CAPTURE)
_rvlog.setLevel(logging.INFO)
_rvlog.propagate = False


def snap(o, path=()):
    """Structural snapshot of an object graph (cycle safe, order preserving)."""
    if isinstance(o, Enum):
        return repr(o)
    if o is None or isinstance(o, (bool, int, float, str, bytes, bytearray)):
        return repr(o)
    if id(o) in path:
        return "<cycle>"
    path = path + (id(o),)
    if isinstance(o, dict):
        return ("dict", tuple((snap(k, path), snap(v, path)) for k, v in o.items()))
    if isinstance(o, (list, tuple)):
        return (type(o).__name__, tuple(snap(x, path) for x in o))
    if isinstance(o, (set, frozenset)):
        return ("set", tuple(sorted(repr(snap(x, path)) for x in o)))
    state = {}
    for klass in type(o).__mro__:
        for s in getattr(klass, "__slots__", ()):
            if hasattr(o, s):
                state[s] = getattr(o, s)
    state.update(getattr(o, "__dict__", {}))
    if not state:
        return repr(o) if type(o).__repr__ is not object.__repr__ else type(o).__name__
    return (type(o).__name__, snap(state, path))


def parse(blob):
    return [(n, d) for n, d in iff_chunks(io.BytesIO(blob))]


def build(chunk_list):
    out = io.BytesIO()
    for n, d in chunk_list:
        out.write(n)
        out.write(struct.pack("<I", len(d)))
        out.write(d)
    return out.getvalue()


def save(obj):
    f = io.BytesIO()
    obj.write_to(f)
    return f.getvalue()


def cycle(blob, n=3):
    """Load/save `blob` n times.  Returns ("ok", [Y1..Yn]) or ("err", type, msg)."""
    outs = []
    cur = blob
    try:
        for _ in range(n):
            obj = read_sunvox_file(io.BytesIO(cur))
            before = snap(obj)
            first = save(obj)
            mid = snap(obj)
            second = save(obj)
            after = snap(obj)
            check(first == second, "saving twice gives identical bytes")
            check(mid == after, "second save leaves the object unchanged")
            outs.append((first, before == mid))
            cur = first
    except Exception as e:  # error behaviour is part of what we pin down
        return ("err", type(e).__name__, str(e), len(outs))
    return ("ok", outs)


class Digest:
    def __init__(self):
        self.h = hashlib.sha256()
        self.n = 0

    def add(self, *parts):
        for p in parts:
            if not isinstance(p, bytes):
                p = repr(p).encode("utf8")
            self.h.update(struct.pack("<I", len(p)))
            self.h.update(p)
        self.n += 1

    def hexdigest(self):
        return self.h.hexdigest()


def fixtures():
    return sorted(
        p for p in FILES.rglob("*") if p.suffix in (".sunvox", ".sunsynth") and p.is_file()
    )


def run_case(digest, label, blob, n=3, stable_from=1):
    """Cycle a blob, assert the C05 property, and fold everything into digest."""
    CAPTURE.records.clear()
    res = cycle(blob, n)
    logs = list(CAPTURE.records)
    if res[0] == "ok":
        outs = res[1]
        ys = [y for y, _ in outs]
        for k in range(stable_from, len(ys)):
            check(ys[k] == ys[stable_from - 1], f"{label}: cycle {k + 1} drifted")
        digest.add(label, "ok", *ys)
        digest.add([pure for _, pure in outs])
    else:
        digest.add(label, *res)
    digest.add(logs)
    return res


def mutate_chunks(blob, tag, fn):
    """Apply fn(index, data) -> data to every chunk named `tag` (flat level)."""
    out = []
    i = 0
    for name, data in parse(blob):
        if name == tag:
            data = fn(i, data)
            i += 1
        out.append((name, data))
    return build(out), i


def single_chunk_cases(blob, tag, payloads, cap=40):
    """Yield (label, blob') with exactly one `tag` chunk replaced at a time."""
    count = sum(1 for n, _ in parse(blob) if n == tag)
    for j in range(min(count, cap)):
        for pi, payload in enumerate(payloads):
            mutated, _ = mutate_chunks(
                blob, tag, lambda i, data: payload if i == j else data
            )
            yield f"{tag.decode()}[{j}]#{pi}", mutated


SINGLE_CVALS = [300, -5, 40000, 2**31 - 1, -(2**31), 129]
CVAL_VALUES = [300, -5, 40000, 2**31 - 1, -(2**31), 0, 1, 255, 256, 32768, 65535, -1, 128, 129]
# ---------------------------------------------------------------------------
# ---------------------------------------------------------------------------
# C05-3: the writing side -- Project.chunks, Synth.chunks, the CVAL/CMID block,
#        Module.options_chunks / load_options
# ---------------------------------------------------------------------------
from rv.errors import EmptySynthError
from rv.modules import MODULE_CLASSES, Chunk
from rv.note import NOTE
from rv.pattern import Pattern

EXPECTED = "f40326b45e5906df7353cfc67422696ec833266a3ee8b1922341cf36c7a16b3f"
STATS = {}


def i32(*values):
    return struct.pack("<%di" % len(values), *values)


def tags(obj):
    return [None if name is None else name.decode("latin1") for name, _ in obj.chunks()]


def attempt(fn):
    try:
        return ("ok", fn())
    except Exception as e:
        return (type(e).__name__, str(e))


def tally(res):
    STATS[res[0]] = STATS.get(res[0], 0) + 1
    return res


HEADER_TAGS = ["SVOX", "VERS", "BVER", "FLGS", "SFGS", "BPM ", "SPED", "TGRD", "TGD2", "GVOL", "NAME",
               "MSCL", "MZOO", "MXOF", "MYOF", "LMSK", "CURL", "SELS", "LGEN", "PATN", "PATT", "PATL"]
OUTPUT_TAGS = ["SFFF", "SNAM", "SFIN", "SREL", "SXXX", "SYYY", "SZZZ", "SSCL", "SVPR", "SCOL", "SMII",
               "SMIC", "SMIB", "SMIP", "SLNK", "SEND"]


def unit_project_header(d):
    p = Project()
    check(tags(p) == HEADER_TAGS + OUTPUT_TAGS, f"empty project layout {tags(p)}")
    chunks = dict(p.chunks())
    check(chunks[b"SVOX"] == b"" and chunks[b"VERS"] == bytes([1, 2, 1, 2]), "magic and version")
    check(chunks[b"BVER"] == bytes([1, 2, 1, 2]), "based-on version")
    check(chunks[b"BPM "] == struct.pack("<I", 125) and chunks[b"SPED"] == struct.pack("<I", 6), "tempo")
    check(chunks[b"NAME"] == b"Project\0" and chunks[b"LGEN"] == i32(-1), "name / generator")
    check(chunks[b"SFGS"] == struct.pack("<I", 1 | (1 << 3)), "sync flags")
    check(chunks[b"SLNK"] == b"", "unlinked module writes an empty SLNK")
    d.add(save(p))
    p.timeline_position = 5
    check(tags(p)[17:19] == ["TIME", "SELS"], "TIME only when non-zero")
    p.restart_position = -3
    check(tags(p)[17:20] == ["TIME", "REPS", "SELS"], "REPS only when non-zero")
    p.timeline_position = 0
    check(tags(p)[17:19] == ["REPS", "SELS"], "TIME dropped again")
    check(dict(p.chunks())[b"REPS"] == i32(-3), "REPS value")
    d.add(save(p))
    fields = {
        "flags": "I", "initial_bpm": "I", "initial_tpl": "I", "time_grid": "I", "time_grid2": "I",
        "global_volume": "I", "modules_scale": "I", "modules_zoom": "I", "modules_x_offset": "i",
        "modules_y_offset": "i", "modules_layer_mask": "I", "modules_current_layer": "I",
        "timeline_position": "i", "restart_position": "i", "selected_module": "I",
        "selected_generator": "i", "current_pattern": "I", "current_track": "I", "current_line": "I",
    }
    values = [0, 1, 7, 255, 2**31 - 1, 2**31, 2**32 - 1, 2**32, -1, -(2**31), -(2**31) - 1, 1.5, None, True]
    for attr, code in fields.items():
        for v in values:
            p = Project()
            setattr(p, attr, v)
            res = attempt(lambda: save(p))
            d.add(attr, repr(v), res)
            if res[0] == "ok":
                back = read_sunvox_file(io.BytesIO(res[1]))
                want = v
                if attr in ("timeline_position", "restart_position") and v == 0:
                    want = 0
                check(getattr(back, attr) == want, f"{attr}={v!r} read back {getattr(back, attr)!r}")
                check(save(back) == res[1], f"{attr}={v!r} re-saves identically")
            else:
                check(res[0] in ("error", "TypeError"), f"{attr}={v!r}: {res}")
    for midi in range(8):
        for other in (0, 1, 5, 7):
            p = Project()
            p.receive_sync_midi, p.receive_sync_other = midi, other
            back = read_sunvox_file(io.BytesIO(save(p)))
            check((back.receive_sync_midi, back.receive_sync_other) == (midi, other), "sync flags round trip")
    for ver in ((2, 1, 2, 1), (1, 9, 5, 0), (0, 0, 0, 255), (1, 2, 3), (1, 2, 3, 4, 5), (256, 0, 0, 0), [2, 0, 0, 1]):
        p = Project()
        p.sunvox_version = ver
        p.based_on_version = ver
        d.add("version", repr(ver), attempt(lambda: save(p)))
    for name in ("", "x", "café", "n" * 300, "nul\0inside"):
        p = Project()
        p.name = name
        blob = save(p)
        back = read_sunvox_file(io.BytesIO(blob))
        check(back.name == name.split("\0")[0], f"project name {name!r}")
        d.add("name", blob)


def unit_project_links(d):
    def build():
        p = Project()
        gen = p.new_module(m.Generator)
        amp = p.new_module(m.Amplifier)
        flt = p.new_module(m.Filter)
        rev = p.new_module(m.Reverb)
        return p, gen, amp, flt, rev

    def link_chunks(p):
        out = []
        for name, data in p.chunks():
            if name in (b"SLNK", b"SLnK"):
                out.append((name.decode(), struct.unpack("<%di" % (len(data) // 4), data)))
        return out

    p, gen, amp, flt, rev = build()
    gen >> amp >> p.output
    check(link_chunks(p) == [("SLNK", (2,)), ("SLNK", ()), ("SLNK", (1,)), ("SLNK", ()), ("SLNK", ())],
          f"simple chain: {link_chunks(p)}")
    tally(run_case(d, "chain", save(p)))
    p, gen, amp, flt, rev = build()
    gen >> [amp, flt, rev] >> p.output
    lc = link_chunks(p)
    check(
        lc == [("SLNK", (2, 3, 4)), ("SLNK", ()), ("SLNK", (1,)), ("SLNK", (1,)), ("SLnK", (1,)),
               ("SLNK", (1,)), ("SLnK", (2,))],
        f"fan: all-zero slot tables are elided, others are written: {lc}",
    )
    d.add("fan", repr(lc), [(x.in_links, x.in_link_slots, x.out_links, x.out_link_slots) for x in p.modules])
    tally(run_case(d, "fan", save(p)))
    # breaking a connection leaves -1 entries behind
    gen >> ~amp
    amp >> ~p.output
    lc = link_chunks(p)
    d.add("fan-broken", repr(lc))
    check(
        lc == [("SLNK", (-1, 3, 4)), ("SLNK", ()), ("SLNK", (-1,)), ("SLNK", (1,)), ("SLnK", (1,)),
               ("SLNK", (1,)), ("SLnK", (2,))],
        f"disconnected links are written as -1: {lc}",
    )
    tally(run_case(d, "fan-broken", save(p)))
    # slot tables: only 0 / -1 -> no SLnK; anything else -> SLnK
    for slots, expect in (([0, 0], False), ([-1, 0], False), ([0, -1], False), ([-1, -1], False),
                          ([0, 1], True), ([2, 0], True), ([-2, 0], True), ([True, 0], True), ([False, 0], False)):
        p, gen, amp, flt, rev = build()
        p.output.in_links[:] = [1, 2]
        p.output.in_link_slots[:] = slots
        names = [n for n, _ in link_chunks(p)][:2]
        check((names == ["SLNK", "SLnK"]) is expect, f"slots {slots}: {names}")
        d.add("slots", slots, repr(link_chunks(p)), save(p))
    # malformed tables fail before anything of the module's links is written
    for links, slots in (([1, 2], [0]), ([1], [0, 0]), ([1, 2], []), ([2**31], [0]), ([1], [2**31]),
                         ([1.5], [0]), ([None], [0]), (["1"], [0])):
        p, gen, amp, flt, rev = build()
        p.output.in_links[:] = links
        p.output.in_link_slots[:] = slots
        seen = []
        try:
            for name, data in p.chunks():
                seen.append(name)
            res = ("ok",)
        except Exception as e:
            res = (type(e).__name__, str(e))
        check(res[0] == "error", f"bad link table {links}/{slots}: {res}")
        check(seen[-1] == b"SMIP" and b"SLNK" not in seen, f"nothing of the link block was emitted: {seen[-3:]}")
        d.add("bad-links", repr(links), repr(slots), res, len(seen))
    # empty module slots
    p, gen, amp, flt, rev = build()
    p.modules[2] = None
    p.modules.append(None)
    t = tags(p)
    check(t.count("SEND") == 6 and t[-2:] == ["SEND", "SEND"], "empty slots are written as bare SEND")
    d.add("holes", save(p))
    # patterns
    p, gen, amp, flt, rev = build()
    pat = Pattern(tracks=2, lines=4)
    pat.data[0][0].note = NOTE.C4
    pat.data[0][0].module = 2
    p.attach_pattern(pat)
    p.attach_pattern(None)
    t = tags(p)
    check(t.count("PEND") == 2, "one PEND per pattern slot")
    tally(run_case(d, "patterns", save(p)))


def unit_synth(d):
    try:
        list(Synth().chunks())
        check(False, "empty synth")
    except EmptySynthError as e:
        check(e.args == ("Cannot serialize a synth with no module",), repr(e.args))
    try:
        save(Synth(rv.modules.Module()))
        check(False, "base module")
    except RuntimeError as e:
        check(e.args == ("Cannot serialize base Module instance.",), repr(e.args))
    for mtype in sorted(MODULE_CLASSES):
        cls = MODULE_CLASSES[mtype]
        res = attempt(lambda: (tags(Synth(cls())), save(Synth(cls()))))
        d.add("synth", mtype, res)
        if res[0] != "ok":
            continue
        t, blob = res[1]
        mod = cls()
        attached = [n for n, c in mod.controllers.items() if c.attached(mod)]
        if mtype == "MetaModule":
            attached = attached[:5]
        check(t.count("CVAL") == len(attached), f"{mtype}: one CVAL per attached controller")
        check(t.count("CMID") == (1 if attached else 0), f"{mtype}: CMID iff there are controllers")
        if attached:
            i = t.index("CMID")
            check(t[i - len(attached): i] == ["CVAL"] * len(attached), f"{mtype}: CMID directly after the CVALs")
            cmid = [data for name, data in Synth(cls()).chunks() if name == b"CMID"][0]
            check(len(cmid) == 8 * len(attached), f"{mtype}: 8 CMID bytes per controller")
        check(t[0] == "SSYN" and t[1] == "VERS" and t[-1] == "SEND", f"{mtype}: frame")
        check("SXXX" not in t and "SVPR" not in t and "SLNK" not in t, f"{mtype}: no project-only chunks")
        check(("CHNK" in t) is bool(mod.chnk), f"{mtype}: CHNK iff the module has chunks")
        tally(run_case(d, f"synth/{mtype}", blob))
        # the same module inside a project
        p = Project()
        pm = p.new_module(cls)
        pm >> p.output
        tally(run_case(d, f"project/{mtype}", save(p)))
    # metamodule: the CVAL block follows user_defined_controllers
    for count in (0, 1, 3, 27, 96):
        mm = m.MetaModule()
        mm.user_defined_controllers = count
        t = tags(Synth(mm))
        check(t.count("CVAL") == 5 + count, f"metamodule with {count} user controllers: {t.count('CVAL')}")
        tally(run_case(d, f"metamodule/{count}", save(Synth(mm))))
    # midi maps are written in controller order
    amp = m.Amplifier()
    amp.controller_midi_maps["balance"].channel = 3
    amp.controller_midi_maps["gain"].message_parameter = 513
    cmid = [data for name, data in Synth(amp).chunks() if name == b"CMID"][0]
    check(cmid[8 + 1] == 3 and cmid[8 * 7 + 4: 8 * 7 + 6] == b"\x01\x02", "CMID order")
    d.add(cmid)


def option_classes():
    return [cls for _, cls in sorted(MODULE_CLASSES.items()) if cls.options]


def unit_options(d):
    patterns = [b"", b"\x00", b"\xff", b"\x01\x00\x01", b"\xaa" * 8, b"\x55" * 8, b"\xff" * 64, b"\x00" * 64,
                b"\xff" * 70, bytes(range(64)), bytes(range(255, 191, -1)), b"\x0f\xf0\x3c\xc3\x81\x7e"]
    for cls in option_classes():
        mod = cls()
        base = list(mod.options_chunks())
        check([n for n, _ in base] == [b"CHNM", b"CHDT"], "options are one CHNM/CHDT pair")
        check(base[0][1] == struct.pack("<I", cls.options_chnm), "options chunk number")
        used = max(o.byte for o in cls.options.values()) + 1
        check(len(base[1][1]) == used, f"{cls.__name__}: CHDT covers bytes 0..{used - 1}")
        d.add(cls.__name__, "defaults", base, snap(mod.option_values))
        for chdt in patterns:
            mod = cls()
            chunk = Chunk()
            chunk.chnm, chunk.chdt = cls.options_chnm, chdt
            ret = mod.load_options(chunk)
            check(ret is None and chunk.chdt is chdt, "load_options only reads the chunk")
            padded = chdt + b"\0" * (64 - len(chdt))
            for o in cls.options.values():
                want = (padded[o.byte] >> o.bit) & (2**o.size - 1)
                got = mod.option_values[o.name]
                check(got == want and type(got) is (bool if o.size == 1 else int), f"{cls.__name__}.{o.name}")
            out = list(mod.options_chunks())
            d.add(cls.__name__, chdt, snap(mod.option_values), out)
            # load(save(load(x))) == load(x): the option bytes do not drift
            again = cls()
            c2 = Chunk()
            c2.chnm, c2.chdt = out[0][1], out[1][1]
            again.load_options(c2)
            check(again.option_values == mod.option_values, f"{cls.__name__}: options survive a rewrite")
            check(list(again.options_chunks()) == out, f"{cls.__name__}: option bytes are stable")
            before = snap(mod.option_values)
            list(mod.options_chunks())
            check(snap(mod.option_values) == before, "options_chunks is pure")
        # setting through the descriptors
        mod = cls()
        for k, o in enumerate(cls.options.values()):
            for v in (True, False, 0, 1, 2, 3, 7, 200):
                res = attempt(lambda: setattr(mod, o.name, v))
                d.add(cls.__name__, o.name, repr(v), res[0], snap(mod.option_values), attempt(lambda: list(mod.options_chunks())))
        # odd stored values are masked to the option's width, not rejected
        mod = cls()
        first = next(iter(cls.options.values()))
        for v in (255, 256, -1, 2**40 + 1):
            mod.option_values[first.name] = v
            d.add(cls.__name__, "raw", v, attempt(lambda: list(mod.options_chunks())))
        for v in (None, "x", 1.5):
            mod.option_values[first.name] = v
            res = attempt(lambda: list(mod.options_chunks()))
            check(res[0] == "TypeError", f"non-integer option value {v!r}: {res}")
            d.add(cls.__name__, "bad", repr(v), res)
        mod = cls()
        del mod.option_values[first.name]
        res = attempt(lambda: list(mod.options_chunks()))
        check(res[0] == "TypeError", f"missing option value: {res}")
        d.add(cls.__name__, "missing", res)
        chunk = Chunk()
        res = attempt(lambda: cls().load_options(chunk))
        check(res[0] == "TypeError", f"CHNM without CHDT: {res}")
        d.add(cls.__name__, "no-chdt", res)
    amp = m.Amplifier()
    check(list(amp.specialized_iff_chunks()) == [(None, None)], "module without options")
    check(list(amp.options_chunks()) == [(b"CHNM", b"\0\0\0\0"), (b"CHDT", b"")], "no options, no bytes")


def mutate_option_bytes(blob, fn):
    """Rewrite the CHDT that follows the options CHNM of each module."""
    out = []
    options_chnm = None
    armed = False
    count = 0
    for name, data in parse(blob):
        if name == b"STYP":
            cls = MODULE_CLASSES.get(data.split(b"\0")[0].decode())
            options_chnm = cls.options_chnm if cls is not None and cls.options else None
        elif name == b"CHNM":
            armed = options_chnm is not None and struct.unpack("<I", data)[0] == options_chnm
        elif name == b"CHDT" and armed:
            data = fn(count, data)
            count += 1
            armed = False
        elif name == b"SEND":
            options_chnm = None
        out.append((name, data))
    return build(out), count


def files(d):
    k = len(CVAL_VALUES)
    option_patterns = [
        lambda i, data: b"\xff" * len(data),
        lambda i, data: b"\x00" * len(data),
        lambda i, data: bytes(b ^ 0xFF for b in data),
        lambda i, data: bytes((b + 1 + i) % 256 for b in data),
        lambda i, data: data[:1],
        lambda i, data: b"",
        lambda i, data: data + b"\xff" * (70 - len(data)),
        lambda i, data: bytes((37 * j + 11) % 256 for j in range(64)),
    ]
    with_options = 0
    for p in fixtures():
        blob = p.read_bytes()
        run_case(d, p.name, blob)
        obj = read_sunvox_file(io.BytesIO(blob))
        d.add(p.name, "tags", tags(obj))
        names = [n for n, _ in parse(blob)]
        if b"CVAL" in names:
            for shift in (0, 3, 8):
                mutated, _ = mutate_chunks(blob, b"CVAL", lambda i, data: i32(CVAL_VALUES[(i + shift) % k]))
                tally(run_case(d, f"{p.name}/cvals{shift}", mutated))
            cap = 10 if len(blob) < 20000 else 3
            payloads = [i32(v) for v in (300, -5, 2**31 - 1)]
            for label, mutated in single_chunk_cases(blob, b"CVAL", payloads, cap):
                tally(run_case(d, f"{p.name}/{label}", mutated))
        _, n = mutate_option_bytes(blob, lambda i, data: data)
        if n:
            with_options += 1
            for oi, fn in enumerate(option_patterns):
                mutated, _ = mutate_option_bytes(blob, fn)
                tally(run_case(d, f"{p.name}/options{oi}", mutated))
        if p.suffix == ".sunvox" and b"SLNK" in names:
            for li, payload in enumerate((i32(-1, -1), i32(1, -1, 1), i32(1, 1))):
                for label, mutated in single_chunk_cases(blob, b"SLNK", [payload], 6):
                    tally(run_case(d, f"{p.name}/{label}.{li}", mutated))
            for j in range(min(names.count(b"SLNK"), 6)):
                for si, slots in enumerate((i32(1), i32(0, 2), i32(-1), i32(3, 3, 3, 3))):
                    out = []
                    seen = 0
                    for name, data in parse(blob):
                        out.append((name, data))
                        if name == b"SLNK":
                            if seen == j:
                                out.append((b"SLnK", slots))
                            seen += 1
                    tally(run_case(d, f"{p.name}/SLnK[{j}]#{si}", build(out), stable_from=2))
    check(with_options >= 8, f"fixtures with option bytes: {with_options}")


def main():
    d = Digest()
    unit_project_header(d)
    unit_project_links(d)
    unit_synth(d)
    unit_options(d)
    files(d)
    got = d.hexdigest()
    check(STATS.get("ok", 0) > 800, f"too few loadable mutants: {STATS}")
    if "EXPECTED" in EXPECTED:
        print("digest", got, "cases", d.n, STATS)
    else:
        check(got == EXPECTED, f"behaviour digest changed: {got}")
    if FAILURES:
        print(f"{len(FAILURES)} check(s) failed")
        sys.exit(1)
    print("PASS")


main()
