"""Behaviour check for the Sampler *load* path (C06, refactoring 2).

Run from the repository root:
    PYTHONPATH=<root>/src/python python check.py

Exercises Sampler.load_chunk / load_instrument (legacy detection) /
load_sample_meta / load_sample_data / finalize_load / _upgrade_envelopes and
Sampler.Envelope.load_chdt, through load -> edit -> save -> load cycles and
through direct calls with hand-built chunks, and compares the resulting state
and bytes against digests recorded on the unchanged tree.
Set CHECK_DUMP=1 to print the digests instead of comparing them.
"""

import hashlib
import logging
import os
import struct
import sys
from io import BytesIO
from struct import pack

from rv.api import Project, Synth, read_sunvox_file
from rv.lib.iff import chunks as iff_chunks
from rv.lib.iff import write_chunk
from rv.modules.metamodule import MetaModule
from rv.modules.module import Chunk
from rv.modules.sampler import Sampler

logging.disable(logging.CRITICAL)

FIXTURE = os.path.join("tests", "files", "sampler.sunsynth")
FAILURES = []
DIGESTS = {}


def check(cond, label):
    if not cond:
        FAILURES.append(label)
        print("FAIL:", label)


# --------------------------------------------------------------------------
# raw IFF helpers


def iff_list(raw):
    return list(iff_chunks(BytesIO(raw)))


def iff_bytes(items):
    f = BytesIO()
    for name, data in items:
        write_chunk(f, name, data)
    return f.getvalue()


def load(raw):
    return read_sunvox_file(BytesIO(raw))


def digest(label, data):
    if not isinstance(data, (bytes, bytearray)):
        data = repr(data).encode("utf8")
    DIGESTS[label] = hashlib.sha256(data).hexdigest()[:20]


def stream(gen):
    """Serialize a (name, data) chunk generator the way Container.write_to does."""
    f = BytesIO()
    for name, data in gen:
        write_chunk(f, name, data)
    return f.getvalue()


def map_module_chunks(raw, fn):
    """Apply fn(chnm, chdt) -> chdt | None (drop) to every CHNM/CHDT group."""
    out = []
    items = iff_list(raw)
    i = 0
    while i < len(items):
        name, data = items[i]
        if name == b"CHNM":
            (chnm,) = struct.unpack("<I", data)
            group = [items[i]]
            i += 1
            while i < len(items) and items[i][0] in (b"CHDT", b"CHFF", b"CHFR"):
                group.append(items[i])
                i += 1
            chdt = dict(group).get(b"CHDT")
            new = fn(chnm, chdt)
            if new is None:
                continue
            out.extend((n, new if n == b"CHDT" else d) for n, d in group)
            continue
        out.append(items[i])
        i += 1
    return iff_bytes(out)


# --------------------------------------------------------------------------
# variants of the sampler fixture


def variants():
    with open(FIXTURE, "rb") as f:
        modern = f.read()

    def bad_sign(chnm, chdt):
        if chnm == 0:
            return chdt[:0xFC] + b"XXXX" + chdt[0x100:]
        return chdt

    def too_long(chnm, chdt):
        if chnm == 0:
            return chdt + b"\0" * 16
        return chdt

    def no_envelopes(chnm, chdt):
        if 0x102 <= chnm <= 0x108:
            return None
        return chdt

    def short_instrument(chnm, chdt):
        if 0x102 <= chnm <= 0x108:
            return None
        if chnm == 0:
            return chdt[:0x184]
        return chdt

    def no_effect(chnm, chdt):
        if chnm == 0x10A:
            return None
        return chdt

    return {
        "modern": modern,
        "legacy_sign": map_module_chunks(modern, bad_sign),
        "legacy_long": map_module_chunks(modern, too_long),
        "old_envelopes": map_module_chunks(modern, no_envelopes),
        "short_instrument": map_module_chunks(modern, short_instrument),
        "no_effect": map_module_chunks(modern, no_effect),
    }


# --------------------------------------------------------------------------
# canonical description of everything a sampler serializes


def describe_envelope(e):
    return {
        "points": list(e.points),
        "sustain_point": e.sustain_point,
        "loop_start_point": e.loop_start_point,
        "loop_end_point": e.loop_end_point,
        "enable": e.enable,
        "sustain": e.sustain,
        "loop": e.loop,
        "ctl_index": e.ctl_index,
        "gain_pct": e.gain_pct,
        "velocity": e.velocity,
    }


def describe_sample(s):
    if s is None:
        return None
    return {
        k: getattr(s, k)
        for k in (
            "data loop_start loop_len volume finetune format channels rate "
            "loop_type loop_sustain panning relative_note reserved2 name start_pos"
        ).split()
    }


def describe(s, depth=0):
    d = {}
    for k in (
        "name flags mod_finetune mod_relative_note mod_scale color midi_in_always "
        "midi_in_channel midi_out_name midi_out_channel midi_out_bank "
        "midi_out_program instrument_name version max_version unused1 unused2 "
        "unused3 unused4 unused5 unused6 volume_old ins_finetune ins_relative_note "
        "editor_cursor editor_selected_size is_legacy"
    ).split():
        d[k] = getattr(s, k)
    for k in s.controllers:
        d["ctl." + k] = getattr(s, k)
    for k in s.options:
        d["opt." + k] = getattr(s, k)
    d["note_samples"] = s.note_samples.bytes
    d["env.volume"] = describe_envelope(s.volume_envelope)
    d["env.panning"] = describe_envelope(s.panning_envelope)
    d["env.pitch"] = describe_envelope(s.pitch_envelope)
    for i, e in enumerate(s.effect_control_envelopes):
        d["env.fx%d" % i] = describe_envelope(e)
    for i, smp in enumerate(s.samples):
        if smp is not None:
            d["sample.%d" % i] = describe_sample(smp)
    d["sample_slots"] = [i for i, smp in enumerate(s.samples) if smp is not None]
    if s.effect is not None and depth < 2:
        d["effect"] = s.effect.module.mtype + ":" + repr(
            sorted(
                (k, getattr(s.effect.module, k)) for k in s.effect.module.controllers
            )
        )
    else:
        d["effect"] = None
    return d


def diff_keys(a, b):
    return sorted(k for k in set(a) | set(b) if a.get(k) != b.get(k))


# --------------------------------------------------------------------------
# the catalogue of edits


def edit_catalogue():
    S = Sampler

    def env_edit(getter, attr, value):
        def apply(s):
            setattr(getter(s), attr, value)

        return apply

    def sample_edit(index, attr, value):
        def apply(s):
            setattr(s.samples[index], attr, value)

        return apply

    def attr_edit(attr, value):
        def apply(s):
            setattr(s, attr, value)

        return apply

    def vol(s):
        return s.volume_envelope

    def pan(s):
        return s.panning_envelope

    def pitch(s):
        return s.pitch_envelope

    def fx(i):
        return lambda s: s.effect_control_envelopes[i]

    cat = [
        ("volume", attr_edit("volume", 300), ["ctl.volume"]),
        ("panning", attr_edit("panning", -100), ["ctl.panning"]),
        ("polyphony", attr_edit("polyphony", 3), ["ctl.polyphony"]),
        ("vibrato_type", attr_edit("vibrato_type", S.VibratoType.saw),
         ["ctl.vibrato_type"]),
        ("vibrato_attack", attr_edit("vibrato_attack", 200), ["ctl.vibrato_attack"]),
        ("vibrato_depth", attr_edit("vibrato_depth", 17), ["ctl.vibrato_depth"]),
        ("vibrato_rate", attr_edit("vibrato_rate", 63), ["ctl.vibrato_rate"]),
        ("volume_fadeout", attr_edit("volume_fadeout", 8192), ["ctl.volume_fadeout"]),
        ("instrument_name", attr_edit("instrument_name", b"edited-name"),
         ["instrument_name"]),
        ("instrument_name_long",
         attr_edit("instrument_name", b"0123456789abcdefghijklmnopqrstuvwxyz"),
         ["instrument_name"]),
        ("volume_old", attr_edit("volume_old", 12), ["volume_old"]),
        ("ins_finetune", attr_edit("ins_finetune", -7), ["ins_finetune"]),
        ("ins_relative_note", attr_edit("ins_relative_note", 5),
         ["ins_relative_note"]),
        ("editor_cursor", attr_edit("editor_cursor", -3), ["editor_cursor"]),
        ("editor_selected_size", attr_edit("editor_selected_size", 99),
         ["editor_selected_size"]),
        ("unused1", attr_edit("unused1", 0xDEADBEEF), ["unused1"]),
        ("unused5", attr_edit("unused5", 9), ["unused5"]),
        ("name", attr_edit("name", "Renamed"), ["name"]),
        ("color", attr_edit("color", (1, 2, 3)), ["color"]),
        ("mod_finetune", attr_edit("mod_finetune", -11), ["mod_finetune"]),
        ("opt.record_in_mono", attr_edit("record_in_mono", False),
         ["opt.record_in_mono"]),
        ("opt.ignore_velocity", attr_edit("ignore_velocity_for_volume", True),
         ["opt.ignore_velocity_for_volume"]),
        ("vol.points",
         env_edit(vol, "points", [(0, 0), (5, 0x8000), (9, 0x1234), (400, 1)]),
         ["env.volume"]),
        ("vol.points.many",
         env_edit(vol, "points", [(i * 3, (i * 0x777) % 0x8001) for i in range(15)]),
         ["env.volume"]),
        ("vol.points.none", env_edit(vol, "points", []), ["env.volume"]),
        ("vol.sustain_point", env_edit(vol, "sustain_point", 3), ["env.volume"]),
        ("vol.loop", env_edit(vol, "loop", True), ["env.volume"]),
        ("vol.enable", env_edit(vol, "enable", False), ["env.volume"]),
        ("vol.gain_pct", env_edit(vol, "gain_pct", 55), ["env.volume"]),
        ("vol.velocity", env_edit(vol, "velocity", 1), ["env.volume"]),
        ("pan.points",
         env_edit(pan, "points", [(0, -0x4000), (7, 0x4000), (9, 0), (11, -1)]),
         ["env.panning"]),
        ("pan.sustain", env_edit(pan, "sustain", True), ["env.panning"]),
        ("pan.loop_end_point", env_edit(pan, "loop_end_point", 2), ["env.panning"]),
        ("pitch.points", env_edit(pitch, "points", [(0, 0x4000), (100, -0x4000)]),
         ["env.pitch"]),
        ("pitch.enable", env_edit(pitch, "enable", True), ["env.pitch"]),
        ("fx0.points", env_edit(fx(0), "points", [(0, 0), (1, 0x8000)]), ["env.fx0"]),
        ("fx2.ctl_index", env_edit(fx(2), "ctl_index", 7), ["env.fx2"]),
        ("fx3.loop_start_point", env_edit(fx(3), "loop_start_point", 1),
         ["env.fx3"]),
        ("sample0.volume", sample_edit(0, "volume", 11), ["sample.0"]),
        ("sample0.finetune", sample_edit(0, "finetune", -128), ["sample.0"]),
        ("sample0.panning", sample_edit(0, "panning", -128), ["sample.0"]),
        ("sample1.panning", sample_edit(1, "panning", 127), ["sample.1"]),
        ("sample1.loop_type", sample_edit(1, "loop_type", S.LoopType.forward),
         ["sample.1"]),
        ("sample1.loop_sustain", sample_edit(1, "loop_sustain", True), ["sample.1"]),
        ("sample2.relative_note", sample_edit(2, "relative_note", -20),
         ["sample.2"]),
        ("sample2.name", sample_edit(2, "name", b"kick"), ["sample.2"]),
        ("sample2.rate", sample_edit(2, "rate", 8000), ["sample.2"]),
        ("sample0.loop", lambda s: (setattr(s.samples[0], "loop_start", 2),
                                    setattr(s.samples[0], "loop_len", 5)),
         ["sample.0"]),
        ("sample0.start_pos", sample_edit(0, "start_pos", 4), ["sample.0"]),
        ("sample0.reserved2", sample_edit(0, "reserved2", 77), ["sample.0"]),
        ("sample0.data", sample_edit(0, "data", bytes(range(48))), ["sample.0"]),
    ]

    def remap(s):
        from rv.note import NOTE

        s.note_samples[NOTE.C4] = 2
        s.note_samples[NOTE.a9] = 1

    cat.append(("note_samples", remap, ["note_samples"]))

    def reformat(s):
        smp = s.samples[0]
        smp.format = S.Format.int16
        smp.channels = S.Channels.stereo
        smp.data = bytes(range(64))

    cat.append(("sample0.format", reformat, ["sample.0"]))

    def new_sample(s):
        smp = S.Sample()
        smp.data = pack("<8f", *[i / 8 for i in range(8)])
        smp.name = b"fresh"
        s.samples[40] = smp

    cat.append(("sample40.new", new_sample, ["sample.40", "sample_slots"]))

    def drop_sample(s):
        s.samples[2] = None

    cat.append(("sample2.drop", drop_sample, ["sample.2", "sample_slots"]))

    def drop_effect(s):
        s.effect = None

    cat.append(("effect.drop", drop_effect, ["effect"]))
    return cat


# --------------------------------------------------------------------------
# checks


def check_roundtrips(vs):
    for vname, raw in vs.items():
        synth = load(raw)
        out = synth.read()
        digest("roundtrip.%s" % vname, out)
        again = load(out)
        check(
            describe(again.module) == describe(synth.module),
            "roundtrip %s preserves state" % vname,
        )
        check(again.read() == out, "roundtrip %s is a fixed point" % vname)
        digest("state.%s" % vname, sorted(describe(synth.module).items()))
        # the specialized section on its own
        digest(
            "specialized.%s" % vname, stream(synth.module.specialized_iff_chunks())
        )


def check_edits(vs):
    cat = edit_catalogue()
    for vname in ("modern", "old_envelopes", "short_instrument", "no_effect"):
        raw = vs[vname]
        base = describe(load(raw).module)
        for label, apply, expected_keys in cat:
            if label == "effect.drop" and vname == "no_effect":
                continue
            synth = load(raw)
            apply(synth.module)
            edited = describe(synth.module)
            out = synth.read()
            digest("edit.%s.%s" % (vname, label), out)
            reloaded = describe(load(out).module)
            if label == "instrument_name_long":
                edited["instrument_name"] = edited["instrument_name"][:22]
            check(
                reloaded == edited,
                "edit %s/%s is what gets saved (diff %s)"
                % (vname, label, diff_keys(reloaded, edited)),
            )
            check(
                diff_keys(reloaded, base) == sorted(expected_keys),
                "edit %s/%s only changes %s (got %s)"
                % (vname, label, expected_keys, diff_keys(reloaded, base)),
            )
    # legacy instruments replay the raw chunks: specialized edits are lost,
    # module-level edits (written outside the CHNK section) are kept.
    for vname in ("legacy_sign", "legacy_long"):
        raw = vs[vname]
        base_specialized = stream(load(raw).module.specialized_iff_chunks())
        for label, apply, expected_keys in cat:
            synth = load(raw)
            check(synth.module.is_legacy is True, "%s is legacy" % vname)
            apply(synth.module)
            check(
                stream(synth.module.specialized_iff_chunks()) == base_specialized,
                "legacy %s/%s replays raw chunks" % (vname, label),
            )
            digest("legacy.%s.%s" % (vname, label), synth.read())



def build_sampler(spec):
    S = Sampler
    s = S(instrument_name=spec.get("instrument_name", b""))
    for index, (fmt, ch, loop, sustain, nbytes) in spec.get("samples", {}).items():
        smp = S.Sample()
        smp.format = fmt
        smp.channels = ch
        smp.loop_type = loop
        smp.loop_sustain = sustain
        smp.data = bytes((index * 7 + i) % 256 for i in range(nbytes))
        smp.name = b"s%d" % index
        smp.panning = (index % 200) - 100
        smp.finetune = (index % 255) - 128
        smp.relative_note = (index % 100) - 50
        smp.volume = index % 65
        smp.rate = 8000 + index
        smp.loop_start = index
        smp.loop_len = index * 2
        smp.start_pos = index * 3
        smp.reserved2 = index % 3
        s.samples[index] = smp
    return s




def make_chunk(chnm, chdt, chff=0, chfr=44100):
    c = Chunk()
    c.chnm, c.chdt, c.chff, c.chfr = chnm, chdt, chff, chfr
    return c


def module_chunks(raw):
    """The CHNM groups of the (single) module in a .sunsynth, as Chunk objects."""
    out = []

    def grab(chnm, chdt):
        out.append(chnm)
        return chdt

    items = iff_list(raw)
    chunks = []
    current = None
    for name, data in items:
        if name == b"CHNM":
            current = make_chunk(struct.unpack("<I", data)[0], None)
            chunks.append(current)
        elif name == b"CHDT" and current is not None:
            current.chdt = data
        elif name == b"CHFF" and current is not None:
            (current.chff,) = struct.unpack("<I", data)
        elif name == b"CHFR" and current is not None:
            (current.chfr,) = struct.unpack("<I", data)
    return chunks


def legacy_state(s):
    return (
        s.is_legacy,
        None if s.legacy_chunks is None else [c.chnm for c in s.legacy_chunks],
    )


def check_load_chunk_dispatch(vs):
    """Feed chunks one at a time and watch the legacy bookkeeping."""
    for vname, raw in vs.items():
        chunks = module_chunks(raw)
        s = Sampler()
        check(legacy_state(s) == (None, []), "fresh sampler legacy state")
        trace = []
        for c in chunks:
            s.load_chunk(c)
            trace.append((c.chnm, legacy_state(s)))
        s.finalize_load()
        digest("dispatch.trace." + vname, trace)
        state = describe(s)
        reference = describe(load(raw).module)
        # controllers are loaded by the module reader, not by load_chunk
        for k in list(state):
            if k.startswith("ctl.") and not k.startswith("ctl.vibrato") and k != "ctl.volume_fadeout":
                state.pop(k)
                reference.pop(k)
        for k in ("name", "flags", "color", "mod_finetune", "mod_relative_note",
                  "mod_scale", "midi_in_always", "midi_in_channel", "midi_out_name",
                  "midi_out_channel", "midi_out_bank", "midi_out_program"):
            state.pop(k)
            reference.pop(k)
        check(state == reference, "chunk by chunk load == file load (%s): %s"
              % (vname, diff_keys(state, reference)))
        if s.is_legacy:
            check(s.legacy_chunks == chunks, "legacy keeps every chunk object " + vname)
        else:
            check(s.legacy_chunks is None and s.is_legacy is False,
                  "modern instrument drops raw chunks " + vname)

    # chunk order variations: envelopes before the instrument chunk, unknown
    # chunk numbers, a second instrument chunk after a legacy one.
    chunks = module_chunks(vs["modern"])
    by_num = {c.chnm: c for c in chunks}
    s = Sampler()
    order = [0x108, 0x104, 0x102, 0x101, 1, 2, 0x109, 0x10B, 0x200, 0, 0x103, 3, 4]
    for n in order:
        c = by_num.get(n) or make_chunk(n, b"\1\2\3\4" * 8)
        s.load_chunk(c)
    s.finalize_load()
    digest("dispatch.reordered", sorted(describe(s).items()))
    check(legacy_state(s) == (False, None), "reordered load ends modern")
    check(s.effect is None, "no effect chunk -> no effect")
    check(not hasattr(s, "_unknown_0x101"), "0x101 is the options chunk")

    legacy0 = module_chunks(vs["legacy_sign"])[0]
    s = Sampler()
    s.load_chunk(legacy0)
    check(legacy_state(s) == (True, [0]), "bad signature -> legacy")
    s.load_chunk(by_num[0])
    check(legacy_state(s) == (True, [0, 0]), "legacy flag is sticky")
    s.load_chunk(by_num[0x102])
    check(legacy_state(s) == (True, [0, 0, 0x102]), "legacy keeps collecting")

    s = Sampler()
    s.load_chunk(by_num[0])
    check(legacy_state(s) == (False, None), "good signature -> modern")
    s.load_chunk(legacy0)
    check(s.is_legacy is True and s.legacy_chunks is None,
          "late bad signature flips the flag but has no chunk list")
    try:
        s.load_chunk(by_num[0])
    except AttributeError:
        pass
    else:
        check(False, "collecting into a dropped chunk list raises AttributeError")
    check(s.is_legacy is True, "flag stays set")

    long0 = module_chunks(vs["legacy_long"])[0]
    for extra in (0, 1, 2):
        s = Sampler()
        c = make_chunk(0, by_num[0].chdt + b"\0" * extra)
        s.load_chunk(c)
        check(s.is_legacy is (extra > 0), "length 0x190+%d legacy=%s" % (extra, extra > 0))
    s = Sampler()
    s.load_chunk(long0)
    check(legacy_state(s) == (True, [0]), "long record -> legacy")

    # a record that is both badly signed and long
    s = Sampler()
    s.load_chunk(make_chunk(0, legacy0.chdt + b"\0" * 40))
    check(legacy_state(s) == (True, [0]), "bad sign and long -> legacy")

    # truncated instrument records
    good = by_num[0].chdt
    for cut in (0x190, 0x18C, 0x188, 0x184, 0x150, 0x104, 0x103, 0x100, 0xFC, 0x80, 0):
        s = Sampler()
        try:
            s.load_chunk(make_chunk(0, good[:cut]))
        except RuntimeError as e:
            outcome = ("RuntimeError", str(e), legacy_state(s))
        else:
            outcome = (
                "ok", legacy_state(s), s.version, s.max_version, s.editor_cursor,
                s.editor_selected_size, s.note_samples.bytes,
            )
        digest("truncated.%x" % cut, outcome)
        if cut >= 0x104:
            check(outcome[0] == "ok", "cut %x loads" % cut)
        else:
            check(outcome[0] == "RuntimeError", "cut %x fails" % cut)

    # instrument fields decode
    rec = bytearray(good)
    rec[0:4] = pack("<I", 0x01020304)
    rec[4:26] = b"instrument name 22 by!"
    rec[0x1A:0x1C] = pack("<H", 0xBEEF)
    rec[0x1E:0x20] = pack("<H", 0x1234)
    rec[0x20:0x24] = pack("<I", 0xCAFEBABE)
    rec[0xF2:0xF4] = pack("<H", 4321)
    rec[0xF4] = 33
    rec[0xF5:0xF6] = pack("<b", -100)
    rec[0xF6] = 200
    rec[0xF7:0xF8] = pack("<b", -3)
    rec[0xF8:0xFC] = pack("<I", 0x0A0B0C0D)
    rec[0x100:0x104] = pack("<I", 5)
    rec[0x184:0x188] = pack("<I", 9)
    rec[0x188:0x18C] = pack("<i", -77)
    rec[0x18C:0x190] = pack("<i", 1 << 20)
    s = Sampler()
    s.load_chunk(make_chunk(0, bytes(rec)))
    got = {k: getattr(s, k) for k in (
        "unused1 instrument_name unused2 unused3 unused4 volume_fadeout volume_old "
        "ins_finetune unused5 ins_relative_note unused6 version max_version "
        "editor_cursor editor_selected_size").split()}
    check(got == {
        "unused1": 0x01020304, "instrument_name": b"instrument name 22 by!",
        "unused2": 0xBEEF, "unused3": 0x1234, "unused4": 0xCAFEBABE,
        "volume_fadeout": 4321, "volume_old": 33, "ins_finetune": -100,
        "unused5": 200, "ins_relative_note": -3, "unused6": 0x0A0B0C0D,
        "version": 5, "max_version": 9, "editor_cursor": -77,
        "editor_selected_size": 1 << 20}, "instrument fields decode: %r" % got)


def check_sample_loading():
    S = Sampler
    for flags in range(256):
        header = pack("<IIIBbBBbB22sI", 10, 1, 2, 3, -4, flags, 0x80 + 5, -6, 7,
                      b"nm", 8)
        s = S()
        try:
            s.load_chunk(make_chunk(11, header))
        except (KeyError, ValueError) as e:
            outcome = (type(e).__name__, repr(describe_sample(s.samples[5])))
        else:
            outcome = ("ok", repr(describe_sample(s.samples[5])))
            smp = s.samples[5]
            check(smp.loop_type == S.LoopType(flags & 3), "loop type %x" % flags)
            check(smp.loop_sustain is bool(flags & 4), "sustain %x" % flags)
            check(smp.channels is (S.Channels.stereo if flags & 0x40 else S.Channels.mono),
                  "channels %x" % flags)
            check(smp.format is {0: S.Format.int8, 0x10: S.Format.int16,
                                 0x20: S.Format.float32}[flags & 0x30], "format %x" % flags)
        if flags & 3 == 3:
            check(outcome[0] == "ValueError", "loop type 3 -> ValueError (%x)" % flags)
        elif flags & 0x30 == 0x30:
            check(outcome[0] == "KeyError", "format 0x30 -> KeyError (%x)" % flags)
        else:
            check(outcome[0] == "ok", "flags %x load" % flags)
        digest("sample_meta.%02x" % flags, outcome)
    # short header: start_pos defaults, anything shorter fails
    header = pack("<IIIBbBBbB22s", 10, 1, 2, 3, -4, 0x21, 0x80, 0, 0, b"short")
    s = S()
    s.load_chunk(make_chunk(1, header))
    check(s.samples[0].start_pos == 0 and s.samples[0].name == b"short", "start_pos default")
    s = S()
    try:
        s.load_chunk(make_chunk(1, header[:14]))
    except RuntimeError:
        pass
    else:
        check(False, "truncated sample header raises RuntimeError")
    # data chunks: chff combinations
    for chff in range(16):
        s = S()
        s.load_chunk(make_chunk(7, header))
        try:
            s.load_chunk(make_chunk(8, b"\x01\x02" * 8, chff=chff, chfr=1000 + chff))
        except ValueError as e:
            outcome = ("ValueError", repr(describe_sample(s.samples[3])))
        else:
            outcome = ("ok", repr(describe_sample(s.samples[3])))
        digest("sample_data.%x" % chff, outcome)
    s = S()
    try:
        s.load_chunk(make_chunk(8, b""))
    except AttributeError:
        pass
    else:
        check(False, "data chunk before its header raises AttributeError")
    check(s.samples == [None] * 128, "no sample created by a failed data chunk")


def check_envelope_loading():
    S = Sampler
    makers = [
        ("vol", S.VolumeEnvelope), ("pan", S.PanningEnvelope),
        ("pitch", S.PitchEnvelope), ("fx", lambda: S.EffectControlEnvelope(0x105)),
    ]
    for mname, make in makers:
        for count in (0, 1, 2, 5, 12, 13, 40):
            for flags in (0, 1, 5, 7, 0xFFFF):
                head = pack("<HBBB", flags, count % 256, 99, flags & 1) + b"\xAA\xBB\xCC"
                head += pack("<HHHH", count, count // 2, 1, count) + b"\xDD\xEE\xFF\x11"
                body = b"".join(pack("<HH", i * 7, (i * 0x999) % 0x10000) for i in range(count))
                e = make()
                e.load_chdt(head + body)
                check(e.loaded is True, "loaded flag")
                check(len(e.points) == count, "point count")
                digest("env.load.%s.%d.%x" % (mname, count, flags),
                       sorted(describe_envelope(e).items()))
                # trailing garbage is ignored
                e2 = make()
                e2.load_chdt(head + body + b"\x55" * 7)
                check(describe_envelope(e2) == describe_envelope(e), "trailing bytes ignored")
                # truncated point list
                if count:
                    e3 = make()
                    try:
                        e3.load_chdt((head + body)[:-1])
                    except struct.error:
                        check(e3.loaded is False, "failed load leaves loaded False")
                    else:
                        check(False, "truncated point list raises struct.error")
        e = make()
        for cut in (0, 5, 15):
            try:
                e.load_chdt(b"\0" * cut)
            except struct.error:
                pass
            else:
                check(False, "truncated header raises struct.error")
        check(e.loaded is False and e.points == make().points, "failed header leaves envelope alone")


def check_envelope_upgrade(vs):
    S = Sampler
    good = module_chunks(vs["modern"])[0].chdt
    cases = []
    for vol_n, pan_n in ((0, 0), (1, 1), (5, 4), (12, 12), (3, 12), (12, 0)):
        for vol_flags, pan_flags in ((0, 0), (3, 0), (7, 5), (1, 6), (0xFF, 0xF8)):
            cases.append((vol_n, pan_n, vol_flags, pan_flags))
    for vol_n, pan_n, vol_flags, pan_flags in cases:
        rec = bytearray(good)
        rec[0x84:0xB4] = b"".join(pack("<HH", i * 11, (i * 5) % 0x41) for i in range(12))
        rec[0xB4:0xE4] = b"".join(pack("<HH", i * 13 + 1, (i * 7) % 0x41) for i in range(12))
        rec[0xE4] = vol_n
        rec[0xE5] = pan_n
        rec[0xE6:0xE9] = bytes([1, 2, 3])
        rec[0xE9:0xEC] = bytes([4, 5, 6])
        rec[0xEC] = vol_flags
        rec[0xED] = pan_flags
        s = S()
        s.load_chunk(make_chunk(0, bytes(rec)))
        pitch_before = describe_envelope(s.pitch_envelope)
        s.finalize_load()
        key = "%d.%d.%x.%x" % (vol_n, pan_n, vol_flags, pan_flags)
        vol, pan = s.volume_envelope, s.panning_envelope
        check(len(vol.points) == vol_n and len(pan.points) == pan_n, "upgrade counts " + key)
        check((vol.sustain_point, vol.loop_start_point, vol.loop_end_point) == (1, 2, 3),
              "vol legacy settings " + key)
        check((pan.sustain_point, pan.loop_start_point, pan.loop_end_point) == (4, 5, 6),
              "pan legacy settings " + key)
        check(vol.bitmask == vol_flags & 7 and pan.bitmask == pan_flags & 7, "flags " + key)
        check(vol.points == [(i * 11, ((i * 5) % 0x41) * 0x200) for i in range(vol_n)],
              "vol points " + key)
        check(pan.points == [(i * 13 + 1, ((i * 7) % 0x41) * 0x200 - 0x4000) for i in range(pan_n)],
              "pan points " + key)
        check(describe_envelope(s.pitch_envelope) == pitch_before, "pitch untouched " + key)
        check(vol.loaded is False and pan.loaded is False, "upgrade is not 'loaded' " + key)
        digest("upgrade." + key, (sorted(describe_envelope(vol).items()),
                                  sorted(describe_envelope(pan).items())))
        # the upgraded instrument saves and reloads to the same state
        out = Synth(s).read()
        digest("upgrade.saved." + key, out)
        s2 = load(out).module
        check(describe_envelope(s2.volume_envelope) == describe_envelope(vol), "vol saved " + key)
        check(describe_envelope(s2.panning_envelope) == describe_envelope(pan), "pan saved " + key)
    # too many active points for the 12-point table
    rec = bytearray(good)
    rec[0xE4] = 13
    s = S()
    s.load_chunk(make_chunk(0, bytes(rec)))
    try:
        s.finalize_load()
    except struct.error:
        pass
    else:
        check(False, "13 legacy points raise struct.error")
    # no instrument chunk at all
    s = S()
    try:
        s.finalize_load()
    except TypeError:
        pass
    else:
        check(False, "upgrade without legacy data raises TypeError")
    # a loaded volume envelope suppresses the upgrade
    s = S()
    s.load_chunk(make_chunk(0, good))
    s.load_chunk(module_chunks(vs["modern"])[8])  # 0x102
    check(s.volume_envelope.loaded, "0x102 chunk loaded")
    pan_before = describe_envelope(s.panning_envelope)
    s.finalize_load()
    check(describe_envelope(s.panning_envelope) == pan_before, "no upgrade when vol loaded")


def check_projects():
    S = Sampler
    p = Project()
    a = build_sampler({"samples": {
        0: (S.Format.int8, S.Channels.mono, S.LoopType.off, False, 4),
        5: (S.Format.int16, S.Channels.stereo, S.LoopType.forward, True, 8)},
        "instrument_name": b"inner"})
    p.attach_module(a)
    a >> p.output
    a.volume_envelope.points = [(0, 100), (10, 0x8000)]
    mm = MetaModule(project=p)
    outer = Project()
    outer.attach_module(mm)
    b = build_sampler({"samples": {127: (S.Format.float32, S.Channels.mono, S.LoopType.ping_pong, False, 16)}})
    outer.attach_module(b)
    mm >> outer.output
    b >> outer.output
    raw = outer.read()
    digest("project.raw", raw)
    loaded = load(raw)
    got_a = loaded.modules[1].project.modules[1]
    got_b = loaded.modules[2]
    check(describe(got_a) == dict(describe(a), is_legacy=False), "nested sampler")
    check(describe(got_b) == dict(describe(b), is_legacy=False), "top-level sampler")
    got_a.samples[5].volume = 1
    got_a.pitch_envelope.points = [(0, 1), (2, 3), (4, 5)]
    got_b.samples[127].name = b"renamed"
    raw2 = loaded.read()
    digest("project.edited", raw2)
    again = load(raw2)
    check(describe(again.modules[1].project.modules[1]) == describe(got_a), "nested edit saved")
    check(describe(again.modules[2]) == describe(got_b), "top-level edit saved")


def main():
    vs = variants()
    check_roundtrips(vs)
    check_edits(vs)
    check_load_chunk_dispatch(vs)
    check_sample_loading()
    check_envelope_loading()
    check_envelope_upgrade(vs)
    check_projects()
    blob = "\n".join("%s %s" % kv for kv in sorted(DIGESTS.items()))
    total = hashlib.sha256(blob.encode()).hexdigest()
    if os.environ.get("CHECK_DUMP"):
        print(total, len(DIGESTS))
        return 0
    check(len(DIGESTS) == EXPECTED_COUNT, "digest count %d" % len(DIGESTS))
    check(total == EXPECTED_TOTAL, "combined digest of all observed state %s" % total)
    if FAILURES:
        print("FAILED (%d)" % len(FAILURES))
        return 1
    print("PASS (%d digests, %s)" % (len(DIGESTS), total[:12]))
    return 0


EXPECTED_COUNT = 845
EXPECTED_TOTAL = "bbd6995023efdf0bbc0ebb0f80121348c81e6dd282afb1dd56f2f855817e2852"

if __name__ == "__main__":
    sys.exit(main())
