"""check.py for C05-2: the reading side (ModuleReader, SunVoxReader end-of-file, read_sunvox_file).

Drives the chunk handlers directly with edge-case payloads, rebuilds link tables on
hand-made projects, and runs the C05 property (re-saving is stable, saving is pure)
over fixtures with mutated SLNK / SLnK / CVAL / note bytes.  Bytes, errors and the
full DEBUG log (which pins handler and controller order) are folded into a digest
recorded on the unpatched tree.
"""
# ---------------------------------------------------------------------------
# shared harness (copied verbatim into every check.py; standalone on purpose)
# ---------------------------------------------------------------------------
import hashlib
import io
import logging
import struct
import sys
from enum import Enum
from pathlib import Path

import rv
from rv.api import Project, Synth, m, read_sunvox_file
from rv.lib.iff import chunks as iff_chunks

ROOT = Path(rv.__file__).resolve().parents[3]
FILES = ROOT / "tests" / "files"
FAILURES = []


def check(cond, label):
    if not cond:
        FAILURES.append(label)
        print("FAIL:", label)


class _Capture(logging.Handler):
    """Collects (logger, level, message) of everything the library logs."""

    def __init__(self):
        super().__init__(level=logging.INFO)
        self.records = []

    def emit(self, record):
        self.records.append((record.name, record.levelname, record.getMessage()))


CAPTURE = _Capture()
_rvlog = logging.getLogger("rv")
_rvlog.addHandler(CAPTURE)
_rvlog.setLevel(logging.INFO)
_rvlog.propagate = False


def snap(o, path=()):
    """Structural snapshot of an object graph (cycle safe, order preserving)."""
    if isinstance(o, Enum):
        return repr(o)
    if o is None or isinstance(o, (bool, int, float, str, bytes, bytearray)):
        return repr(o)
    if id(o) in path:
        return "<cycle>"
    path = path + (id(o),)
    if isinstance(o, dict):
        return ("dict", tuple((snap(k, path), snap(v, path)) for k, v in o.items()))
    if isinstance(o, (list, tuple)):
        return (type(o).__name__, tuple(snap(x, path) for x in o))
    if isinstance(o, (set, frozenset)):
        return ("set", tuple(sorted(repr(snap(x, path)) for x in o)))
    state = {}
    for klass in type(o).__mro__:
        for s in getattr(klass, "__slots__", ()):
            if hasattr(o, s):
                state[s] = getattr(o, s)
    state.update(getattr(o, "__dict__", {}))
    if not state:
        return repr(o) if type(o).__repr__ is not object.__repr__ else type(o).__name__
    return (type(o).__name__, snap(state, path))


def parse(blob):
    return [(n, d) for n, d in iff_chunks(io.BytesIO(blob))]


def build(chunk_list):
    out = io.BytesIO()
    for n, d in chunk_list:
        out.write(n)
        out.write(struct.pack("<I", len(d)))
        out.write(d)
    return out.getvalue()


def save(obj):
    f = io.BytesIO()
    obj.write_to(f)
    return f.getvalue()


def cycle(blob, n=3):
    """Load/save `blob` n times.  Returns ("ok", [Y1..Yn]) or ("err", type, msg)."""
    outs = []
    cur = blob
    try:
        for _ in range(n):
            obj = read_sunvox_file(io.BytesIO(cur))
            before = snap(obj)
            first = save(obj)
            mid = snap(obj)
            second = save(obj)
            after = snap(obj)
            check(first == second, "saving twice gives identical bytes")
            check(mid == after, "second save leaves the object unchanged")
            outs.append((first, before == mid))
            cur = first
    except Exception as e:  # error behaviour is part of what we pin down
        return ("err", type(e).__name__, str(e), len(outs))
    return ("ok", outs)


class Digest:
    def __init__(self):
        self.h = hashlib.sha256()
        self.n = 0

    def add(self, *parts):
        for p in parts:
            if not isinstance(p, bytes):
                p = repr(p).encode("utf8")
            self.h.update(struct.pack("<I", len(p)))
            self.h.update(p)
        self.n += 1

    def hexdigest(self):
        return self.h.hexdigest()


def fixtures():
    return sorted(
        p for p in FILES.rglob("*") if p.suffix in (".sunvox", ".sunsynth") and p.is_file()
    )


def run_case(digest, label, blob, n=3, stable_from=1):
    """Cycle a blob, assert the C05 property, and fold everything into digest."""
    CAPTURE.records.clear()
    res = cycle(blob, n)
    logs = list(CAPTURE.records)
    if res[0] == "ok":
        outs = res[1]
        ys = [y for y, _ in outs]
        for k in range(stable_from, len(ys)):
            check(ys[k] == ys[stable_from - 1], f"{label}: cycle {k + 1} drifted")
        digest.add(label, "ok", *ys)
        digest.add([pure for _, pure in outs])
    else:
        digest.add(label, *res)
    digest.add(logs)
    return res


def mutate_chunks(blob, tag, fn):
    """Apply fn(index, data) -> data to every chunk named `tag` (flat level)."""
    out = []
    i = 0
    for name, data in parse(blob):
        if name == tag:
            data = fn(i, data)
            i += 1
        out.append((name, data))
    return build(out), i


def single_chunk_cases(blob, tag, payloads, cap=40):
    """Yield (label, blob') with exactly one `tag` chunk replaced at a time."""
    count = sum(1 for n, _ in parse(blob) if n == tag)
    for j in range(min(count, cap)):
        for pi, payload in enumerate(payloads):
            mutated, _ = mutate_chunks(
                blob, tag, lambda i, data: payload if i == j else data
            )
            yield f"{tag.decode()}[{j}]#{pi}", mutated


SINGLE_CVALS = [300, -5, 40000, 2**31 - 1, -(2**31), 129]
CVAL_VALUES = [300, -5, 40000, 2**31 - 1, -(2**31), 0, 1, 255, 256, 32768, 65535, -1, 128, 129]
# ---------------------------------------------------------------------------
# ---------------------------------------------------------------------------
# C05-2: the reading side -- ModuleReader (SLNK / SLnK / scalar chunks / SEND),
#        SunVoxReader.process_end_of_file, read_sunvox_file
# ---------------------------------------------------------------------------
import os
import tempfile

from rv import errors
from rv.errors import ControllerValueError
from rv.note import Note
from rv.pattern import Pattern
from rv.readers.module import ModuleReader
from rv.readers.reader import ReaderFinished
from rv.readers.sunvox import SunVoxReader

EXPECTED = "2639639d617b2c154389dd7fbea552cf53df3378ee19e2551870e828a277cb36"
STATS = {}

# this check also pins the order in which chunks and controllers are handled
CAPTURE.setLevel(logging.DEBUG)
_rvlog.setLevel(logging.DEBUG)


def i32(*values):
    return struct.pack("<%di" % len(values), *values)


def insert_after(blob, tag, j, new_chunks):
    """Insert `new_chunks` after the j-th chunk named `tag`."""
    out = []
    i = 0
    for name, data in parse(blob):
        out.append((name, data))
        if name == tag:
            if i == j:
                out.extend(new_chunks)
            i += 1
    return build(out)


def drop_chunks(blob, tag, keep_every):
    out = []
    i = 0
    for name, data in parse(blob):
        if name == tag:
            i += 1
            if i % keep_every:
                continue
        out.append((name, data))
    return build(out)


def tally(res):
    STATS[res[0]] = STATS.get(res[0], 0) + 1
    return res


def fresh_reader(cls=None, index=1):
    """A ModuleReader whose module is in place, as after SFFF/SNAM/STYP."""
    r = ModuleReader(io.BytesIO(), index)
    mod = (cls or m.Amplifier)()
    mod.index = index
    r._object = mod
    r._controller_keys = [n for n, c in mod.controllers.items() if c.attached(mod)]
    return r, mod


def unit_link_chunks(d):
    datas = [
        b"",
        i32(0),
        i32(-1),
        i32(-1, -1, -1),
        i32(3, -1),
        i32(3, -1, -1),
        i32(-1, 3),
        i32(-1, 3, -1, 4, -1, -1),
        i32(5, 6, 7),
        i32(-2, -1),
        i32(2**31 - 1, -(2**31)),
        b"\xff\xff\xff\xff\xff",  # 5 bytes
        b"\x01",
        b"\x01\x02\x03",
        i32(1) + b"\x00\x00",
    ]
    expected = {
        (0, 4): [3],
        (0, 5): [3],
        (0, 6): [-1, 3],
        (0, 7): [-1, 3, -1, 4],
        (0, 2): [],
        (0, 3): [],
        (0, 9): [-2],
    }
    prefixes = [[], [9], [9, -1], [-1, -1]]
    for pi, prefix in enumerate(prefixes):
        for di, data in enumerate(datas):
            for chunk, attr in (("SLNK", "in_links"), ("SLnK", "in_link_slots")):
                r, mod = fresh_reader()
                target = getattr(mod, attr)
                target.extend(prefix)
                try:
                    ret = getattr(r, "process_" + chunk)(data)
                    res = ("ok", ret, list(target))
                    check(getattr(mod, attr) is target, "list is extended in place")
                    if data:
                        check(target[-1:] != [-1], "no trailing -1 survives")
                    else:
                        check(target == prefix, "empty chunk is a no-op")
                    if (pi, di) in expected:
                        check(target == expected[(pi, di)], f"{chunk} {pi},{di}: {target}")
                except struct.error as e:
                    res = ("struct.error", str(e), list(target))
                    check(target == prefix, "failed unpack leaves the list alone")
                other = "in_link_slots" if attr == "in_links" else "in_links"
                check(getattr(mod, other) == [], "only the named list is touched")
                d.add(chunk, prefix, data, res)
    # twice in a row extends
    r, mod = fresh_reader()
    r.process_SLNK(i32(1, -1))
    r.process_SLNK(i32(2, -1, -1))
    check(mod.in_links == [1, 2], f"two SLNK chunks: {mod.in_links}")


def unit_scalar_chunks(d):
    fields = [
        ("SFFF", "flags", "<I"), ("SFIN", "mod_finetune", "<i"), ("SREL", "mod_relative_note", "<i"),
        ("SXXX", "x", "<i"), ("SYYY", "y", "<i"), ("SZZZ", "layer", "<I"), ("SSCL", "mod_scale", "<I"),
        ("SMIC", "midi_out_channel", "<i"), ("SMIB", "midi_out_bank", "<i"), ("SMIP", "midi_out_program", "<i"),
    ]
    payloads = [b"\0\0\0\0", b"\xff\xff\xff\xff", b"\x01\x02\x03\x84", b"\x00\x00\x00\x80", b"", b"\x01\x02", b"12345"]
    for chunk, attr, fmt in fields:
        for data in payloads:
            r, mod = fresh_reader()
            before = getattr(mod, attr)
            try:
                ret = getattr(r, "process_" + chunk)(data)
                got = getattr(mod, attr)
                check(ret is None, "handlers return None")
                check(got == struct.unpack(fmt, data)[0] and type(got) is int, f"{chunk} {data!r} -> {got!r}")
                res = ("ok", got)
            except struct.error as e:
                check(len(data) != 4, "only bad lengths fail")
                check(getattr(mod, attr) == before, "failed unpack leaves the field alone")
                res = ("struct.error", str(e))
            d.add(chunk, data, res)
    r, mod = fresh_reader()
    r.process_SVPR(b"\x01\x01\x0c\x00")
    check(int(mod.visualization) == 0x000C0101 and mod._visualization == 0x000C0101, "SVPR goes through the property")
    for x in (0, 1, 2, 3, 30, 31, 2**32 - 1, 2**32 - 2):
        r, mod = fresh_reader()
        r.process_SMII(struct.pack("<I", x))
        check(mod.midi_in_always is bool(x & 1), f"SMII always {x}")
        check(mod.midi_in_channel == x >> 1 and type(mod.midi_in_channel) is int, f"SMII channel {x}")
        d.add("SMII", x, mod.midi_in_always, mod.midi_in_channel)
    r, mod = fresh_reader()
    r.process_SCOL(b"\x01\x02\x03")
    check(mod.color == (1, 2, 3), "SCOL")
    names = [b"abc", b"abc\0", b"abc\0def\0", b"\0abc", b"", b"\0", b"a" * 32, b"caf\xc3\xa9\0\0\0"]
    for raw in names:
        r, mod = fresh_reader()
        r.process_SNAM(raw)
        r.process_SMIN(raw)
        want = raw.split(b"\0")[0].decode(rv.ENCODING)
        check(mod.name == want and mod.midi_out_name == want, f"string {raw!r} -> {mod.name!r}")
        d.add("str", raw, mod.name, mod.midi_out_name)
    for raw in (b"Amplifier\0", b"Amplifier", b"Amplifier\0junk", b"MetaModule\0", b"Nope\0"):
        r = ModuleReader(io.BytesIO(), 1)
        r._object = rv.modules.Module()
        r._object.flags = 0x49
        r._object.name = "nm"
        try:
            r.process_STYP(raw)
            res = (type(r.object).__name__, r.object.mtype, r.object.name, r.object.flags, r._controller_keys)
            check(type(r.object).__name__ == raw.split(b"\0")[0].decode(), "STYP picks the class")
        except KeyError as e:
            res = ("KeyError", e.args)
        d.add("STYP", raw, res)


def unit_send(d):
    cases = [
        (m.Amplifier, []),
        (m.Amplifier, [1]),
        (m.Amplifier, [256, 128, 128, 0, 128, 0, 32768, 1, 16384]),
        (m.Amplifier, [256, 300, 0, 1, 128, 0, 32768, 1, 40000]),  # out of range twice
        (m.Amplifier, [256, 128, 128, 0, 128, 0, 32768, 1, 16384, 7, 8, 9]),  # 3 extra
        (m.Amplifier, list(range(20))),
        (m.Lfo, [256, 0, 256, 300, 2, 0, 0, 3, 128, 0, 100]),  # freq vs unit=tick
        (m.Lfo, [256, 0, 256, 3000, 2, 0, 0, 1]),
        (m.Generator, [128, 99]),  # bad enum -> ValueError
        (m.VorbisPlayer, [256, 1, -7, 121, 1, 1, 0, 0]),
    ]
    for cls, cvals in cases:
        for strict in (False, True):
            r, mod = fresh_reader(cls)
            mod.controllers_loaded.clear()
            for v in cvals:
                r.process_CVAL(struct.pack("<i", v))
            check(r._cvals == cvals, "CVAL values are collected in file order")
            CAPTURE.records.clear()
            try:
                with errors.override_raise_controller_value_errors(strict):
                    r.process_SEND(b"")
                res = ("returned",)
                check(False, "process_SEND always finishes the reader")
            except ReaderFinished:
                res = ("finished",)
            except (ControllerValueError, ValueError) as e:
                res = (type(e).__name__, e.args)
            logs = list(CAPTURE.records)
            n = len(r._controller_keys)
            warned = [msg for _, lvl, msg in logs if lvl == "WARNING" and msg.startswith("Unsupported")]
            want_warned = [
                f"Unsupported controller at index {i} with raw value {cvals[i]}"
                for i in range(len(cvals) - 1, n - 1, -1)
            ]
            check(warned == want_warned, f"extra CVALs reported high to low: {warned}")
            setting = [msg for _, lvl, msg in logs if msg.startswith("Setting ")]
            if res[0] == "finished":
                want_setting = [
                    f"Setting {r._controller_keys[i]} from raw {cvals[i]}"
                    for i in range(min(n, len(cvals)) - 1, -1, -1)
                ]
                check(setting == want_setting, f"controllers set last to first: {setting}")
                check(mod.controllers_loaded == set(r._controller_keys[: len(cvals)]), "controllers_loaded")
                for i, key in enumerate(r._controller_keys[: len(cvals)]):
                    check(mod.get_raw(key) == cvals[i] or isinstance(mod.controller_values[key], bool),
                          f"{cls.__name__}.{key} raw {cvals[i]} -> {mod.get_raw(key)}")
            d.add(cls.__name__, cvals, strict, res, logs, sorted(mod.controllers_loaded), snap(mod.controller_values))


def unit_end_of_file(d):
    def project_with(links, slots=None, holes=(), version=(2, 1, 2, 1)):
        """links: {module index: in_links}; modules are Amplifiers after the Output."""
        p = Project()
        count = max(list(links) + [0]) + 1
        for i in range(1, count):
            if i in holes:
                p.attach_module(None, loading=True)
            else:
                p.attach_module(m.Amplifier(), loading=True)
        for i, ll in links.items():
            p.modules[i].in_links.extend(ll)
        for i, ss in (slots or {}).items():
            p.modules[i].in_link_slots.extend(ss)
        p.loaded_sunvox_version = version
        return p

    def run(label, p, trailing_none=0):
        for _ in range(trailing_none):
            p.modules.append(None)
        r = SunVoxReader(io.BytesIO())
        r._object = p
        CAPTURE.records.clear()
        try:
            r.process_end_of_file()
            res = ("returned",)
            check(False, "process_end_of_file always finishes the reader")
        except ReaderFinished:
            res = ("finished",)
        except Exception as e:
            res = (type(e).__name__, str(e))
        state = [
            None if mod is None else (mod.index, mod.in_links, mod.in_link_slots, mod.out_links, mod.out_link_slots)
            for mod in p.modules
        ]
        d.add(label, res, repr(state), list(CAPTURE.records))
        return res, state

    res, st = run("chain", project_with({0: [2], 2: [1], 1: []}), trailing_none=3)
    check(res == ("finished",) and len(st) == 3, "trailing empty modules dropped")
    check(st[0] == (0, [2], [0], [], []), f"output {st[0]}")
    check(st[1] == (1, [], [], [2], [0]), f"amp1 {st[1]}")
    check(st[2] == (2, [1], [0], [0], [0]), f"amp2 {st[2]}")
    res, st = run("fan-in", project_with({0: [1, 2, 3], 3: [1, 2], 1: [], 2: []}))
    check(st[0][2] == [1, 1, 0] and st[3][2] == [0, 0], f"fan-in slots {st}")
    check(st[1][3:] == ([3, 0], [0, 0]) and st[2][3:] == ([3, 0], [1, 1]), f"fan-in outs {st}")
    check(st[3][3:] == ([0], [2]), f"fan-in outs {st}")
    run("gaps", project_with({0: [-1, 1, -1, 2], 1: [], 2: [-1, 1]}))
    run("explicit-slots", project_with({0: [1, 2], 1: [], 2: [1]}, {0: [0, 3], 2: [2]}))
    run("explicit-slots-minus1", project_with({0: [1, -1, 2], 1: [], 2: []}, {0: [0, -1, 1]}))
    run("slot -1 with real link", project_with({0: [1], 1: []}, {0: [-1]}))
    run("self link", project_with({0: [1], 1: [1]}))
    run("dangling", project_with({0: [1, 7], 1: []}))
    run("dangling-only", project_with({0: [9], 1: []}))
    run("short slots", project_with({0: [1, 2], 1: [], 2: []}, {0: [0]}))
    run("hole", project_with({0: [1, 3], 3: [1], 1: []}, holes=(2,)), trailing_none=1)
    run("link to hole", project_with({0: [2], 3: []}, holes=(1, 2)))
    run("link to hole with slots", project_with({0: [2], 3: []}, {0: [0]}, holes=(1, 2)))
    run("negative link", project_with({0: [-2], 1: []}))
    run("only output", project_with({}))
    run("all empty", project_with({}), trailing_none=4)
    # legacy files: the high byte of note.module is cleared
    for version in ((1, 9, 4, 9), (1, 9, 5, 0), (1, 7, 0, 0), (2, 1, 2, 1)):
        p = project_with({0: [1], 1: []}, version=version)
        pat = Pattern(tracks=2, lines=3)
        mods = [0, 1, 0xFF, 0x100, 0x1234, 0xFFFF]
        for note, mv in zip([n for line in pat.data for n in line], mods):
            note.module = mv
        p.attach_pattern(pat)
        p.attach_pattern(None)
        run(f"legacy {version}", p)
        got = [n.module for line in pat.data for n in line]
        want = [mv & 0xFF for mv in mods] if version < (1, 9, 5, 0) else mods
        check(got == want, f"legacy {version}: {got}")
        d.add(got)


def unit_read_sunvox_file(d):
    blob = (FILES / "amplifier.sunsynth").read_bytes()
    # balance := raw 300 -> 172, outside [-128, 128]
    mutated, _ = mutate_chunks(blob, b"CVAL", lambda i, data: i32(300) if i == 1 else data)
    with tempfile.TemporaryDirectory() as tmp:
        path = os.path.join(tmp, "x.sunsynth")
        Path(path).write_bytes(mutated)
        fobj = io.BytesIO(mutated)
        results = [read_sunvox_file(path), read_sunvox_file(Path(path)), read_sunvox_file(fobj)]
        check(not fobj.closed, "a file object passed in stays open")
        with open(path, "rb") as real:
            results.append(read_sunvox_file(real))
            check(not real.closed, "a real file passed in stays open")
        for synth in results:
            check(isinstance(synth, Synth) and synth.module.balance == 172, "lenient read keeps the value")
            check(save(synth) == save(results[0]), "all ways of reading agree")
        check(errors.RAISE_CONTROLLER_VALUE_ERRORS is True, "strictness restored after reading")
        for bad in (os.path.join(tmp, "missing.sunvox"), Path(tmp) / "missing2.sunvox"):
            try:
                read_sunvox_file(bad)
                check(False, "missing file")
            except FileNotFoundError:
                pass
            check(errors.RAISE_CONTROLLER_VALUE_ERRORS is True, "strictness restored after failure")
        enum_bad, _ = mutate_chunks((FILES / "generator.sunsynth").read_bytes(), b"CVAL",
                                    lambda i, data: i32(99) if i == 1 else data)
        Path(path).write_bytes(enum_bad)
        for src in (path, io.BytesIO(enum_bad)):
            try:
                read_sunvox_file(src)
                check(False, "bad enum value is fatal")
            except ValueError as e:
                d.add("enum", str(e))
            check(errors.RAISE_CONTROLLER_VALUE_ERRORS is True, "strictness restored after failure")
        with errors.override_raise_controller_value_errors(False):
            read_sunvox_file(path if False else io.BytesIO(mutated))
            check(errors.RAISE_CONTROLLER_VALUE_ERRORS is False, "nested override restored to outer value")
        d.add("garbage", typed_read(b"not a sunvox file at all"), typed_read(b""), typed_read(b"SVOX"))
    # the module reader itself is strict unless told otherwise
    try:
        ModuleReader(io.BytesIO(mutated[mutated.index(b"SFFF"):]), 1).object
        check(False, "strict module reader")
    except ControllerValueError as e:
        check(e.args == ("1f(Amplifier).balance=172 is not within [-128, 128]".replace("1f", "0"),), repr(e.args))


def typed_read(blob):
    try:
        return ("ok", type(read_sunvox_file(io.BytesIO(blob))).__name__)
    except Exception as e:
        return (type(e).__name__, str(e))


LINK_PAYLOADS = [
    i32(-1), i32(-1, -1), i32(1, -1, -1), i32(-1, 1), i32(1, 1), i32(1, 2, -1, 1), i32(99),
    i32(0), i32(2, 1), b"\x01\x00", b"\x01\x00\x00\x00\x02",
]
SLOT_PAYLOADS = [
    i32(0), i32(1), i32(-1), i32(0, 0), i32(0, 1), i32(1, 0), i32(2, -1), i32(0, -1, -1), i32(3, 3, 3, 3),
    i32(5), b"\x01",
]


def files(d):
    for p in fixtures():
        blob = p.read_bytes()
        run_case(d, p.name, blob)
        names = [n for n, _ in parse(blob)]
        # CVAL count games: extras after the last one, and some missing
        if b"CVAL" in names:
            last = names.count(b"CVAL") - 1
            extra = [(b"CVAL", i32(v)) for v in (7, -8, 300)]
            tally(run_case(d, f"{p.name}/extra-cvals", insert_after(blob, b"CVAL", last, extra)))
            tally(run_case(d, f"{p.name}/extra-cvals-first", insert_after(blob, b"CVAL", 0, extra[:1])))
            tally(run_case(d, f"{p.name}/half-cvals", drop_chunks(blob, b"CVAL", 2)))
            k = len(CVAL_VALUES)
            mutated, _ = mutate_chunks(blob, b"CVAL", lambda i, data: i32(CVAL_VALUES[i % k]))
            tally(run_case(d, f"{p.name}/cvals", mutated))
        if p.suffix != ".sunvox" or b"SLNK" not in names:
            continue
        cap = 12 if len(blob) < 200000 else 4
        nlinks = names.count(b"SLNK")
        for label, mutated in single_chunk_cases(blob, b"SLNK", LINK_PAYLOADS, cap):
            tally(run_case(d, f"{p.name}/{label}", mutated))
        for j in range(min(nlinks, cap)):
            for si, slots in enumerate(SLOT_PAYLOADS):
                mutated = insert_after(blob, b"SLNK", j, [(b"SLnK", slots)])
                # A slot array shorter than its link array only settles after the
                # second save on the unpatched tree too, hence stable_from=2 here.
                tally(run_case(d, f"{p.name}/SLnK[{j}]#{si}", mutated, stable_from=2))
            # padding appended to what is there
            mutated, _ = mutate_chunks(blob, b"SLNK", lambda i, data: data + i32(-1, -1) if i == j else data)
            tally(run_case(d, f"{p.name}/SLNK[{j}]+pad", mutated))
            mutated, _ = mutate_chunks(blob, b"SLNK", lambda i, data: data + data if i == j else data)
            tally(run_case(d, f"{p.name}/SLNK[{j}]x2", mutated))
        # note bytes: module numbers with a high byte, in old and new files
        for version in (b"\x00\x04\x09\x01", b"\x00\x05\x09\x01"):
            mutated, _ = mutate_chunks(blob, b"VERS", lambda i, data: version)
            def fill(i, data):
                out = bytearray(data)
                for off in range(0, len(out) - 7, 8):
                    out[off + 2] = (off // 8) % 256
                    out[off + 3] = (off // 64) % 256
                return bytes(out)
            mutated, _ = mutate_chunks(mutated, b"PDTA", fill)
            tally(run_case(d, f"{p.name}/notes-{version[1]}", mutated))


def main():
    d = Digest()
    unit_link_chunks(d)
    unit_scalar_chunks(d)
    unit_send(d)
    unit_end_of_file(d)
    unit_read_sunvox_file(d)
    files(d)
    got = d.hexdigest()
    check(STATS.get("ok", 0) > 300, f"too few loadable mutants: {STATS}")
    if "EXPECTED" in EXPECTED:
        print("digest", got, "cases", d.n, STATS)
    else:
        check(got == EXPECTED, f"behaviour digest changed: {got}")
    if FAILURES:
        print(f"{len(FAILURES)} check(s) failed")
        sys.exit(1)
    print("PASS")


main()
