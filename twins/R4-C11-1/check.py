"""Behaviour check for the Option descriptor (rv/option.py).

Exercises __get__/__set__ on a plain host class (clamp, bool coercion,
inversion, exclusive_of, change hooks and their order) and on the five real
option-bearing module types, including a save/load round trip.
"""
import io
import itertools
import random
import sys

from rv.api import m
from rv.modules.module import Chunk
from rv.option import Option
from rv.readers.reader import read_sunvox_file
from rv.synth import Synth

failures = []


def check(cond, msg):
    if not cond:
        failures.append(msg)


def same(a, b):
    return type(a) is type(b) and a == b


# ---------------------------------------------------------------- host class
class Host:
    plain = Option(name="plain", byte=0, bit=0, size=1, default=False)
    inv = Option(name="inv", byte=0, bit=1, size=1, default=True, inverted=True)
    wide = Option(name="wide", byte=1, bit=0, size=3, default=0)
    wide_inv = Option(name="wide_inv", byte=1, bit=3, size=2, default=0, inverted=True)
    ranged = Option(name="ranged", byte=2, bit=0, size=8, default=0, min=0, max=96)
    ranged1 = Option(name="ranged1", byte=3, bit=0, size=1, default=0, min=0, max=1)
    ranged_inv = Option(
        name="ranged_inv", byte=3, bit=1, size=1, default=0, min=0, max=1, inverted=True
    )
    only_min = Option(name="only_min", byte=4, bit=0, size=1, default=0, min=0)
    only_max = Option(name="only_max", byte=4, bit=1, size=4, default=0, max=3)
    ex_a = Option(name="ex_a", byte=5, bit=0, size=1, default=False, exclusive_of=["ex_b", "ex_c"])
    ex_b = Option(name="ex_b", byte=5, bit=1, size=1, default=False, exclusive_of=["ex_a"])
    ex_c = Option(name="ex_c", byte=5, bit=2, size=1, default=False)
    hooked = Option(name="hooked", byte=6, bit=0, size=1, default=False, inverted=True)
    nothook = Option(name="nothook", byte=6, bit=1, size=1, default=False)

    on_nothook_changed = "not callable"

    def __init__(self):
        self.option_values = {}
        self.events = []

    def on_hooked_changed(self, value):
        self.events.append(("hooked", value, dict(self.option_values)))

    def on_ex_a_changed(self, value):
        self.events.append(("ex_a", value, dict(self.option_values)))

    def on_ex_b_changed(self, value):
        self.events.append(("ex_b", value, dict(self.option_values)))

    def on_ranged_changed(self, value):
        self.events.append(("ranged", value, dict(self.option_values)))


check(Host.plain is Host.__dict__["plain"], "class access must return the descriptor")
check(isinstance(Host.ranged, Option), "class access returns Option")

h = Host()
# reading before anything was stored
try:
    h.plain
except KeyError:
    pass
else:
    check(False, "unset option must raise KeyError")

# single bit, not inverted: truthiness coerced to real bools
for given, stored in [(True, True), (False, False), (1, True), (0, False), (2, True),
                      (-1, True), ("", False), ("x", True), (None, False), ([], False),
                      ([0], True), (0.0, False), (0.5, True)]:
    h.plain = given
    check(same(h.option_values["plain"], stored), f"plain stored {given!r}")
    check(same(h.plain, stored), f"plain read {given!r}")

# single bit, inverted: logical value presented, complement stored
for given, logical in [(True, True), (False, False), (1, True), (0, False), (7, True),
                       ("", False), (None, False), ("a", True)]:
    h.inv = given
    check(same(h.option_values["inv"], not logical), f"inv stored {given!r}")
    check(same(h.inv, logical), f"inv read {given!r}")

# multi-bit without a range: kept exactly as given (no masking on set)
for given in [0, 1, 5, 7, 8, 255, -1, True, False, 2.5, "s", None]:
    h.wide = given
    check(h.option_values["wide"] is given or same(h.option_values["wide"], given), f"wide stored {given!r}")
    check(h.wide is given or same(h.wide, given), f"wide read {given!r}")

# multi-bit inverted: stored as given, read as `not stored`
for given in [0, 1, 2, 3, True, False, "", "q"]:
    h.wide_inv = given
    check(h.option_values["wide_inv"] is given or same(h.option_values["wide_inv"], given), f"wide_inv stored {given!r}")
    check(same(h.wide_inv, not given), f"wide_inv read {given!r}")

# ranged: clamp only
for given, stored in [(-1000, 0), (-1, 0), (0, 0), (1, 1), (50, 50), (95, 95), (96, 96),
                      (97, 96), (255, 96), (10**9, 96), (True, True), (False, 0),
                      (0.0, 0), (0.5, 0.5), (96.0, 96), (96.5, 96), (-0.5, 0), (12.25, 12.25)]:
    h.events.clear()
    h.ranged = given
    check(same(h.option_values["ranged"], stored), f"ranged stored {given!r} -> {h.option_values['ranged']!r}")
    check(same(h.ranged, stored), f"ranged read {given!r}")
    check(len(h.events) == 1 and h.events[0][0] == "ranged" and same(h.events[0][1], stored)
          and same(h.events[0][2]["ranged"], stored), f"ranged hook {given!r}")
for bad in ["x", None, [1]]:
    before = h.option_values["ranged"]
    try:
        h.ranged = bad
    except TypeError:
        pass
    else:
        check(False, f"ranged must reject {bad!r} with TypeError")
    check(h.option_values["ranged"] == before, "failed set must not store")

# ranged wins over bool coercion and over inversion on set; inversion still applies on get
for given, stored in [(5, 1), (-5, 0), (1, 1), (0, 0), (True, 1), (False, 0)]:
    h.ranged1 = given
    check(same(h.option_values["ranged1"], stored), f"ranged1 stored {given!r}")
    check(same(h.ranged1, stored), f"ranged1 read {given!r}")
    h.ranged_inv = given
    check(same(h.option_values["ranged_inv"], stored), f"ranged_inv stored {given!r}")
    check(same(h.ranged_inv, not stored), f"ranged_inv read {given!r}")

# only one end declared: not a range -> falls back to size rule
for given in [-3, 0, 1, 9]:
    h.only_min = given
    check(same(h.option_values["only_min"], bool(given)), f"only_min {given!r}")
    h.only_max = given
    check(same(h.option_values["only_max"], given), f"only_max {given!r}")

# exclusivity and hook order
h = Host()
h.ex_b = True
check(h.option_values == {"ex_b": True, "ex_a": False}, "ex_b=True clears ex_a")
check([(e[0], e[1]) for e in h.events] == [("ex_b", True), ("ex_a", False)], "hook order b,a")
check(h.events[0][2] == {"ex_b": True}, "own hook runs before others are cleared")
check(h.events[1][2] == {"ex_b": True, "ex_a": False}, "other hook sees cleared value")
h.events.clear()
h.ex_a = 1
check(h.option_values == {"ex_a": True, "ex_b": False, "ex_c": False}, "ex_a clears b and c")
check(list(h.option_values) == ["ex_b", "ex_a", "ex_c"], "insertion order of stored values")
check([(e[0], e[1]) for e in h.events] == [("ex_a", True), ("ex_b", False)], "hook order a,b (c has none)")
h.ex_c = True
h.ex_b = True
h.events.clear()
h.ex_b = False  # turning OFF still clears the others
check(h.option_values == {"ex_a": False, "ex_b": False, "ex_c": True}, "ex_b=False still clears ex_a only")
check([(e[0], e[1]) for e in h.events] == [("ex_b", False), ("ex_a", False)], "hooks on off")
check(not (h.ex_a and h.ex_b), "never both on")

# hooks get stored (not logical) value; non-callable hook attribute ignored
h = Host()
h.hooked = True
check(h.events == [("hooked", False, {"hooked": False})], "hook gets stored inverted value")
check(h.hooked is True, "hooked reads logical")
h.nothook = 3
check(h.nothook is True, "non-callable hook attr ignored")

# ---------------------------------------------------------------- real modules
CLASSES = [m.MetaModule, m.MultiSynth, m.AnalogGenerator, m.Sampler, m.Sound2Ctl]
total = 0
for cls in CLASSES:
    mod = cls()
    for name, opt in cls.options.items():
        total += 1
        check(name == opt.name, "option key == name")
        dflt = getattr(mod, name)
        check(dflt == opt.default, f"{cls.__name__}.{name} default")
        if opt.size == 1 and opt.min is None:
            check(type(dflt) is bool, f"{cls.__name__}.{name} default is bool")
            check(mod.option_values[name] is ((not opt.default) if opt.inverted else bool(opt.default)),
                  f"{cls.__name__}.{name} stored default")
    # every representable value through the API
    for name, opt in cls.options.items():
        for v in range(2 ** opt.size):
            setattr(mod, name, v)
            got = getattr(mod, name)
            if opt.min is not None and opt.max is not None:
                check(got == max(opt.min, min(opt.max, v)), f"{cls.__name__}.{name} clamp {v}")
            elif opt.size == 1:
                check(got is bool(v), f"{cls.__name__}.{name}={v}")
                check(mod.option_values[name] is (bool(v) != opt.inverted), f"{cls.__name__}.{name} stored")
            else:
                check(got == v, f"{cls.__name__}.{name}={v}")
            for other in opt.exclusive_of:
                check(getattr(mod, other) is False, f"{cls.__name__}.{name} clears {other}")
check(total == 49, f"49 options expected, got {total}")

mm = m.MetaModule()
for given, want in [(-1, 0), (0, 0), (17, 17), (96, 96), (97, 96), (200, 96), (255, 96)]:
    mm.user_defined_controllers = given
    check(mm.user_defined_controllers == want, f"udc clamp {given}")
mm.event_output = False
check(mm.option_values["event_output"] is True and mm.event_output is False, "event_output inverted")
mm.receive_notes_from_keyboard = True
mm.do_not_receive_notes_from_keyboard = True
check(mm.receive_notes_from_keyboard is False and mm.do_not_receive_notes_from_keyboard is True, "mm exclusive")
mm.receive_notes_from_keyboard = True
check(mm.do_not_receive_notes_from_keyboard is False, "mm exclusive 2")

ag = m.AnalogGenerator(smooth_frequency_change=False, retain_phase=1)
check(ag.smooth_frequency_change is False and ag.option_values["smooth_frequency_change"] is True, "ag ctor inverted")
check(ag.retain_phase is True, "ag ctor kw")

ms = m.MultiSynth(round_note_x=True, round_pitch_y=True)
check(not (ms.round_note_x and ms.round_pitch_y), "ms exclusive via ctor")

# random assignments survive a full write/read
rng = random.Random(11)
for cls in CLASSES:
    for _ in range(6):
        mod = cls()
        for name, opt in cls.options.items():
            setattr(mod, name, rng.randrange(2 ** opt.size))
        want = {name: getattr(mod, name) for name in cls.options}
        f = io.BytesIO()
        Synth(mod).write_to(f)
        f.seek(0)
        back = read_sunvox_file(f).module
        for name, opt in cls.options.items():
            w = want[name]
            if opt.size > 1:
                w &= 2 ** opt.size - 1
            check(getattr(back, name) == w, f"{cls.__name__}.{name} roundtrip {w!r} != {getattr(back, name)!r}")

if failures:
    print("FAIL")
    for f_ in failures[:40]:
        print(" -", f_)
    sys.exit(1)
print("PASS")
