"""C13-3 behaviour check: genrv.tools.generate (enumname, resolve_object_name,
generate, main).

Run from the repository root:
    PYTHONPATH=<root>/src/python /venv/bin/python check.py
"""
import contextlib
import io
import itertools
import logging
import pathlib
import random
import sys
import tempfile
import types

import yaml

import rv.modules
from genrv.tools import generate as G

ROOT = pathlib.Path.cwd()
failures = []


def check(cond, msg):
    if not cond:
        failures.append(msg)
        print("FAIL:", msg)


def reference_enumname(ekey):
    """Step-by-step description of the mangling, independent of the library."""
    for src, dst in (("/", "_div_"), ("*", "_mul_"), (".", "_"), ("+", "_plus_"),
                     ("-", "_neg_"), ("^", "_pow_")):
        ekey = dst.join(ekey.split(src))
    head = ekey[0]
    if head.isdigit():
        ekey = "_" + ekey
    elif head == "_":
        ekey = ekey[1:]
    out = []
    for ch in ekey:
        if ch == "_" and out and out[-1] == "_":
            continue
        out.append(ch)
    return "".join(out).lower()


def raises(fn, *args):
    try:
        fn(*args)
    except BaseException as e:  # noqa
        return type(e)
    return None


def check_enumname():
    table = {
        "off": "off", "Hz/64": "hz_div_64", "Hz*0.02": "hz_mul_0_02", "Hz*0.05": "hz_mul_0_05",
        "overtones1+": "overtones1_plus_", "-exp1": "neg_exp1", "saw^3": "saw_pow_3",
        "44100Hz": "_44100hz", "0": "_0", "2x": "_2x", "line/128": "line_div_128",
        "sec/16384": "sec_div_16384", "frequency_Hz": "frequency_hz", "_x": "x",
        "__x": "_x", "___x": "_x", "_": "", "__": "_", "a__b___c": "a_b_c", "a_/b": "a_div_b",
        "/": "div_", ".": "", "..": "_", "...a": "_a", "1.5": "_1_5", ".5": "5", "-1": "neg_1",
        "+": "plus_", "a+-b": "a_plus_neg_b", "^^": "pow_pow_", "A.B": "a_b", "ÀB": "àb",
        "٣x": "_٣x", "²": "_²", "a b": "a b", "x_": "x_", "x__": "x_",
        "_9": "9", "9_": "_9_", "*_*": "mul_mul_",
    }
    for k, v in table.items():
        check(G.enumname(k) == v, f"enumname({k!r}) = {G.enumname(k)!r}, want {v!r}")
        check(reference_enumname(k) == v, f"reference disagrees on {k!r}")
    # exhaustive over short strings of the interesting alphabet, then random long ones
    alphabet = "/*.+-^_aZ7 "
    n = 0
    for size in (1, 2, 3, 4):
        for tup in itertools.product(alphabet, repeat=size):
            s = "".join(tup)
            n += 1
            if G.enumname(s) != reference_enumname(s):
                check(False, f"enumname({s!r}) = {G.enumname(s)!r} != {reference_enumname(s)!r}")
                break
    rnd = random.Random(13)
    for _ in range(20000):
        s = "".join(rnd.choice(alphabet + "_/.") for _ in range(rnd.randint(1, 24)))
        if G.enumname(s) != reference_enumname(s):
            check(False, f"enumname({s!r}) mismatch")
            break
    check(n == 11 + 121 + 1331 + 14641, "exhaustive count")
    # every key / default in the real spec, against the generated enum classes
    spec = yaml.safe_load((ROOT / "specs" / "fileformat.yaml").read_text())
    by_type = {c.mtype: c for c in rv.modules.MODULE_CLASSES.values()}
    members = 0
    for name, m in spec["module_types"].items():
        cls = by_type[m.get("type") or name]
        for ename, e in (m.get("enums") or {}).items():
            ecls = getattr(cls, ename)
            got = {mem.name: mem.value for mem in ecls}
            want = {G.enumname(k): v for k, v in e.items()}
            check(len(want) == len(e), f"{name}.{ename}: mangled names collide")
            check(got == want and list(got) == list(want), f"{name}.{ename} members")
            check(all(k.isidentifier() for k in want), f"{name}.{ename} identifiers")
            members += len(e)
        for ctl in m.get("controllers") or []:
            for cname, cdef in ctl.items():
                if "enum" in cdef and "default" in cdef:
                    c = cls.controllers["in_" if cname == "in" else cname]
                    check(c.default is getattr(cls, cdef["enum"])[G.enumname(cdef["default"])],
                          f"{name}.{cname} enum default")
                for k in cdef.get("ranges") or {}:
                    check(G.enumname(k) == reference_enumname(k), f"range key {k!r}")
    check(members > 300, f"spec enum members checked: {members}")
    # error types
    check(raises(G.enumname, "") is IndexError, "empty -> IndexError")
    check(raises(G.enumname, None) is AttributeError, "None -> AttributeError")
    check(raises(G.enumname, 5) is AttributeError, "int -> AttributeError")
    check(raises(G.enumname, False) is AttributeError, "bool (yaml off/on) -> AttributeError")
    check(raises(G.enumname, b"a/b") is TypeError, "bytes -> TypeError")

    class S(str):
        pass

    check(G.enumname(S("A/b")) == "a_div_b" and type(G.enumname(S("A/b"))) is str, "str subclass")
    check(G.enumname.__annotations__ == {"ekey": str, "return": str}, "signature")


def check_resolve():
    import collections
    import os

    from genrv.codegen.python.gen import PythonGenerator

    r = G.resolve_object_name
    check(r("genrv.codegen.python.gen:PythonGenerator") is PythonGenerator, "resolve generator")
    check(r("os:path.join") is os.path.join, "dotted attr")
    check(r("os.path:join") is os.path.join, "dotted module")
    check(r("collections:OrderedDict.fromkeys.__self__") is collections.OrderedDict, "deep chain")
    check(raises(r, "nocolon") is ValueError, "no colon")
    check(raises(r, "a:b:c") is ValueError, "two colons")
    check(raises(r, "c13_no_such_module_xyz:a") is ModuleNotFoundError, "missing module")
    check(raises(r, "os:nope") is AttributeError, "missing attr")
    check(raises(r, "os:path..join") is AttributeError, "empty part")
    check(raises(r, "os:") is AttributeError, "empty attr")
    check(raises(r, ":x") is ValueError, "empty module name")
    check(raises(r, None) is AttributeError, "None")


class Recorder:
    calls = []

    def __init__(self, **options):
        self.options = options

    def run(self, env):
        Recorder.calls.append((self.options, env))

    def __repr__(self):
        return "<Recorder>"


def check_generate_and_main():
    fake = types.ModuleType("c13_fake_gen")
    fake.Recorder = Recorder
    fake.ns = types.SimpleNamespace(Inner=Recorder)
    sys.modules["c13_fake_gen"] = fake

    marker = object()
    records = []
    handler = logging.Handler()
    handler.emit = records.append
    G.log.addHandler(handler)
    G.log.setLevel(logging.DEBUG)
    try:
        check(G.generate(marker, "c13_fake_gen:Recorder", a=1, b="x") is None, "generate returns None")
    finally:
        G.log.removeHandler(handler)
    check(Recorder.calls[-1] == ({"a": 1, "b": "x"}, marker), "generate passes env/options")
    check([r.getMessage() for r in records] == ["Running codegen <Recorder>"], "generate log line")
    check(raises(G.generate, marker, "c13_fake_gen:Nope") is AttributeError, "generate bad name")
    check(raises(lambda: G.generate(marker)) is TypeError, "generate needs generator")

    # main(): two configs, the second one the real Python generator into a temp dir
    tmp = pathlib.Path(tempfile.mkdtemp(prefix="c13main"))
    dest = tmp / "out"
    cfg = tmp / "cfg.yaml"
    cfg.write_text(yaml.safe_dump([
        {"generator": "c13_fake_gen:ns.Inner", "spec_base": "S", "dest_base": "D", "extra": [1, 2]},
        {"generator": "genrv.codegen.python.gen:PythonGenerator",
         "spec_base": str(ROOT / "specs"), "dest_base": str(dest)},
    ]))
    Recorder.calls.clear()
    argv, stderr = sys.argv, sys.stderr
    sys.argv, sys.stderr = ["generate", "--config", str(cfg)], io.StringIO()
    out = io.StringIO()
    try:
        with contextlib.redirect_stdout(out):
            rc = G.main()
        logged = sys.stderr.getvalue()
    finally:
        sys.argv, sys.stderr = argv, stderr
    check(rc == 0, "main returns 0")
    check(len(Recorder.calls) == 1, "fake generator ran once")
    options, env = Recorder.calls[0]
    check(options == {"spec_base": "S", "dest_base": "D", "extra": [1, 2]}, "config keys become options")
    check("Generating code with c13_fake_gen:ns.Inner..." in logged, "main log line 1")
    check("Generating code with genrv.codegen.python.gen:PythonGenerator..." in logged, "main log line 2")
    check(logged.index("c13_fake_gen") < logged.index("PythonGenerator..."), "configs in file order")
    check(logging.getLogger("genrv").level == logging.DEBUG, "genrv logger at DEBUG")
    import jinja2
    from stringcase import camelcase, pascalcase

    check(type(env) is jinja2.Environment and type(env.loader) is jinja2.PrefixLoader, "env type")
    check(sorted(env.loader.mapping) == ["python", "ts"], "loader prefixes")
    for prefix, loader in env.loader.mapping.items():
        want = str(pathlib.Path(G.genrv.__file__).parent / "codegen" / prefix)
        check(type(loader) is jinja2.FileSystemLoader and [str(p) for p in loader.searchpath] == [want],
              f"{prefix} search path")
    default_filters = set(jinja2.Environment().filters)
    check(set(env.filters) - default_filters == {"camelcase", "enumname", "hex", "pascalcase", "repr"},
          "extra filters")
    check(env.filters["enumname"] is G.enumname and env.filters["hex"] is hex and env.filters["repr"] is repr
          and env.filters["camelcase"] is camelcase and env.filters["pascalcase"] is pascalcase, "filter objects")
    check(env.autoescape is False and env.trim_blocks is False and env.lstrip_blocks is False, "env defaults")
    check(env.get_template("python/base_module.py.jinja2") is not None, "python template loads")
    check(env.from_string("{{ 'Hz/64' | enumname }} {{ 73 | hex }} {{ 'a' | repr }}").render() == "hz_div_64 0x49 'a'",
          "filters usable")
    # real generator through main reproduces the checked-in files
    checked_in = ROOT / "src" / "python" / "rv" / "modules" / "base"
    produced = sorted(p.name for p in (dest / "modules" / "base").iterdir())
    check(len(produced) == 43, f"main produced {len(produced)} files")
    for name in produced:
        check((dest / "modules" / "base" / name).read_text() == (checked_in / name).read_text(),
              f"main(): {name} differs from checked-in file")

    # argument / file errors
    def run_main(args):
        argv, stderr = sys.argv, sys.stderr
        sys.argv, sys.stderr = ["generate"] + args, io.StringIO()
        try:
            with contextlib.redirect_stdout(io.StringIO()):
                return G.main()
        finally:
            sys.argv, sys.stderr = argv, stderr

    check(raises(run_main, []) is SystemExit, "missing --config exits")
    check(raises(run_main, ["--config", str(tmp / "missing.yaml")]) is FileNotFoundError, "missing file")
    empty = tmp / "empty.yaml"
    empty.write_text("")
    check(raises(run_main, ["--config", str(empty)]) is TypeError, "empty config -> TypeError (None not iterable)")
    lst = tmp / "nogen.yaml"
    lst.write_text("- {spec_base: a}\n")
    check(raises(run_main, ["--config", str(lst)]) is KeyError, "config without generator -> KeyError")
    ok = tmp / "none.yaml"
    ok.write_text("[]\n")
    check(run_main(["--config", str(ok)]) == 0, "empty list ok")
    p = G.arg_parser()
    check(p.description == "Radiant Voices code generator tool" == G.DESCRIPTION, "description")
    check(p.parse_args(["--config", "x"]).config == "x", "arg parser")
    del sys.modules["c13_fake_gen"]


def main():
    check_enumname()
    check_resolve()
    check_generate_and_main()
    if failures:
        print(f"{len(failures)} check(s) failed")
        return 1
    print("PASS")
    return 0


if __name__ == "__main__":
    sys.exit(main())
