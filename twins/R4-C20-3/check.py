"""Behaviour check for MultiCtl.macro, MultiCtl.Mapping and MappingArray (C20).

Runs the macro helper against every controller of every module type and
compares the created MultiCtl (gain, mapping records, links) and any error with
an independent model; checks the 16-destination and one-per-module limits and
their precedence relative to other errors; checks the mapping record
(de)serialisation; and pins a digest of everything observed.
"""
import hashlib
import io
import struct
import sys
from enum import Enum

from rv.api import Project, m, read_sunvox_file
from rv.controller import CompactRange, Controller
from rv.errors import MappingError
from rv.modules import MODULE_CLASSES
from rv.modules.multictl import MultiCtl

DIGEST = hashlib.sha256()
FAILURES = []
FIELDS = ("min", "max", "controller", "flags", "future_use2", "future_use3",
          "future_use4", "future_use5")


def note(*items):
    DIGEST.update(repr(items).encode())


def fields(mapping):
    assert sorted(vars(mapping)) == sorted(FIELDS), vars(mapping)
    return tuple(getattr(mapping, f) for f in FIELDS)


def model_window_gain(t):
    if isinstance(t, type) and issubclass(t, Enum):
        return 0, len(t) - 1, 256 + int(256 / (len(t) - 1))
    if t is bool:
        return 0, 1, 512
    if t.min == 1:
        return t.min, t.max, 256 + int(256 / t.max)
    if isinstance(t, CompactRange):
        return 0, t.max - t.min, 256
    return 0, 0x8000, 256


def outcome(fn):
    try:
        return ("ok", fn())
    except Exception as exc:  # noqa: BLE001
        return ("err", type(exc).__name__, str(exc))


def describe(mc):
    return (
        mc.gain,
        list(mc.out_links),
        [fields(x) for x in mc.mappings.values],
        mc.name, mc.layer, mc.x, mc.y, mc.value,
    )


def check_every_controller():
    names = sorted(MODULE_CLASSES)
    assert len(names) > 30, names
    total = 0
    for mtype in names:
        cls = MODULE_CLASSES[mtype]
        if cls is m.Output:
            continue
        probe = Project().new_module(cls)
        for ctl_name, ctl in probe.controllers.items():
            for by_object in (False, True):
                project = Project()
                filler = project.new_module(m.Amplifier)
                mod = project.new_module(cls)
                arg = mod.controllers[ctl_name] if by_object else ctl_name
                expect = outcome(
                    lambda: model_window_gain(ctl.instance_value_type(mod))
                )
                got = outcome(lambda: MultiCtl.macro(project, (mod, arg)))
                total += 1
                if expect[0] == "err":
                    if got[:2] != expect[:2]:
                        FAILURES.append((mtype, ctl_name, got, expect))
                    note(mtype, ctl_name, got)
                    continue
                if got[0] != "ok":
                    FAILURES.append((mtype, ctl_name, got, expect))
                    continue
                mc = got[1]
                lo, hi, gain = expect[1]
                want_first = (lo, hi, ctl.number, 0, 0, 0, 0, 0)
                desc = describe(mc)
                note(mtype, ctl_name, by_object, desc)
                ok = (
                    type(mc) is MultiCtl
                    and mc.parent is project
                    and project.modules[mc.index] is mc
                    and mc.gain == gain
                    and mc.out_links == [mod.index]
                    and mod.in_links == [mc.index]
                    and filler.in_links == []
                    and len(mc.mappings.values) == 16
                    and fields(mc.mappings.values[0]) == want_first
                    and all(fields(x) == (0, 0x8000, 0, 0, 0, 0, 0, 0)
                            for x in mc.mappings.values[1:])
                    and mc.value == 0
                    and ctl.number >= 1
                    and list(mod.controllers.values())[ctl.number - 1] is ctl
                )
                if not ok:
                    FAILURES.append((mtype, ctl_name, desc, expect))
    assert total > 400, total


def check_limits_and_precedence():
    project = Project()
    amps = [project.new_module(m.Amplifier) for _ in range(18)]
    # exactly 16 is fine, 17 is refused before anything else is looked at
    mc = MultiCtl.macro(project, *[(a, "volume") for a in amps[:16]])
    assert mc.out_links == [a.index for a in amps[:16]]
    assert [x.controller for x in mc.mappings.values] == [1] * 16
    n_before = len(project.modules)
    for count in (17, 18):
        got = outcome(lambda: MultiCtl.macro(
            project, *[(a, "no_such_controller") for a in amps[:count]]))
        assert got == ("err", "MappingError",
                       "MultiCtl supports max of 16 destinations"), got
    try:
        MultiCtl.macro(project, *[(a, "volume") for a in amps[:17]])
    except MappingError as exc:
        assert isinstance(exc, ValueError)
    assert len(project.modules) == n_before
    # two controllers on one module
    got = outcome(lambda: MultiCtl.macro(
        project, (amps[0], "volume"), (amps[1], "volume"), (amps[0], "balance")))
    assert got == ("err", "MappingError",
                   "Only one MultiCtl mapping per destination module allowed"), got
    assert len(project.modules) == n_before
    assert amps[0].in_links == [mc.index]
    # ... but a bad controller name anywhere wins over the duplicate check
    got = outcome(lambda: MultiCtl.macro(
        project, (amps[0], "volume"), (amps[0], "balance"), (amps[1], "nope")))
    assert got[:2] == ("err", "KeyError"), got
    # errors are raised in pair order
    loose = m.Amplifier()
    got = outcome(lambda: MultiCtl.macro(
        project, (loose, "volume"), (amps[1], "nope")))
    note("loose-first", got)
    got2 = outcome(lambda: MultiCtl.macro(
        project, (amps[1], "nope"), (loose, "volume")))
    note("nope-first", got2)
    assert got[0] == got2[0] == "err" and got2[1] == "KeyError", (got, got2)
    assert got[1] != "KeyError", got
    # malformed pairs
    got = outcome(lambda: MultiCtl.macro(project, (amps[0],)))
    assert got[:2] == ("err", "ValueError"), got
    # a module of another project resolves by index in the given project
    other = Project()
    other.new_module(m.Amplifier)
    foreign = other.new_module(m.Filter)
    mc2 = MultiCtl.macro(project, (foreign, "freq"))
    assert mc2.out_links == [foreign.index]
    note("foreign", describe(mc2))
    # no pairs at all
    empty = MultiCtl.macro(project)
    assert empty.gain == 256 and empty.out_links == []
    note("empty", describe(empty))


def check_gain_selection_and_kwargs():
    project = Project()
    a1 = project.new_module(m.Amplifier)
    a2 = project.new_module(m.Amplifier)
    gen = project.new_module(m.AnalogGenerator)
    gen2 = project.new_module(m.AnalogGenerator)
    lfo = project.new_module(m.Lfo)
    ms = project.new_module(m.MultiSynth)
    cases = {
        "two-bool": [(a1, "inverse"), (a2, "absolute")],
        "bool+range": [(a1, "inverse"), (a2, "volume")],
        "two-enum-same": [(gen, "waveform"), (gen2, "waveform")],
        "enum+enum-diff": [(gen, "waveform"), (lfo, "waveform")],
        "compact+range": [(ms, "transpose"), (a1, "volume")],
        "min1": [(gen, "polyphony_ch")] if "polyphony_ch" in gen.controllers
        else [(a1, "gain")],
        "dependent": [(lfo, "freq")],
        "mixed": [(a1, "balance"), (gen, "waveform"), (ms, "transpose"),
                  (lfo, "generator"), (a2, a2.controllers["fine_volume"])],
    }
    for label, pairs in cases.items():
        mc = MultiCtl.macro(project, *pairs)
        wants = []
        for mod, ctl in pairs:
            ctl = ctl if isinstance(ctl, Controller) else mod.controllers[ctl]
            wants.append(model_window_gain(ctl.instance_value_type(mod)))
        gains = {g for _, _, g in wants}
        want_gain = gains.pop() if len(gains) == 1 else 256
        assert mc.gain == want_gain, (label, mc.gain, want_gain)
        assert mc.out_links == [mod.index for mod, _ in pairs], label
        for i, ((mod, ctl), (lo, hi, _)) in enumerate(zip(pairs, wants)):
            ctl = ctl if isinstance(ctl, Controller) else mod.controllers[ctl]
            assert fields(mc.mappings.values[i]) == (lo, hi, ctl.number,
                                                     0, 0, 0, 0, 0), (label, i)
        note(label, describe(mc))
    assert MultiCtl.macro(project, (a1, "inverse"), (a2, "absolute")).gain == 512
    assert MultiCtl.macro(project, (a1, "inverse"), (a2, "volume")).gain == 256

    mc = MultiCtl.macro(project, (a1, "volume"), (ms, "transpose"),
                        name="macro!", layer=3, x=11, y=-22, initial=16384)
    assert (mc.name, mc.layer, mc.x, mc.y, mc.value) == ("macro!", 3, 11, -22, 16384)
    assert a1.volume == 512, a1.volume
    note("kwargs", describe(mc), a1.volume, ms.transpose)
    a1.volume = 3
    mc0 = MultiCtl.macro(project, (a1, "volume"), initial=0)
    assert a1.volume == 0 and mc0.value == 0
    a1.volume = 3
    MultiCtl.macro(project, (a1, "volume"))
    assert a1.volume == 3  # no initial value: target untouched
    # every input value stays in range and is monotone through a macro
    mc = MultiCtl.macro(project, (a2, "stereo_width"))
    seen = []
    for value in range(0, 32769, 13):
        mc.value = value
        seen.append(a2.stereo_width)
    mc.value = 32768
    seen.append(a2.stereo_width)
    assert seen[0] == 0 and seen[-1] == 256, (seen[0], seen[-1])
    assert all(a <= b for a, b in zip(seen, seen[1:]))
    note("sweep", seen)


def check_mapping_records():
    Mapping = MultiCtl.Mapping
    mp = Mapping((1, 2, 3, 4, 5, 6, 7, 8))
    assert fields(mp) == (1, 2, 3, 4, 5, 6, 7, 8)
    assert fields(Mapping([9, 8, 7, 6, 5, 4, 3, 2, 1, 0])) == (9, 8, 7, 6, 5, 4, 3, 2)
    assert fields(Mapping(range(100, 120))) == tuple(range(100, 108))
    for bad in [(1, 2, 3), (), (1, 2, 3, 4, 5, 6, 7)]:
        got = outcome(lambda: Mapping(bad))
        assert got[:2] == ("err", "ValueError"), got
    got = outcome(lambda: Mapping(5))
    assert got[:2] == ("err", "TypeError"), got
    got = outcome(lambda: MultiCtl(mappings=[(0, 32768, 1)]))
    assert got[:2] == ("err", "ValueError"), got

    arr = MultiCtl.MappingArray()
    assert arr.python_type is Mapping
    assert len(arr.values) == 16
    assert len({id(x) for x in arr.values}) == 16  # independent default records
    assert all(fields(x) == (0, 32768, 0, 0, 0, 0, 0, 0) for x in arr.values)
    assert fields(arr.default(3)) == (0, 32768, 0, 0, 0, 0, 0, 0)
    assert arr.default(0) is not arr.default(0)
    assert arr.encoded_values == [0, 32768, 0, 0, 0, 0, 0, 0] * 16
    assert isinstance(arr.encoded_values, list)
    arr.values[2] = Mapping((10, 20, 30, 1, 41, 42, 43, 44))
    arr.values[15].max = 77
    enc = arr.encoded_values
    assert enc[16:24] == [10, 20, 30, 1, 41, 42, 43, 44] and enc[-7] == 77
    raw = arr.bytes
    assert raw == struct.pack("<128I", *enc) and len(raw) == 512
    note("bytes", hashlib.md5(raw).hexdigest())
    back = MultiCtl.MappingArray()
    back.bytes = raw
    assert [fields(x) for x in back.values] == [fields(x) for x in arr.values]
    back.bytes = raw[:64]
    assert len(back.values) == 2
    del arr.values[3].future_use4
    got = outcome(lambda: arr.encoded_values)
    assert got[:2] == ("err", "AttributeError"), got

    # whole-project round trip keeps macro-built mappings
    project = Project()
    amp = project.new_module(m.Amplifier)
    ms = project.new_module(m.MultiSynth)
    gen = project.new_module(m.AnalogGenerator)
    mc = MultiCtl.macro(project, (amp, "balance"), (ms, "transpose"),
                        (gen, "waveform"), initial=20000)
    buf = io.BytesIO()
    project.write_to(buf)
    buf.seek(0)
    loaded = read_sunvox_file(buf)
    mc2 = loaded.modules[mc.index]
    assert type(mc2) is MultiCtl
    assert [fields(x) for x in mc2.mappings.values] == \
        [fields(x) for x in mc.mappings.values]
    assert (mc2.gain, mc2.value, mc2.out_links) == (mc.gain, 20000, mc.out_links)
    assert mc2.curve.values == mc.curve.values
    note("roundtrip", describe(mc2), loaded.modules[amp.index].balance,
         loaded.modules[ms.index].transpose)


def main():
    check_every_controller()
    check_limits_and_precedence()
    check_gain_selection_and_kwargs()
    check_mapping_records()
    pinned = "f78df528717ec2a631927c7833ec56e1780d2798ec7f399ea04a4a4eded431ff"
    if DIGEST.hexdigest() != pinned:
        FAILURES.append(("digest", DIGEST.hexdigest()))
    if FAILURES:
        print("FAIL", FAILURES[:8])
        sys.exit(1)
    print("PASS")


if __name__ == "__main__":
    main()
