"""Behaviour check for Pattern.data / Pattern.clear / Pattern.raw_data.

Passes on the unchanged tree and with the refactoring applied.
"""
import struct
import sys

from rv.api import NOTE, NOTECMD, Note, Pattern, Project

CHECKS = 0


def ok(cond, msg):
    global CHECKS
    CHECKS += 1
    if not cond:
        print("FAIL:", msg)
        sys.exit(1)


def cell_bytes(i):
    return struct.pack(
        "<BBHHH", (i % 120) + 1, i % 130, (i * 7) % 0x10000, (i * 13) % 0x10000,
        (i * 31) % 0x10000,
    )


def shapes():
    for lines in (1, 2, 3, 5):
        for tracks in (1, 2, 4):
            yield lines, tracks


def check_lazy_data_and_clear():
    for lines, tracks in shapes():
        for project in (None, Project()):
            p = Pattern(lines=lines, tracks=tracks)
            if project is not None:
                project.attach_pattern(p)
            ok("_data" not in vars(p), "data must be created lazily")
            d = p.data
            ok("_data" in vars(p), "data created on first access")
            ok(p.data is d, "data is stable between accesses")
            ok(len(d) == lines and all(len(r) == tracks for r in d), "shape")
            ok(all(type(r) is list for r in d), "rows are lists")
            flat = [n for r in d for n in r]
            ok(len({id(n) for n in flat}) == lines * tracks, "distinct notes")
            ok(len({id(r) for r in d}) == lines, "distinct rows")
            ok(all(n.pattern is p for n in flat), "fresh notes owned")
            ok(all(n.is_empty() and n.module == 0 for n in flat), "fresh empty")
            ok(all(n == Note(pattern=p) for n in flat), "fresh notes default")
            ok(p.raw_data == b"\0" * (8 * lines * tracks), "blank raw data")
            if project is not None:
                ok(all(n.project is project for n in flat), "project reachable")
                ok(all(n.mod is None for n in flat), "mod is None for module 0")
            # clear() replaces everything
            d[0][0].note = NOTE.C4
            old_first = d[0][0]
            ret = p.clear()
            ok(ret is None, "clear returns None")
            ok(p.data is not d, "clear installs new grid")
            ok(p.data[0][0] is not old_first, "clear installs new notes")
            ok(old_first.note == NOTE.C4, "old note untouched by clear")
            ok(p.raw_data == b"\0" * (8 * lines * tracks), "cleared raw")
            ok(all(n.pattern is p for r in p.data for n in r), "owned after clear")


def check_clear_uses_current_shape():
    p = Pattern(lines=2, tracks=2)
    p.data
    p.lines = 3
    p.tracks = 1
    p.clear()
    ok([len(r) for r in p.data] == [1, 1, 1], "clear uses current lines/tracks")
    q = Pattern(lines=2, tracks=2)
    q.lines = 0
    ok(q.data == [] and q.raw_data == b"", "zero lines gives empty grid")
    q = Pattern(lines=2, tracks=2)
    q.tracks = 0
    ok(q.data == [[], []] and q.raw_data == b"", "zero tracks gives empty rows")


def check_clear_bad_shape():
    p = Pattern(lines=2, tracks=2)
    p.data[0][0].note = NOTE.C4
    p.lines = "x"
    try:
        p.clear()
    except TypeError:
        pass
    else:
        ok(False, "TypeError expected for non-int lines")
    ok(p._data == [], "failed clear (lines) leaves reset grid")
    p = Pattern(lines=2, tracks=2)
    p.tracks = None
    try:
        p.data
    except TypeError:
        pass
    else:
        ok(False, "TypeError expected for non-int tracks")
    ok(p._data == [[]], "failed clear (tracks) leaves first empty row")


def check_raw_roundtrip():
    for lines, tracks in shapes():
        n = lines * tracks
        blob = b"".join(cell_bytes(i + 1) for i in range(n))
        p = Pattern(lines=lines, tracks=tracks)
        before = [[id(x) for x in r] for r in p.data]
        p.raw_data = blob
        ok(p.raw_data == blob, "raw roundtrip")
        ok([[id(x) for x in r] for r in p.data] == before, "setter edits in place")
        for line in range(lines):
            for track in range(tracks):
                i = line * tracks + track
                note = p.data[line][track]
                ok(note.raw_data == blob[8 * i : 8 * i + 8], "cell position")
                ok(note.pattern is p, "still owned")
        # lazily-created data through the setter
        q = Pattern(lines=lines, tracks=tracks)
        q.raw_data = blob
        ok(q.raw_data == blob, "setter creates data")
        # extra trailing bytes are ignored
        r = Pattern(lines=lines, tracks=tracks)
        r.raw_data = blob + b"\xff" * 11
        ok(r.raw_data == blob, "trailing bytes ignored")
        # bytearray / memoryview input
        r = Pattern(lines=lines, tracks=tracks)
        r.raw_data = bytearray(blob)
        ok(r.raw_data == blob, "bytearray input")
        r = Pattern(lines=lines, tracks=tracks)
        r.raw_data = memoryview(blob)
        ok(r.raw_data == blob, "memoryview input")


def check_raw_short_input():
    for lines, tracks in shapes():
        n = lines * tracks
        blob = b"".join(cell_bytes(i + 1) for i in range(n))
        for cut in sorted({0, 3, 8, 8 * n - 8, 8 * n - 1}):
            if cut >= 8 * n:
                continue
            p = Pattern(lines=lines, tracks=tracks)
            try:
                p.raw_data = blob[:cut]
            except struct.error:
                pass
            else:
                ok(False, "struct.error expected for short data")
            full = cut // 8
            want = blob[: 8 * full] + b"\0" * (8 * (n - full))
            ok(p.raw_data == want, "cells before the short one are written")


def check_raw_after_bulk_edit():
    def fn(pattern, line, track):
        return Note(note=NOTE.C4, vel=line + 1, module=track + 1, ctl=line, val=track)

    for lines, tracks in shapes():
        for project in (None, Project()):
            p = Pattern(lines=lines, tracks=tracks)
            if project is not None:
                project.attach_pattern(p)
            ok(p.set_via_fn(fn) is p, "set_via_fn returns self")
            want = b"".join(
                fn(p, l, t).raw_data for l in range(lines) for t in range(tracks)
            )
            ok(p.raw_data == want, "raw after set_via_fn")
            ok(all(n.pattern is p for r in p.data for n in r), "owned after fn")

            def gen(pattern, new):
                yield lines - 1, tracks - 1, Note(note=NOTECMD.NOTE_OFF)

            ok(p.set_via_gen(gen) is p, "set_via_gen returns self")
            want = want[:-8] + Note(note=NOTECMD.NOTE_OFF).raw_data
            ok(p.raw_data == want, "raw after set_via_gen")
            ok(all(n.pattern is p for r in p.data for n in r), "owned after gen")

            class Boom(Exception):
                pass

            def bad(pattern, line, track):
                if (line, track) == (lines - 1, tracks - 1):
                    raise Boom
                return Note()

            snapshot = p.data
            try:
                p.set_via_fn(bad)
            except Boom:
                pass
            else:
                ok(False, "Boom expected")
            ok(p.data is snapshot and p.raw_data == want, "failed edit keeps data")
            p.clear()
            ok(p.raw_data == b"\0" * len(want), "clear after edits")


def check_project_roundtrip():
    from io import BytesIO

    from rv.api import read_sunvox_file

    project = Project()
    p = Pattern(lines=4, tracks=3)
    project.attach_pattern(p)
    blob = b"".join(cell_bytes(i + 5) for i in range(12))
    p.raw_data = blob
    f = BytesIO()
    project.write_to(f)
    f.seek(0)
    again = read_sunvox_file(f)
    q = again.patterns[0]
    ok(q.raw_data == blob, "file roundtrip keeps note data")
    ok(all(n.pattern is q for r in q.data for n in r), "loaded notes owned")
    ok(dict(p.iff_chunks())[b"PDTA"] == blob, "PDTA chunk")


def check_tabular_repr():
    p = Pattern(lines=3, tracks=2)
    p.data[0][0].note = NOTE.C4
    p.data[2][0].note = NOTECMD.NOTE_OFF
    text = p.tabular_repr()
    ok(text.splitlines()[1].startswith("00 | C4"), "tabular repr first line")
    ok(len(text.splitlines()) == 4, "tabular repr line count")


check_lazy_data_and_clear()
check_clear_uses_current_shape()
check_clear_bad_shape()
check_raw_roundtrip()
check_raw_short_input()
check_raw_after_bulk_edit()
check_project_roundtrip()
check_tabular_repr()
print("PASS (%d checks)" % CHECKS)
