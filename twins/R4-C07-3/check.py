"""Behaviour check for Project.connect() and the >>, <<, ~ operator sugar.

Runs the real library against a small independent model of the four link
tables and compares every table of every module after every operation.
Must print PASS on the unchanged tree and on the refactored tree.
"""
import itertools
import random
import sys
from io import BytesIO

from rv.api import Project, m, read_sunvox_file
from rv.errors import ModuleOwnershipError
from rv.modules.module import DisconnectingModule, Module, ModuleList

TABLES = ("in_links", "in_link_slots", "out_links", "out_link_slots")


class Model:
    """Reference model of the documented connect() semantics."""

    def __init__(self, n):
        self.t = {i: {name: [] for name in TABLES} for i in range(n)}

    def apply(self, frm, to, disconnect):
        il, ils = self.t[to]["in_links"], self.t[to]["in_link_slots"]
        ol, ols = self.t[frm]["out_links"], self.t[frm]["out_link_slots"]
        if disconnect:
            if frm not in il:
                return
            i, o = il.index(frm), ol.index(to)
            il[i] = ils[i] = ol[o] = ols[o] = -1
        elif frm not in il:
            il.append(frm)
            ol.append(to)
            ils.append(len(ol) - 1)
            ols.append(len(il) - 1)

    def edges(self):
        return {
            (f, to) for to, t in self.t.items() for f in t["in_links"] if f >= 0
        }


def tables(project):
    return {
        mod.index: {name: list(getattr(mod, name)) for name in TABLES}
        for mod in project.modules
        if mod is not None
    }


def check_consistent(project):
    mods = project.modules
    for mod in mods:
        assert len(mod.in_links) == len(mod.in_link_slots)
        assert len(mod.out_links) == len(mod.out_link_slots)
        live = [x for x in mod.in_links if x >= 0]
        assert len(live) == len(set(live)), "duplicate incoming link"
        for slot, (peer, peer_slot) in enumerate(zip(mod.in_links, mod.in_link_slots)):
            if peer < 0:
                assert peer_slot == -1
                continue
            assert mods[peer].out_links[peer_slot] == mod.index
            assert mods[peer].out_link_slots[peer_slot] == slot
        for slot, (peer, peer_slot) in enumerate(
            zip(mod.out_links, mod.out_link_slots)
        ):
            if peer < 0:
                assert peer_slot == -1
                continue
            assert mods[peer].in_links[peer_slot] == mod.index
            assert mods[peer].in_link_slots[peer_slot] == slot


def new_project(n):
    p = Project()
    for _ in range(n):
        p.new_module(m.Amplifier)
    return p


def operand(project, spec):
    """spec: int index, ("~", index) or list of those."""
    if isinstance(spec, list):
        return [operand(project, s) for s in spec]
    if isinstance(spec, tuple):
        return ~project.modules[spec[1]]
    return project.modules[spec]


def flat(spec):
    specs = spec if isinstance(spec, list) else [spec]
    return [(s[1], True) if isinstance(s, tuple) else (s, False) for s in specs]


def model_apply(model, from_spec, to_spec):
    for f, fd in flat(from_spec):
        for t, td in flat(to_spec):
            model.apply(f, t, fd or td)


def do_op(project, how, from_spec, to_spec):
    frm, to = operand(project, from_spec), operand(project, to_spec)
    if how == "call":
        assert project.connect(frm, to) is None
    elif how == ">>":
        left = ModuleList(project, frm) if isinstance(frm, list) else frm
        result = left >> to
        check_result(project, result, to)
    else:
        left = ModuleList(project, to) if isinstance(to, list) else to
        result = left << frm
        check_result(project, result, frm)


def check_result(project, result, right):
    if isinstance(right, list):
        assert type(result) is ModuleList
        assert result.parent is project
        assert list(result) == right and result is not right
    else:
        assert result is right


def usable(how, from_spec, to_spec):
    # the left operand of an operator cannot be a ~module (no operator defined)
    if how == ">>":
        return not isinstance(from_spec, tuple)
    if how == "<<":
        return not isinstance(to_spec, tuple)
    return True


def exhaustive():
    n = 3  # Output + 2 amplifiers
    ops = [
        (f, t, d)
        for f in range(n)
        for t in range(n)
        for d in (False, True)
    ]
    count = 0
    for length in (1, 2, 3):
        for seq in itertools.product(ops, repeat=length):
            p, model = new_project(n - 1), Model(n)
            for f, t, d in seq:
                # alternate where the "~" sits
                if d and (f + t) % 2:
                    p.connect(~p.modules[f], p.modules[t])
                elif d:
                    p.connect(p.modules[f], ~p.modules[t])
                else:
                    p.connect(p.modules[f], p.modules[t])
                model.apply(f, t, d)
                assert tables(p) == model.t, (seq, tables(p), model.t)
            check_consistent(p)
            count += 1
    return count


def random_spec(rng, n, allow_list=True):
    def single():
        i = rng.randrange(n)
        return ("~", i) if rng.random() < 0.35 else i

    if allow_list and rng.random() < 0.5:
        return [single() for _ in range(rng.randrange(0, 4))]
    return single()


def randomized(seed, rounds=250):
    rng = random.Random(seed)
    for _ in range(rounds):
        n = rng.randrange(2, 7)
        p, model = new_project(n - 1), Model(n)
        for _ in range(rng.randrange(1, 25)):
            how = rng.choice(["call", ">>", "<<"])
            from_spec, to_spec = random_spec(rng, n), random_spec(rng, n)
            if not usable(how, from_spec, to_spec):
                how = "call"
            do_op(p, how, from_spec, to_spec)
            model_apply(model, from_spec, to_spec)
            assert tables(p) == model.t, (how, from_spec, to_spec)
            check_consistent(p)
        assert model.edges() == {
            (f, mod.index) for mod in p.modules for f in mod.in_links if f >= 0
        }
        # live links survive a write/read round trip
        buf = BytesIO()
        p.write_to(buf)
        buf.seek(0)
        q = read_sunvox_file(buf)
        assert model.edges() == {
            (f, mod.index) for mod in q.modules for f in mod.in_links if f >= 0
        }


def expect(exc, fn):
    try:
        fn()
    except exc as e:
        return e
    except BaseException as e:  # pragma: no cover
        raise AssertionError(f"expected {exc.__name__}, got {e!r}")
    raise AssertionError(f"expected {exc.__name__}, nothing raised")


def edge_cases():
    p = new_project(4)
    out, a, b, c, d = p.modules
    other = new_project(2)
    x = other.modules[1]

    # foreign modules are refused, from either side, connect or disconnect
    msg = "Modules must have same parent to be connected or disconnected"
    for fn in (
        lambda: p.connect(a, x),
        lambda: p.connect(x, a),
        lambda: p.connect(a, ~x),
        lambda: p.connect(~x, a),
        lambda: a >> x,
        lambda: a << x,
        lambda: a >> [b, x],
        lambda: ModuleList(p, [a, b]) >> x,
        lambda: p.connect(m.Amplifier(), a),
    ):
        e = expect(ModuleOwnershipError, fn)
        assert str(e) == msg
        assert isinstance(e.__context__, ValueError)
    # ... but pairs before the offending one were already processed
    assert tables(p)[b.index]["in_links"] == [a.index]
    assert tables(other) == Model(3).t
    assert a.out_links == [b.index] and a.out_link_slots == [0]
    # a wrapped wrapper is only unwrapped once and is therefore foreign
    expect(ModuleOwnershipError, lambda: p.connect(DisconnectingModule(~a), b))
    # unattached module: no parent to ask
    expect(AttributeError, lambda: m.Amplifier() >> a)
    # the wrapper has no shift operators of its own
    expect(TypeError, lambda: ~a >> b)
    expect(TypeError, lambda: ~a << b)

    # ~ wrapper
    p = new_project(4)
    out, a, b, c, d = p.modules
    w = ~a
    assert type(w) is DisconnectingModule and w.orig is a and ~w is a
    assert vars(w) == {"orig": a}
    assert w.in_links is a.in_links and w.index == a.index and w.name == a.name
    w.x = 77
    assert a.x == 77 and "x" not in vars(w)
    expect(AttributeError, lambda: w.no_such_attribute)

    # empty operands are no-ops, whatever is on the other side
    before = tables(p)
    p.connect([], [a, x])
    p.connect([a, x], [])
    p.connect((), ())
    assert (a >> []) == [] and type(a >> []) is ModuleList
    assert tables(p) == before

    # non-list iterables: tuples work, a generator on the right is consumed
    # by the first left operand only
    p.connect((a, b), (c, d))
    assert c.in_links == [a.index, b.index] and d.in_links == [a.index, b.index]
    p.connect([~a, ~b], (mod for mod in (c, d)))
    assert c.in_links == [-1, b.index] and d.in_links == [-1, b.index]
    p.connect((mod for mod in (~b,)), [c, ~d, c])
    assert c.in_links == [-1, -1] and d.in_links == [-1, -1]
    assert b.out_links == [-1, -1] and b.out_link_slots == [-1, -1]
    check_consistent(p)

    # freed slots are never reused; reconnecting appends
    p.connect(a, c)
    assert c.in_links == [-1, -1, a.index] and c.in_link_slots == [-1, -1, 2]
    assert a.out_links == [-1, -1, c.index]
    assert a.out_link_slots == [-1, -1, 2]
    # early exit inside a list: one pair already connected, the rest still done
    p.connect(a, [c, d, c, out])
    assert d.in_links == [-1, -1, a.index] and out.in_links == [a.index]
    assert a.out_links == [-1, -1, c.index, d.index, out.index]
    # ... and one pair already disconnected
    p.connect(~a, [b, c, b, d])
    assert a.out_links == [-1] * 4 + [out.index]
    assert a.out_link_slots == [-1] * 4 + [0]
    # either operand carrying the ~ is enough, both is the same
    p.connect(~a, ~out)
    assert out.in_links == [-1] and a.out_links == [-1] * 5
    check_consistent(p)

    # self connection is an ordinary pair
    p.connect(b, b)
    assert b.in_links == [b.index] and b.in_link_slots == [2]
    assert b.out_links == [-1, -1, b.index] and b.out_link_slots[2] == 0
    b << ~b
    assert b.in_links == [-1] and b.out_links == [-1] * 3
    check_consistent(p)

    # tables that disagree: the ValueError escapes and nothing is modified
    q = new_project(2)
    _, r, s = q.modules
    r >> s
    r.out_links[0] = 99
    snap = tables(q)
    e = expect(ValueError, lambda: q.connect(r, ~s))
    assert not isinstance(e, ModuleOwnershipError)
    assert tables(q) == snap
    # None placeholders in the module list reach the attribute access
    q.modules.append(None)
    expect(AttributeError, lambda: q.connect(r, [None]))
    expect(AttributeError, lambda: q.connect([None], r))
    assert tables(q) == snap
    # a lone operand that is neither a module nor iterable
    expect(TypeError, lambda: q.connect(r, None))
    expect(TypeError, lambda: q.connect(None, r))
    expect(TypeError, lambda: q.connect(r, 5))
    assert tables(q) == snap

    # chaining shapes from the test-suite, plus operator results
    p2 = new_project(4)
    _, m1, m2, m3, m4 = p2.modules
    assert (m1 << [m2, m3] >> m4) is m4
    res = m1 >> [m2, m3]
    assert type(res) is ModuleList and res.parent is p2
    res2 = res >> [m4]
    assert type(res2) is ModuleList and res2 == [m4]
    res3 = res << [~m1, m4]
    assert type(res3) is ModuleList and res3[1] is m4 and res3[0].orig is m1
    assert m2.in_links == [-1, m4.index] and m3.in_links == [-1, m4.index]
    check_consistent(p2)

    # fresh modules own four distinct empty lists
    fresh = m.Amplifier()
    lists = [getattr(fresh, name) for name in TABLES]
    assert all(v == [] and type(v) is list for v in lists)
    assert len({id(v) for v in lists}) == 4
    assert [k for k in vars(fresh) if "link" in k] == list(TABLES)


def table_details():
    """Slot bookkeeping of connect(): lookups, freed entries, tampered tables."""
    p = new_project(4)
    out, a, b, c, d = p.modules

    # every new link goes to the end of both tables and names the other slot
    p.connect([a, b, c], d)
    p.connect(a, [b, c])
    assert d.in_links == [1, 2, 3] and d.in_link_slots == [0, 0, 0]
    assert a.out_links == [4, 2, 3] and a.out_link_slots == [0, 0, 0]
    assert b.in_links == [1] and b.in_link_slots == [1]
    assert c.in_links == [1] and c.in_link_slots == [2]
    # breaking blanks exactly the four cells of that link
    p.connect(a, ~c)
    assert a.out_links == [4, 2, -1] and a.out_link_slots == [0, 0, -1]
    assert c.in_links == [-1] and c.in_link_slots == [-1]
    assert d.in_links == [1, 2, 3] and b.in_links == [1]
    # breaking again / breaking something never made: nothing moves
    snap = tables(p)
    p.connect(a, ~c)
    p.connect(~d, a)
    p.connect(~out, ~out)
    assert tables(p) == snap
    # making an existing link again: nothing moves, list lengths included
    p.connect([a, b], [d, d])
    assert tables(p) == snap
    # remake after break: appended, the freed cells stay freed
    p.connect(a, c)
    assert a.out_links == [4, 2, -1, 3] and a.out_link_slots == [0, 0, -1, 1]
    assert c.in_links == [-1, 1] and c.in_link_slots == [-1, 3]
    check_consistent(p)
    # mixed make/break in one call, processed pair by pair in order
    p.connect([a, ~b], [c, ~d])
    # a->c already there; a->~d broken; ~b->c not there; ~b->~d broken
    assert a.out_links == [-1, 2, -1, 3] and b.out_links == [-1]
    assert d.in_links == [-1, -1, 3] and d.in_link_slots == [-1, -1, 0]
    check_consistent(p)
    # the same pair made and broken inside one call
    p.connect([b, ~b, b], c)
    assert c.in_links == [-1, 1, -1, 2] and c.in_link_slots == [-1, 3, -1, 2]
    assert b.out_links == [-1, -1, 3] and b.out_link_slots == [-1, -1, 3]
    check_consistent(p)

    # tampered tables: the incoming table alone decides "already linked?"
    q = new_project(2)
    _, r, s = q.modules
    s.in_links.append(r.index)  # claims a link the source does not know
    s.in_link_slots.append(0)
    snap = tables(q)
    q.connect(r, s)  # believed to exist already
    assert tables(q) == snap
    e = expect(ValueError, lambda: q.connect(r, ~s))  # no outgoing entry
    assert type(e) is ValueError
    assert tables(q) == snap
    # stale outgoing entry is not consulted when connecting
    q2 = new_project(2)
    _, r, s = q2.modules
    r.out_links.append(s.index)
    r.out_link_slots.append(5)
    q2.connect(r, s)
    assert r.out_links == [2, 2] and r.out_link_slots == [5, 0]
    assert s.in_links == [1] and s.in_link_slots == [1]
    # duplicates: the first matching slot on each side is the one released
    q2.connect(~r, s)
    assert r.out_links == [-1, 2] and r.out_link_slots == [-1, 0]
    assert s.in_links == [-1] and s.in_link_slots == [-1]
    # short slot table: the IndexError escapes after the first three writes
    q3 = new_project(2)
    _, r, s = q3.modules
    r >> s
    del r.out_link_slots[:]
    expect(IndexError, lambda: q3.connect(r, ~s))
    assert s.in_links == [-1] and s.in_link_slots == [-1] and r.out_links == [-1]

    # link tables of new modules: always four fresh, empty, unshared lists
    for cls in (m.Amplifier, m.Output, m.Generator, m.MetaModule):
        x, y = cls(), cls()
        for name in TABLES:
            assert getattr(x, name) == [] and type(getattr(x, name)) is list
            assert getattr(x, name) is not getattr(y, name)
        assert len({id(getattr(x, name)) for name in TABLES}) == 4
        assert [k for k in vars(x) if k.endswith(("_links", "_link_slots"))] == list(
            TABLES
        )
    # constructor keywords cannot preset them
    z = m.Amplifier(in_links=[1], out_links=[2], in_link_slots=[3])
    assert [getattr(z, name) for name in TABLES] == [[], [], [], []]


def main():
    table_details()
    n = exhaustive()
    for seed in range(6):
        randomized(seed)
    edge_cases()
    print(f"PASS ({n} exhaustive histories + random histories + edge cases)")


if __name__ == "__main__":
    try:
        main()
    except AssertionError:
        import traceback

        traceback.print_exc()
        print("FAIL")
        sys.exit(1)
