"""Behaviour check for C05 refactoring 2.

Touched code (rv/readers/module.py): ModuleReader.process_SLNK / process_SLnK
(shared int32-list helper, trailing -1 trimming), process_SNAM / process_STYP /
process_SMIN (shared NUL-terminated string helper) and process_SEND (CVAL
hand-over split into a "report unsupported" pass and a "set values" pass).

Run from the repository root:
    PYTHONPATH=<root>/src/python python check.py
"""
import hashlib
import io
import logging
import struct
import sys
from enum import Enum
from pathlib import Path

import rv.errors
from rv.controller import Range
from rv.errors import ControllerValueError, override_raise_controller_value_errors
from rv.lib.iff import write_chunk
from rv.modules import MODULE_CLASSES
from rv.modules.amplifier import Amplifier
from rv.modules.delay import Delay
from rv.modules.metamodule import MetaModule
from rv.modules.output import Output
from rv.project import Project
from rv.readers.module import ModuleReader
from rv.readers.reader import read_sunvox_file
from rv.synth import Synth

ROOT = Path(rv.errors.__file__).resolve().parents[3]
FILES = ROOT / "tests" / "files"

FAILURES = []


def check(cond, what):
    if not cond:
        FAILURES.append(what)
        print("FAIL:", what)


class Capture(logging.Handler):
    def __init__(self):
        super().__init__(level=logging.DEBUG)
        self.records = []

    def emit(self, record):
        self.records.append(record)

    def messages(self, level=logging.WARNING):
        return [r.getMessage() for r in self.records if r.levelno >= level]


CAPTURE = Capture()
rv_logger = logging.getLogger("rv")
rv_logger.addHandler(CAPTURE)
rv_logger.setLevel(logging.DEBUG)
rv_logger.propagate = False


def save(obj):
    f = io.BytesIO()
    obj.write_to(f)
    return f.getvalue()


def load(data):
    return read_sunvox_file(io.BytesIO(data))


def snap(o, seen=None):
    """Structural snapshot of the observable state of an object graph."""
    seen = seen if seen is not None else set()
    if o is None or isinstance(o, (bool, int, float, str, bytes)):
        return o
    if isinstance(o, Enum):
        return ("enum", type(o).__name__, o.name)
    if isinstance(o, bytearray):
        return ("bytearray", bytes(o))
    if id(o) in seen:
        return ("cycle", type(o).__name__)
    seen = seen | {id(o)}
    if isinstance(o, (list, tuple)):
        return (type(o).__name__, [snap(x, seen) for x in o])
    if isinstance(o, (set, frozenset)):
        return ("set", sorted(repr(snap(x, seen)) for x in o))
    if isinstance(o, dict):
        items = [(repr(snap(k, seen)), snap(v, seen)) for k, v in o.items()]
        factory = getattr(o, "default_factory", None)
        if factory is not None:
            # Entries a defaultdict creates on first access are not state.
            blank = snap(factory())
            items = sorted(item for item in items if item[1] != blank)
        return ("dict", items)
    state = {}
    if hasattr(o, "__dict__"):
        state.update(vars(o))
    for klass in type(o).__mro__:
        for slot in getattr(klass, "__slots__", ()):
            if hasattr(o, slot):
                state[slot] = getattr(o, slot)
    if state:
        return (
            type(o).__name__,
            [(k, snap(v, seen)) for k, v in sorted(state.items())],
        )
    if hasattr(o, "tobytes"):
        return (type(o).__name__, o.tobytes())
    return (type(o).__name__, "opaque")


def iter_iff(data):
    pos = 0
    while pos + 8 <= len(data):
        name = data[pos : pos + 4]
        (size,) = struct.unpack("<I", data[pos + 4 : pos + 8])
        yield name, pos + 8, size
        pos += 8 + size


OUT_OF_RANGE = [300, -1, 40000, 0, -129, 255, 1, 70000, -32769, 2, 1000, -2, 129]


def mutate_cvals(data, variant):
    """Replace top-level CVALs by (mostly out-of-range) values.

    Variants 1 and 2 only touch controllers with a plain numeric range (so the
    file stays loadable); variant 3 overwrites every CVAL, enums included.
    """
    out = bytearray(data)
    numeric = []
    cnum = 0
    for n, (name, start, size) in enumerate(iter_iff(data)):
        if name == b"STYP":
            mtype = data[start : start + size].split(b"\0")[0].decode("utf8")
            ctls = list(MODULE_CLASSES[mtype].controllers.values())
            numeric = [isinstance(c.value_type, Range) for c in ctls]
            cnum = 0
        elif name == b"SEND":
            numeric = []
        elif name == b"CVAL" and size == 4:
            is_numeric = cnum < len(numeric) and numeric[cnum]
            cnum += 1
            if variant == 3 or is_numeric:
                value = OUT_OF_RANGE[(n * 7 + variant * 3) % len(OUT_OF_RANGE)]
                out[start : start + 4] = struct.pack("<i", value)
    return bytes(out)


def cycle(data, n=3):
    """Load/save n times; return the outcome as a list of digest parts."""
    parts = []
    try:
        obj = load(data)
    except Exception as e:  # noqa
        return [b"load-error:" + type(e).__name__.encode()], None
    try:
        before = snap(obj)
        y1 = save(obj)
        after = snap(obj)
        y1b = save(obj)
    except Exception as e:  # noqa
        return [b"save-error:" + type(e).__name__.encode()], None
    check(before == after, "saving changed the observable state")
    check(y1 == y1b, "saving twice gave different bytes")
    parts.append(y1)
    current = y1
    for i in range(n):
        nxt = save(load(current))
        check(nxt == y1, f"drift at cycle {i + 2}")
        current = nxt
    return parts, y1


def corpus_digest():
    h = hashlib.sha256()
    count = 0
    for path in sorted(FILES.rglob("*.sun*")):
        if not path.is_file():
            continue
        data = path.read_bytes()
        for variant in range(4):
            CAPTURE.records.clear()
            payload = data if variant == 0 else mutate_cvals(data, variant)
            parts, _ = cycle(payload)
            h.update(path.name.encode() + b"#%d" % variant)
            for part in parts:
                h.update(hashlib.sha256(part).digest())
            for msg in CAPTURE.messages(logging.DEBUG):
                h.update(msg.encode("utf8", "replace"))
            count += 1
    return h.hexdigest(), count


EXPECTED_CORPUS_DIGEST = "abd8f420206411270c019e71a0c8787a0c2bf7180f83aa68dff58e81ec4d7602"


# ---------------------------------------------------------------- unit checks


def module_chunks(module):
    """(name, data) chunks of a module as stored in a .sunsynth (SFFF..SEND)."""
    out = [c for c in Synth(module).chunks() if c[0] is not None]
    names = [c[0] for c in out]
    return out[names.index(b"SFFF") :]


def stream(chunk_list):
    f = io.BytesIO()
    for name, data in chunk_list:
        write_chunk(f, name, data)
    f.seek(0)
    return f


def with_chunks(chunk_list, extra, before=b"CVAL"):
    """Insert extra chunks before the first chunk named `before`."""
    names = [c[0] for c in chunk_list]
    at = names.index(before)
    return chunk_list[:at] + list(extra) + chunk_list[at:]


def replace_chunk(chunk_list, name, data):
    return [(n, data if n == name else d) for n, d in chunk_list]


def read_module(chunk_list, index=1):
    reader = ModuleReader(stream(chunk_list), index=index)
    return reader.object


def i32(*values):
    return struct.pack("<%di" % len(values), *values)


LINK_CASES = [
    ([], []),
    ([0], [0]),
    ([0, -1], [0]),
    ([-1], []),
    ([-1, -1, -1], []),
    ([-1, 3, -1, -1], [-1, 3]),
    ([2, -1, 3], [2, -1, 3]),
    ([-1, -1, 7], [-1, -1, 7]),
    ([5, 4, 3, 2, 1, 0], [5, 4, 3, 2, 1, 0]),
    ([-2, -1], [-2]),
    ([0, 0, 0], [0, 0, 0]),
    ([2**31 - 1, -(2**31), -1], [2**31 - 1, -(2**31)]),
    (list(range(300)) + [-1] * 40, list(range(300))),
]


def check_links():
    base = module_chunks(Amplifier())
    for tag, attr in ((b"SLNK", "in_links"), (b"SLnK", "in_link_slots")):
        other = "in_link_slots" if attr == "in_links" else "in_links"
        for stored, expected in LINK_CASES:
            mod = read_module(with_chunks(base, [(tag, i32(*stored))]))
            check(getattr(mod, attr) == expected, f"{tag} {stored} -> {expected}")
            check(getattr(mod, other) == [], f"{tag} leaves {other} alone")
            check(type(getattr(mod, attr)) is list, "still a list")
            check(mod.out_links == [] and mod.out_link_slots == [], "out links")
        # the same list object the module was created with is filled in place
        reader = ModuleReader(stream(with_chunks(base, [(tag, i32(4, -1))])), index=1)
        reader.process_chunks()
        check(getattr(reader.object, attr) == [4], "filled")
        # repeated chunks accumulate; trimming looks at the whole list
        for first, second, expected in [
            ([1, -1], [-1, 2], [1, -1, 2]),
            ([1], [-1, -1], [1]),
            ([1, 2], [], [1, 2]),
            ([], [3, -1], [3]),
            ([-1], [-1, 9], [-1, 9]),
            ([6, -1, -1], [-1], [6]),
        ]:
            extra = [(tag, i32(*first)), (tag, i32(*second))]
            mod = read_module(with_chunks(base, extra))
            check(getattr(mod, attr) == expected, f"{tag} x2 {first}+{second}")
        # sizes that are not a multiple of four are rejected by struct
        for size, message in [
            (1, "unpack requires a buffer of 0 bytes"),
            (3, "unpack requires a buffer of 0 bytes"),
            (5, "unpack requires a buffer of 4 bytes"),
            (10, "unpack requires a buffer of 8 bytes"),
        ]:
            try:
                read_module(with_chunks(base, [(tag, b"\xff" * size)]))
            except struct.error as e:
                check(str(e) == message, f"{tag} size {size}: {e}")
            else:
                check(False, f"{tag} size {size} should fail")
    # both together
    extra = [(b"SLNK", i32(0, 2, -1)), (b"SLnK", i32(1, 0, -1, -1))]
    mod = read_module(with_chunks(base, extra))
    check(mod.in_links == [0, 2] and mod.in_link_slots == [1, 0], "SLNK+SLnK")


def check_strings():
    base = module_chunks(Amplifier())
    for raw, expected in [
        (b"abc\0", "abc"),
        (b"abc", "abc"),
        (b"", ""),
        (b"\0", ""),
        (b"\0\0\0", ""),
        (b"ab\0cd\0", "ab"),
        (b"\0hidden", ""),
        ("héllo wörld".encode("utf8") + b"\0" * 5, "héllo wörld"),
        (b"x" * 32, "x" * 32),
    ]:
        mod = read_module(replace_chunk(base, b"SNAM", raw))
        check(mod.name == expected, f"SNAM {raw!r}")
        mod = read_module(with_chunks(base, [(b"SMIN", raw)], before=b"SMIC"))
        check(mod.midi_out_name == expected, f"SMIN {raw!r}")
    mod = read_module(base)
    check(mod.midi_out_name is None, "no SMIN -> None")
    try:
        read_module(replace_chunk(base, b"SNAM", b"\xff\xfe\0"))
    except UnicodeDecodeError:
        pass
    else:
        check(False, "bad utf8 should raise")
    # undecodable bytes after the terminator are ignored
    mod = read_module(replace_chunk(base, b"SNAM", b"ok\0\xff\xfe"))
    check(mod.name == "ok", "garbage after NUL ignored")
    for raw in (b"Amplifier", b"Amplifier\0", b"Amplifier\0junk\0"):
        mod = read_module(replace_chunk(base, b"STYP", raw))
        check(type(mod) is Amplifier and mod.mtype == "Amplifier", f"STYP {raw!r}")
    for raw, key in ((b"NoSuchModule\0", "NoSuchModule"), (b"\0Amplifier", "")):
        try:
            read_module(replace_chunk(base, b"STYP", raw))
        except KeyError as e:
            check(e.args == (key,), f"unknown type KeyError {e.args!r}")
        else:
            check(False, "unknown module type should raise KeyError")
    # flags and name seen before STYP carry over to the typed module
    amp = Amplifier(name="carried")
    mod = read_module(module_chunks(amp))
    check(mod.name == "carried" and mod.flags == amp.flags, "carry over")


def check_cvals():
    amp = Amplifier(volume=7, balance=-5, dc_offset=9, gain=77)
    base = module_chunks(amp)
    names = list(Amplifier.controllers)
    n = len(names)

    def cvals_replaced(values):
        body = [c for c in base if c[0] != b"CVAL"]
        return with_chunks(body, [(b"CVAL", i32(v)) for v in values], before=b"CMID")

    stored = [amp.get_raw(k) for k in names]
    mod = read_module(base)
    check(mod.controller_values == amp.controller_values, "plain round trip")
    check(mod.controllers_loaded == set(names), "controllers_loaded")

    # fewer values than controllers: the rest keep their defaults
    CAPTURE.records.clear()
    mod = read_module(cvals_replaced(stored[:3]))
    fresh = Amplifier()
    for i, k in enumerate(names):
        want = amp.controller_values[k] if i < 3 else fresh.controller_values[k]
        check(mod.controller_values[k] == want, f"short list {k}")
    check(CAPTURE.messages() == [], "short list: no warnings")
    sets = [m for m in CAPTURE.messages(logging.DEBUG) if m.startswith("Setting ")]
    check(
        sets == [f"Setting {names[i]} from raw {stored[i]}" for i in (2, 1, 0)],
        f"short list order {sets}",
    )

    # no values at all
    CAPTURE.records.clear()
    mod = read_module([c for c in base if c[0] not in (b"CVAL", b"CMID")])
    check(mod.controller_values == fresh.controller_values, "no CVAL at all")

    # more values than controllers: extras are reported, highest index first,
    # before any value is applied
    CAPTURE.records.clear()
    mod = read_module(cvals_replaced(stored + [11, -22, 33]))
    check(mod.controller_values == amp.controller_values, "extras ignored")
    relevant = [
        m
        for m in CAPTURE.messages(logging.DEBUG)
        if m.startswith(("Setting ", "Unsupported "))
    ]
    want = [
        f"Unsupported controller at index {n + 2} with raw value 33",
        f"Unsupported controller at index {n + 1} with raw value -22",
        f"Unsupported controller at index {n} with raw value 11",
    ] + [f"Setting {names[i]} from raw {stored[i]}" for i in reversed(range(n))]
    check(relevant == want, f"extras order {relevant}")
    levels = [
        r.levelno for r in CAPTURE.records if r.getMessage().startswith("Unsupp")
    ]
    check(levels == [logging.WARNING] * 3, "extras are warnings")
    check(
        {r.name for r in CAPTURE.records if r.getMessage().startswith("Unsupp")}
        == {"rv.readers.module"},
        "logger name",
    )

    # Output has no controllers at all: every CVAL is unsupported
    out_chunks = [c for c in module_chunks(Output()) if c[0] != b"STYP"]
    CAPTURE.records.clear()
    mod = read_module(
        with_chunks(out_chunks, [(b"CVAL", i32(5)), (b"CVAL", i32(6))], b"SEND"),
        index=0,
    )
    check(type(mod) is Output, "output module")
    check(
        CAPTURE.messages()
        == [
            "Unsupported controller at index 1 with raw value 6",
            "Unsupported controller at index 0 with raw value 5",
        ],
        f"output extras {CAPTURE.messages()}",
    )

    # an out-of-range value raises when the reader is used directly; values of
    # later controllers were applied already, earlier ones were not
    bad = list(stored)
    k = names.index("dc_offset")
    bad[k] = 1000
    CAPTURE.records.clear()
    reader = ModuleReader(stream(cvals_replaced(bad + [1])), index=1)
    try:
        reader.process_chunks()
    except ControllerValueError as e:
        check(
            e.args == ("0(Amplifier).dc_offset=872 is not within [-128, 128]",),
            f"raise message {e.args}",
        )
    else:
        check(False, "out of range value should raise outside read_sunvox_file")
    partial = reader.object
    for i, name in enumerate(names):
        want = amp.controller_values[name] if i > k else fresh.controller_values[name]
        check(partial.controller_values[name] == want, f"partial load {name}")
    check(
        CAPTURE.messages() == [f"Unsupported controller at index {n} with raw value 1"],
        "warning precedes the failure",
    )

    # ... and is kept (with a warning) when errors are downgraded
    CAPTURE.records.clear()
    with override_raise_controller_value_errors(False):
        mod = read_module(cvals_replaced(bad))
    check(mod.dc_offset == 872 and mod.get_raw("dc_offset") == 1000, "kept value")
    check(
        CAPTURE.messages() == ["0(Amplifier).dc_offset=872 is not within [-128, 128]"],
        "downgraded warning",
    )

    # dependent ranges need the controlling value first (reverse order)
    d = Delay()
    d.delay_unit = type(d.delay_unit).ms
    d.delay_l = 3000
    d.delay_r = 2500
    CAPTURE.records.clear()
    mod = read_module(module_chunks(d))
    check(mod.delay_l == 3000 and mod.delay_r == 2500, "dependent range load")
    check(mod.delay_unit is d.delay_unit, "delay unit")
    check(CAPTURE.messages() == [], "no warnings for valid dependent value")

    # MetaModule: user defined controllers are appended to the controller keys
    mm = read_sunvox_file(FILES / "metamodule.sunsynth").module
    check(isinstance(mm, MetaModule), "metamodule fixture")
    data = save(Synth(mm))
    again = load(data).module
    check(again.controller_values == mm.controller_values, "metamodule values")
    check(save(Synth(again)) == data, "metamodule stable")


def check_project_links():
    p = Project()
    a = p.new_module(Amplifier, name="a")
    b = p.new_module(Amplifier, name="b")
    c = p.new_module(Amplifier, name="c")
    a >> b >> p.output
    c >> b
    a >> c
    p.connect(~a, b)  # leaves a -1 in b.in_links
    data = save(p)
    q = load(data)
    check(q.modules[2].in_links == [-1, 3], f"interior -1 kept {q.modules[2].in_links}")
    check(save(q) == data, "project with -1 link stable")
    p.connect(~c, b)  # now b.in_links is all -1
    data = save(p)
    q = load(data)
    check(q.modules[2].in_links == [], "all -1 links dropped")
    once = save(q)
    check(save(load(once)) == once, "stable after dropping")


def main():
    check_links()
    check_strings()
    check_cvals()
    check_project_links()
    digest, count = corpus_digest()
    check(count >= 200, f"corpus size {count}")
    check(
        digest == EXPECTED_CORPUS_DIGEST,
        f"corpus digest changed: {digest}",
    )
    if FAILURES:
        print(f"FAIL ({len(FAILURES)} problems)")
        sys.exit(1)
    print("PASS")


if __name__ == "__main__":
    main()
