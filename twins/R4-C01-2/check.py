"""Behaviour check for refactoring C01-2 (standalone; run with PYTHONPATH=<root>/src/python)."""
EXPECTED = "738df484cc7687a59ba6b74dc95e9e1d58e397f91d3959b9d7d84d5045da830b"
import hashlib
import io
import logging
import random
import struct
import sys
from enum import Enum

from rv.api import NOTECMD, Note, Pattern, PatternClone, Project, Synth, m, read_sunvox_file
from rv.controller import Range
from rv.lib.iff import chunks as iff_chunks
from rv.modules import MODULE_CLASSES

logging.disable(logging.CRITICAL)

TRANSCRIPT = []
FAILURES = []


def record(label, value):
    TRANSCRIPT.append("%s=%r" % (label, value))


def expect(cond, label):
    if not cond:
        FAILURES.append(label)


def digest(data):
    return hashlib.sha256(data).hexdigest()[:16]


def plain(value):
    """Reduce a value to something with a stable repr."""
    if isinstance(value, Enum):
        return "%s.%s" % (type(value).__name__, value.name)
    if isinstance(value, (list, tuple)):
        return [plain(v) for v in value]
    if isinstance(value, (set, frozenset)):
        return sorted(plain(v) for v in value)
    if isinstance(value, dict):
        return [(plain(k), plain(v)) for k, v in value.items()]
    if isinstance(value, (bytes, bytearray)):
        return "bytes:%d:%s" % (len(value), digest(bytes(value)))
    if isinstance(value, (int, str, bool, float)) or value is None:
        return value
    return "<%s>" % type(value).__name__


def module_snapshot(mod):
    if mod is None:
        return None
    snap = {
        "cls": type(mod).__name__,
        "mtype": mod.mtype,
        "index": mod.index,
        "name": mod.name,
        "flags": mod.flags,
        "xyz": (mod.x, mod.y, mod.layer),
        "scale": mod.mod_scale,
        "color": tuple(mod.color),
        "vis": int(mod.visualization),
        "fine": (mod.mod_finetune, mod.mod_relative_note),
        "midi": (
            mod.midi_in_always,
            mod.midi_in_channel,
            mod.midi_out_name,
            mod.midi_out_channel,
            mod.midi_out_bank,
            mod.midi_out_program,
        ),
        "ctl": plain(mod.controller_values),
        "opt": plain(mod.option_values),
        "cmid": [
            (name, mod.controller_midi_maps[name].cmid_data.hex())
            for name in mod.controllers
        ],
        "links": (
            list(mod.in_links),
            list(mod.in_link_slots),
            list(mod.out_links),
            list(mod.out_link_slots),
        ),
    }
    return plain(snap)


def pattern_snapshot(pat):
    if pat is None:
        return None
    if isinstance(pat, PatternClone):
        return ("clone", pat.source, pat.flags_PFFF, pat.x, pat.y)
    return (
        "pattern",
        pat.name,
        pat.tracks,
        pat.lines,
        pat.y_size,
        pat.flags_PFLG,
        plain(pat.icon),
        tuple(pat.fg_color),
        tuple(pat.bg_color),
        pat.flags_PFFF,
        pat.x,
        pat.y,
        pat.raw_data.hex(),
    )


PROJECT_FIELDS = [
    "sunvox_version",
    "based_on_version",
    "flags",
    "initial_bpm",
    "initial_tpl",
    "global_volume",
    "name",
    "time_grid",
    "time_grid2",
    "modules_scale",
    "modules_zoom",
    "modules_x_offset",
    "modules_y_offset",
    "modules_layer_mask",
    "modules_current_layer",
    "timeline_position",
    "restart_position",
    "selected_module",
    "selected_generator",
    "current_pattern",
    "current_track",
    "current_line",
]


def project_snapshot(project, skip=()):
    return {
        "fields": [
            (f, plain(getattr(project, f))) for f in PROJECT_FIELDS if f not in skip
        ],
        "sync": (int(project.receive_sync_midi), int(project.receive_sync_other)),
        "modules": [module_snapshot(mod) for mod in project.modules],
        "patterns": [pattern_snapshot(pat) for pat in project.patterns],
    }


def chunk_listing(data):
    return [(name, digest(body)) for name, body in iff_chunks(io.BytesIO(data))]


def random_controller_value(rng, mod, name):
    ctl = mod.controllers[name]
    t = ctl.instance_value_type(mod)
    if isinstance(t, Range):
        return rng.choice([t.min, t.max, rng.randint(t.min, t.max)])
    if isinstance(t, type) and issubclass(t, Enum):
        return rng.choice(list(t))
    if t is bool:
        return rng.choice([True, False])
    if t is int:
        return rng.randint(0, 255)
    return None


def randomize_module(rng, mod):
    for name, ctl in mod.controllers.items():
        if not ctl.attached(mod) or rng.random() < 0.3:
            continue
        value = random_controller_value(rng, mod, name)
        if value is None:
            continue
        try:
            setattr(mod, name, value)
        except Exception as e:  # recorded: must stay the same
            record("ctl-set-error %s.%s" % (mod.mtype, name), type(e).__name__)
    for name, opt in mod.options.items():
        if rng.random() < 0.5:
            try:
                if opt.size == 1:
                    setattr(mod, name, rng.choice([True, False]))
                else:
                    setattr(mod, name, rng.randrange(0, 2**opt.size))
            except Exception as e:
                record("opt-set-error %s.%s" % (mod.mtype, name), type(e).__name__)
    mod.x = rng.randint(-2000, 2000)
    mod.y = rng.randint(-2000, 2000)
    mod.layer = rng.randint(0, 7)
    mod.mod_scale = rng.randint(0, 1024)
    mod.color = (rng.randrange(256), rng.randrange(256), rng.randrange(256))
    mod.mod_finetune = rng.randint(-256, 256)
    mod.mod_relative_note = rng.randint(-64, 64)
    mod.midi_in_always = rng.choice([True, False])
    mod.midi_in_channel = rng.randint(0, 16)
    mod.midi_out_name = rng.choice([None, "", "port", "pört ♫"])
    mod.midi_out_channel = rng.randint(0, 16)
    mod.midi_out_bank = rng.randint(-1, 127)
    mod.midi_out_program = rng.randint(-1, 127)
    mod.visualization = rng.randrange(0, 2**28)
    names = list(mod.controllers)
    for name in rng.sample(names, min(len(names), 2)):
        mm = mod.controller_midi_maps[name]
        mm.channel = rng.randint(0, 16)
        mm.message_type = rng.choice(list(type(mm.message_type)))
        mm.message_parameter = rng.randint(0, 0xFFFF)
        mm.slope = rng.choice(list(type(mm.slope)))


NAMES = [
    "",
    "plain",
    "x" * 32,
    "y" * 33,
    "a" * 31 + "é",
    "a" * 30 + "éz",
    "♫" * 11,
    "\U0001f3b5" * 9,
    "tab\tnewline\n",
    "é" * 16 + "tail",
]

ATTACHABLE = sorted(k for k in MODULE_CLASSES if k != "Output")


def random_pattern(rng):
    tracks = rng.choice([1, 2, 4, 7, 32])
    lines = rng.choice([1, 3, 16, 33])
    pat = Pattern(
        name=rng.choice([None, "", "pat", "pättern"]),
        tracks=tracks,
        lines=lines,
        y_size=rng.randint(1, 64),
        flags_PFLG=rng.randrange(4),
        icon=bytes(rng.randrange(256) for _ in range(32)),
        fg_color=(rng.randrange(256), rng.randrange(256), rng.randrange(256)),
        bg_color=(rng.randrange(256), rng.randrange(256), rng.randrange(256)),
        flags_PFFF=rng.choice([0, 2, 8, 0x10]),
        x=rng.randint(-100, 1000),
        y=rng.randint(-100, 1000),
    )
    notecmds = list(NOTECMD)
    for line in pat.data:
        for note in line:
            if rng.random() < 0.4:
                note.note = rng.choice(notecmds)
                note.vel = rng.randint(0, 129)
                note.module = rng.choice([0, 1, 255, 256, 0xFFFF, rng.randint(0, 0xFFFF)])
                note.ctl = rng.randint(0, 0xFFFF)
                note.val = rng.randint(0, 0xFFFF)
    return pat


def random_project(seed, n_modules=8, types=None):
    rng = random.Random(seed)
    project = Project()
    project.name = rng.choice(["Project", "", "Pröject ♫", "n" * 100])
    project.flags = rng.randrange(2**32)
    project.initial_bpm = rng.randint(1, 16000)
    project.initial_tpl = rng.randint(1, 31)
    project.global_volume = rng.randint(0, 256)
    project.time_grid = rng.randint(1, 64)
    project.time_grid2 = rng.randint(1, 64)
    project.modules_scale = rng.randint(1, 1024)
    project.modules_zoom = rng.randint(1, 1024)
    project.modules_x_offset = rng.randint(-(2**31), 2**31 - 1)
    project.modules_y_offset = rng.randint(-(2**31), 2**31 - 1)
    project.modules_layer_mask = rng.randrange(2**32)
    project.modules_current_layer = rng.randint(0, 7)
    project.timeline_position = rng.choice([0, 0, 5, -3, 2**31 - 1])
    project.restart_position = rng.choice([0, 0, 7, -9, -(2**31)])
    project.selected_module = rng.randint(0, n_modules)
    project.selected_generator = rng.randint(-1, n_modules)
    project.current_pattern = rng.randint(0, 5)
    project.current_track = rng.randint(0, 31)
    project.current_line = rng.randint(0, 31)
    project.receive_sync_midi = rng.randrange(8)
    project.receive_sync_other = rng.randrange(8)
    project.output.name = rng.choice(["Output", "Out", "é" * 20])
    mods = [project.output]
    chosen = types if types is not None else [rng.choice(ATTACHABLE) for _ in range(n_modules)]
    for mtype in chosen:
        if mtype is None:
            project.attach_module(None)
            continue
        mod = MODULE_CLASSES[mtype](name=rng.choice(NAMES + [None]))
        project.attach_module(mod)
        randomize_module(rng, mod)
        mods.append(mod)
    for _ in range(len(mods) * 2):
        a, b = rng.choice(mods), rng.choice(mods)
        if rng.random() < 0.25:
            project.connect(~a, b)
        else:
            project.connect(a, b)
    n_patterns = rng.randint(0, 4)
    for _ in range(n_patterns):
        kind = rng.random()
        if kind < 0.15:
            project.attach_pattern(None)
        elif kind < 0.3 and project.patterns and project.patterns[0] is not None:
            project.attach_pattern(
                PatternClone(source=0, x=rng.randint(0, 99), y=rng.randint(0, 99))
            )
        else:
            project.attach_pattern(random_pattern(rng))
    return project


def save_bytes(project):
    f = io.BytesIO()
    project.write_to(f)
    return f.getvalue()


def roundtrip_outcome(label, project, strict=True):
    """Write, re-read, re-write; record digests and compare snapshots."""
    try:
        data = save_bytes(project)
    except Exception as e:
        record(label + " write-error", type(e).__name__)
        return None
    record(label + " bytes", (len(data), digest(data)))
    record(label + " chunks", chunk_listing(data))
    try:
        loaded = read_sunvox_file(io.BytesIO(data))
    except Exception as e:
        record(label + " read-error", type(e).__name__)
        return None
    before = project_snapshot(project)
    after = project_snapshot(loaded)
    record(label + " loaded", after)
    record(label + " same-as-original", before == after)
    try:
        data2 = save_bytes(loaded)
        record(label + " rewrite", (len(data2), digest(data2), data2 == data))
    except Exception as e:
        record(label + " rewrite-error", type(e).__name__)
    if strict:
        expect(loaded.modules.__len__() <= len(project.modules), label + " module count")
        expect(
            [pattern_snapshot(p) for p in loaded.patterns]
            == [pattern_snapshot(p) for p in project.patterns],
            label + " patterns preserved",
        )
    return loaded


def finish(expected):
    total = hashlib.sha256("\n".join(TRANSCRIPT).encode("utf8")).hexdigest()
    if "--print" in sys.argv:
        print(total)
        if FAILURES:
            print("FAILURES: " + "; ".join(FAILURES), file=sys.stderr)
        if "--dump" in sys.argv:
            print("\n".join(TRANSCRIPT))
        return
    if FAILURES:
        print("FAIL: " + "; ".join(FAILURES))
        sys.exit(1)
    if total != expected:
        print("FAIL: behaviour transcript digest %s != expected %s" % (total, expected))
        sys.exit(1)
    print("PASS (%d observations)" % len(TRANSCRIPT))


# ---------------------------------------------------------------------------
# C01-2: the readers (Reader / SunVoxReader / ModuleReader / Pattern readers)
# ---------------------------------------------------------------------------
import os
import tempfile
from pathlib import Path

import rv.errors
from rv.lib.iff import write_chunk
from rv.readers.module import ModuleReader
from rv.readers.pattern import PatternCloneReader, PatternReader
from rv.readers.reader import Reader
from rv.readers.sunvox import SunVoxReader

logging.disable(logging.NOTSET)


class Capture(logging.Handler):
    def __init__(self):
        super().__init__(level=logging.DEBUG)
        self.lines = []

    def emit(self, rec):
        self.lines.append("%s %s %s" % (rec.name, rec.levelname, rec.getMessage()))


CAPTURE = Capture()
rv_logger = logging.getLogger("rv")
rv_logger.addHandler(CAPTURE)
rv_logger.setLevel(logging.DEBUG)
rv_logger.propagate = False


def build_file(chunk_list):
    f = io.BytesIO()
    for name, body in chunk_list:
        write_chunk(f, name, body)
    return f.getvalue()


def load_outcome(label, data, snapshot=True):
    """Load bytes, recording the result (or error type) and every log line."""
    del CAPTURE.lines[:]
    try:
        obj = read_sunvox_file(io.BytesIO(data))
    except Exception as e:
        record(label + " load-error", type(e).__name__)
        obj = None
    else:
        if isinstance(obj, Project):
            record(label + " loaded", project_snapshot(obj) if snapshot else "ok")
            record(label + " loaded-version", obj.loaded_sunvox_version)
        elif isinstance(obj, Synth):
            record(label + " synth", module_snapshot(obj.module))
        else:
            record(label + " object", type(obj).__name__)
    record(label + " log", (len(CAPTURE.lines), digest("\n".join(CAPTURE.lines).encode())))
    record(label + " warnings", [l for l in CAPTURE.lines if " WARNING " in l])
    expect(rv.errors.RAISE_CONTROLLER_VALUE_ERRORS is True, label + " override restored")
    return obj


def edit(chunk_list, replace=None, insert_after=None, drop=(), nth=0):
    """Return an edited copy of a chunk list (edits apply to the nth match)."""
    out = []
    seen = {}
    for name, body in chunk_list:
        k = seen.get(name, 0)
        seen[name] = k + 1
        hit = k == nth
        if name in drop and hit:
            continue
        if replace and name in replace and hit:
            body = replace[name]
        out.append((name, body))
        if insert_after and name in insert_after and hit:
            out.extend(insert_after[name])
    return out


def i32s(*values):
    return struct.pack("<%di" % len(values), *values)


def base_project():
    project = Project()
    gen = project.new_module(m.Generator, name="gen")
    amp = project.new_module(m.Amplifier, name="amp")
    echo = project.new_module(m.Echo, name="echo")
    gen >> amp >> project.output
    gen >> echo >> project.output
    pat = Pattern(tracks=2, lines=3, name="p")
    pat.data[0][0].module = 0x1234
    pat.data[2][1].module = 0x00FF
    pat.data[1][1].module = 0xFF00
    project.attach_pattern(pat)
    project.attach_pattern(PatternClone(source=0, x=4, y=5))
    return project


def check_text_chunks():
    chunks_ = list(base_project().chunks())
    for label, body in [
        ("plain", b"abc\0"),
        ("no-nul", b"abc"),
        ("empty", b""),
        ("only-nul", b"\0"),
        ("two-nul", b"ab\0cd\0"),
        ("leading-nul", b"\0abc"),
        ("utf8", "pröject ♫".encode("utf8") + b"\0"),
        ("bad-utf8", b"\xff\xfe\0"),
        ("bad-after-nul", b"ok\0\xff\xfe"),
    ]:
        obj = load_outcome("NAME " + label, build_file(edit(chunks_, replace={b"NAME": body})), False)
        record("NAME " + label + " value", None if obj is None else obj.name)
        padded = body.ljust(32, b"\0")
        obj = load_outcome(
            "SNAM " + label, build_file(edit(chunks_, replace={b"SNAM": padded}, nth=1)), False
        )
        record("SNAM " + label + " value", None if obj is None else obj.modules[1].name)
        obj = load_outcome(
            "SMIN " + label,
            build_file(edit(chunks_, insert_after={b"SMII": [(b"SMIN", body)]}, nth=2)),
            False,
        )
        record("SMIN " + label + " value", None if obj is None else obj.modules[2].midi_out_name)
        obj = load_outcome("PNME " + label, build_file(edit(chunks_, replace={b"PNME": body})), False)
        record("PNME " + label + " value", None if obj is None else obj.patterns[0].name)
    for body in [b"Amplifier\0", b"Amplifier", b"Amplifier\0junk", b"Nonexistent\0", b"\0", b"MetaModule\0"]:
        load_outcome("STYP %r" % body, build_file(edit(chunks_, replace={b"STYP": body})))


def check_packed_fields():
    chunks_ = list(base_project().chunks())
    for val in [0, 1, 7, 8, 0b101011, 0b111111, 0b1000000, 0xFFFFFFFF, 0x12345678, 0xC9]:
        obj = load_outcome(
            "SFGS %x" % val, build_file(edit(chunks_, replace={b"SFGS": struct.pack("<I", val)})), False
        )
        expect(obj.receive_sync_midi == val & 7, "SFGS midi %x" % val)
        expect(obj.receive_sync_other == (val >> 3) & 7, "SFGS other %x" % val)
        expect(type(obj.receive_sync_midi) is int and type(obj.receive_sync_other) is int, "SFGS types")
    for val in [0, 1, 2, 3, 32, 33, 0xFFFFFFFF, 0xFFFFFFFE, 0x80000001]:
        obj = load_outcome(
            "SMII %x" % val, build_file(edit(chunks_, replace={b"SMII": struct.pack("<I", val)}, nth=1)), False
        )
        mod = obj.modules[1]
        expect(mod.midi_in_always is bool(val & 1), "SMII always %x" % val)
        expect(mod.midi_in_channel == val >> 1 and type(mod.midi_in_channel) is int, "SMII ch %x" % val)
    for bad in [b"", b"\1\2\3", b"\1\2\3\4\5"]:
        load_outcome("SFGS short %r" % bad, build_file(edit(chunks_, replace={b"SFGS": bad})), False)
        load_outcome("SMII short %r" % bad, build_file(edit(chunks_, replace={b"SMII": bad})), False)


def check_link_tables():
    project = base_project()
    chunks_ = list(project.chunks())
    # nth SLNK: 0=output, 1=gen, 2=amp, 3=echo
    cases = [
        ("trailing -1", 0, i32s(2, 3, -1, -1), None),
        ("all -1", 0, i32s(-1, -1), None),
        ("inner -1", 0, i32s(2, -1, 3), None),
        ("inner -1 + slots", 0, i32s(2, -1, 3), i32s(0, -1, 0)),
        ("slots trailing -1", 0, i32s(2, 3), i32s(0, 0, -1, -1)),
        ("slots big", 0, i32s(2, 3), i32s(3, 1)),
        ("slots too few", 0, i32s(2, 3), i32s(0)),
        ("slots all -1", 0, i32s(2, 3), i32s(-1, -1)),
        ("nonexistent", 0, i32s(2, 9), None),
        ("negative", 0, i32s(2, -2), None),
        ("self", 2, i32s(2), None),
        ("dup", 0, i32s(2, 2, 3), None),
        ("misaligned", 0, i32s(2, 3) + b"\1", None),
        ("short", 0, b"\1\2", None),
        ("slots misaligned", 0, i32s(2, 3), b"\1\2\3"),
        ("gen gets input", 1, i32s(3, 0), None),
    ]
    for label, nth, links, slots in cases:
        extra = [(b"SLnK", slots)] if slots is not None else []
        data = build_file(edit(chunks_, replace={b"SLNK": links}, insert_after={b"SLNK": extra}, nth=nth))
        load_outcome("links " + label, data)
    # two SLNK chunks for one module accumulate; empty ones are ignored
    data = build_file(
        edit(chunks_, replace={b"SLNK": i32s(2, -1)}, insert_after={b"SLNK": [(b"SLNK", b""), (b"SLNK", i32s(3, -1))]})
    )
    load_outcome("links twice", data)
    # link to an empty slot
    project = base_project()
    project.attach_module(None)
    lfo = project.new_module(m.Lfo)
    lfo >> project.output
    chunks2 = list(project.chunks())
    load_outcome("with empty slot", build_file(chunks2))
    load_outcome("link to empty slot", build_file(edit(chunks2, replace={b"SLNK": i32s(2, 3, 4)})))
    # trailing empty module slots are dropped, inner ones kept
    load_outcome("trailing SENDs", build_file(chunks2 + [(b"SEND", b"")] * 3))
    only_empty = [c for c in Project().chunks()][:-1]
    cut = [n for n, _ in only_empty].index(b"SFFF")
    load_outcome("no modules at all", build_file(only_empty[:cut] + [(b"SEND", b"")] * 2))
    load_outcome("no modules no sends", build_file(only_empty[:cut]))


def check_cvals():
    project = base_project()
    project.modules[2].volume = 300
    project.modules[2].balance = -5
    chunks_ = list(project.chunks())
    extra = [(b"CVAL", i32s(11)), (b"CVAL", i32s(22)), (b"CVAL", i32s(33))]
    # nth CVAL counts across modules; append surplus after the amp's last CVAL
    names = [n for n, _ in chunks_]
    gen_cvals = len([1 for n, c in m.Generator.controllers.items()])
    amp_cvals = len([1 for n, c in m.Amplifier.controllers.items()])
    last_amp = gen_cvals + amp_cvals - 1
    data = build_file(edit(chunks_, insert_after={b"CVAL": extra}, nth=last_amp))
    obj = load_outcome("surplus cvals", data)
    expect(obj.modules[2].volume == 300 and obj.modules[2].balance == -5, "surplus keeps values")
    # too few CVALs: the rest stay at their defaults
    data = build_file(edit(chunks_, drop={b"CVAL"}, nth=last_amp))
    load_outcome("missing last cval", data)
    # out-of-range raw value is logged, not raised, while reading
    data = build_file(edit(chunks_, replace={b"CVAL": i32s(99999)}, nth=gen_cvals))
    obj = load_outcome("out of range cval", data)
    record("out of range value", plain(obj.modules[2].controller_values))
    data = build_file(edit(chunks_, replace={b"CVAL": b"\1\2"}, nth=gen_cvals))
    load_outcome("short cval", data)
    # CVALs on the output module (no controllers) are all surplus
    data = build_file(edit(chunks_, insert_after={b"SLNK": extra}, nth=0))
    load_outcome("output cvals", data)
    for mtype in ATTACHABLE:
        p = Project()
        mod = p.attach_module(MODULE_CLASSES[mtype]())
        randomize_module(random.Random(mtype), mod)
        data = save_bytes(p)
        listing = list(iff_chunks(io.BytesIO(data)))
        load_outcome("type " + mtype, data)
        if any(n == b"CVAL" for n, _ in listing):
            last = len([1 for n, _ in listing if n == b"CVAL"]) - 1
            load_outcome("type+surplus " + mtype, build_file(edit(listing, insert_after={b"CVAL": extra}, nth=last)))


def check_unknown_and_order():
    chunks_ = list(base_project().chunks())
    data = build_file(edit(chunks_, insert_after={b"NAME": [(b"ZZZZ", b"abc"), (b"PAMD", b"")], b"SNAM": [(b"QQ", b"")]}))
    load_outcome("unknown chunks", data)
    load_outcome("unknown in pattern", build_file(edit(chunks_, insert_after={b"PLIN": [(b"WXYZ", b"1")]})))
    load_outcome("non-utf8 chunk name", build_file(edit(chunks_, insert_after={b"NAME": [(b"\xff\xfeAB", b"")]})))
    load_outcome("truncated", build_file(chunks_)[:-30])
    load_outcome("empty file", b"")
    load_outcome("not iff", b"hello world, this is not a sunvox file")
    load_outcome("magic only", build_file([(b"SVOX", b"")]))
    load_outcome("no BVER", build_file(edit(chunks_, drop={b"BVER"})))
    # legacy version: high byte of the module column is cleared in real patterns only
    for vers in [(1, 9, 4, 9), (1, 9, 5, 0), (1, 9, 5, 1), (0, 0, 0, 0), (2, 1, 2, 1)]:
        body = bytes(reversed(vers))
        obj = load_outcome("VERS %r" % (vers,), build_file(edit(chunks_, replace={b"VERS": body})))
        mods = [n.module for line in obj.patterns[0].data for n in line]
        expect((max(mods) <= 0xFF) == (vers < (1, 9, 5, 0)), "legacy high byte %r" % (vers,))
    proj = base_project()
    proj.attach_pattern(None)
    proj.attach_pattern(Pattern(tracks=1, lines=1))
    legacy = edit(list(proj.chunks()), replace={b"VERS": bytes([0, 0, 9, 1])})
    load_outcome("legacy with empty+clone", build_file(legacy))
    # pattern geometry vs. data length
    load_outcome("PDTA short", build_file(edit(chunks_, replace={b"PDTA": b"\1" * 20})))
    load_outcome("PDTA long", build_file(edit(chunks_, replace={b"PDTA": bytes(range(100))})))
    load_outcome("clone fields", build_file(edit(chunks_, replace={b"PFFF": i32s(9), b"PXXX": i32s(-7), b"PYYY": i32s(-8)}, nth=1)))
    load_outcome("pattern fields", build_file(edit(chunks_, replace={b"PFFF": i32s(0x1A), b"PXXX": i32s(-70), b"PYYY": i32s(80)})))
    expect(PatternReader.process_PXXX is PatternCloneReader.process_PXXX or True, "handlers exist")
    for cls in (PatternReader, PatternCloneReader):
        for name in ("process_PFFF", "process_PXXX", "process_PYYY", "process_PEND", "process_PAMD"):
            expect(callable(getattr(cls, name, None)), "%s.%s" % (cls.__name__, name))
        expect(issubclass(cls, Reader), cls.__name__ + " is a Reader")
    for cls in (SunVoxReader, ModuleReader):
        for name in ("process_SFFF", "process_SEND", "process_PAMD", "process_chunks", "rewind"):
            expect(callable(getattr(cls, name, None)), "%s.%s" % (cls.__name__, name))


def check_file_arguments():
    data = save_bytes(base_project())
    tmpdir = tempfile.mkdtemp()
    path = os.path.join(tmpdir, "x.sunvox")
    with open(path, "wb") as f:
        f.write(data)
    a = read_sunvox_file(path)
    b = read_sunvox_file(Path(path))
    with open(path, "rb") as f:
        c = read_sunvox_file(f)
        expect(not f.closed, "caller's file left open")
    bio = io.BytesIO(data)
    d = read_sunvox_file(bio)
    expect(not bio.closed, "caller's BytesIO left open")
    snaps = [project_snapshot(x) for x in (a, b, c, d)]
    expect(all(s == snaps[0] for s in snaps), "all argument kinds load alike")
    for bad in [os.path.join(tmpdir, "missing.sunvox"), Path(tmpdir)]:
        try:
            read_sunvox_file(bad)
            outcome = "ok"
        except Exception as e:
            outcome = type(e).__name__
        record("bad path", outcome)
        expect(rv.errors.RAISE_CONTROLLER_VALUE_ERRORS is True, "override restored after bad path")
    os.remove(path)
    os.rmdir(tmpdir)
    with open(os.devnull, "rb") as f:
        record("devnull", type(read_sunvox_file(f)).__name__)


def check_fixtures_and_random():
    root = Path("tests/files")
    files = sorted(root.rglob("*.sunvox")) + sorted(root.rglob("*.sunsynth")) if root.is_dir() else []
    record("fixture count", len(files) > 0)
    for path in files:
        load_outcome("fixture " + path.relative_to(root).as_posix(), path.read_bytes())
    for seed in range(100, 125):
        project = random_project(seed, n_modules=6)
        data = save_bytes(project)
        load_outcome("random %d" % seed, data)
        roundtrip_outcome("random-rt %d" % seed, project)


check_text_chunks()
check_packed_fields()
check_link_tables()
check_cvals()
check_unknown_and_order()
check_file_arguments()
check_fixtures_and_random()
finish(EXPECTED)
