"""Behaviour check for MetaModule user-defined controllers/mappings and Pattern data.

Run as: cd <root> && PYTHONPATH=<root>/src/python python check.py
"""
import hashlib
import io
import logging
import struct
import sys
from pathlib import Path

import rv.api
from rv.api import NOTE, NOTECMD, Note, Pattern, Project, m
from rv.errors import ControllerValueError
from rv.modules.metamodule import MAX_USER_DEFINED_CONTROLLERS, UserDefined
from rv.readers.reader import read_sunvox_file
from rv.synth import Synth

logging.disable(logging.CRITICAL)
FAILURES = []
dump = []


def check(cond, msg):
    if not cond:
        FAILURES.append(msg)


def to_bytes(mod):
    f = io.BytesIO()
    Synth(mod).write_to(f)
    return f.getvalue()


def project_bytes(project):
    f = io.BytesIO()
    project.write_to(f)
    return f.getvalue()


def err(fn, *a):
    try:
        return ("ok", fn(*a))
    except Exception as e:
        return ("err", type(e).__name__, str(e))


def mm_state(mm):
    return {
        "ctl": [(k, repr(v)) for k, v in mm.controller_values.items()],
        "attached": [c.attached(mm) for c in mm.user_defined],
        "labels": [c.label for c in mm.user_defined],
        "types": [repr(c.value_type) for c in mm.user_defined],
        "defaults": [repr(c.default) for c in mm.user_defined],
        "numbers": [c.number for c in mm.user_defined],
        "names": [c.name for c in mm.user_defined],
        "aliases": mm.user_defined_aliases,
        "mappings": [(x.module, x.controller) for x in mm.mappings.values],
        "udc": mm.user_defined_controllers,
        "dir_u": sorted(d for d in dir(mm) if d.startswith("u_")),
    }


def build():
    p = Project()
    amp = p.new_module(m.Amplifier)
    gen = p.new_module(m.Generator)
    mm = m.MetaModule(project=p)
    mm.user_defined_controllers = 3
    for i, (mod, ctl) in enumerate([(amp, 0), (amp, 1), (gen, 0)]):
        mm.mappings.values[i].module = mod.index
        mm.mappings.values[i].controller = ctl
    mm.user_defined[0].label = "Amp Volume"
    mm.user_defined[1].label = "9 lives"
    mm.update_user_defined_controllers()
    return p, amp, gen, mm


# -------------------------------------------------------------- construction --
a, b = m.MetaModule(), m.MetaModule()
check(len(a.user_defined) == MAX_USER_DEFINED_CONTROLLERS == 96, "96 controllers")
check(all(type(c) is UserDefined for c in a.user_defined), "types")
check(a.user_defined is not b.user_defined, "user_defined list per instance")
check(not set(map(id, a.user_defined)) & set(map(id, b.user_defined)),
      "UserDefined objects per instance")
check([c.name for c in a.user_defined] == [f"user_defined_{i}" for i in range(1, 97)],
      "names")
check([c.number for c in a.user_defined] == list(range(6, 102)), "numbers")
check(list(a.controllers)[5:] == [c.name for c in a.user_defined], "registry order")
check(a.project is not b.project and a.project.metamodule is a, "own project")
check(a.mappings is not b.mappings and a.mappings.values is not b.mappings.values
      and a.mappings.values[0] is not b.mappings.values[0], "own mappings")
check(len({id(x) for x in a.mappings.values}) == 96, "distinct mapping objects")
check(a.chnk == 104, "chnk")
dump.append(("default", mm_state(a)))
check(mm_state(a) == mm_state(b), "two defaults equal")
ref_state, ref_bytes = mm_state(b), to_bytes(b)
own = Project()
c = m.MetaModule(project=own, name="mm", bpm=200)
check(c.project is own and own.metamodule is c and c.bpm == 200 and c.name == "mm",
      "project kwarg")

# ------------------------------------------------ attach flags and isolation --
p, amp, gen, mm = build()
check([c.attached(mm) for c in mm.user_defined] == [True] * 3 + [False] * 93, "attach 3")
check(mm_state(b) == ref_state and to_bytes(b) == ref_bytes, "attach leaked to B")
check(mm_state(m.MetaModule()) == ref_state, "attach leaked to later instances")
check(to_bytes(m.MetaModule()) == ref_bytes, "fresh bytes changed")
for n in (0, 1, 50, 96, 2):
    mm.user_defined_controllers = n
    check([c.attached(mm) for c in mm.user_defined] == [True] * n + [False] * (96 - n),
          f"attach {n}")
    proxies = list(mm.controllers.values())[5:]
    check([px.attached(mm) for px in proxies] == [True] * n + [False] * (96 - n),
          f"proxy attach {n}")
    check(not any(px.attached(b) for px in proxies), "proxy flag is per instance")
mm.user_defined_controllers = 3
mm.user_defined[5].attach(mm)
mm.recompute_controller_attachment()
check(not mm.user_defined[5].attached(mm), "recompute detaches extras")
mm.user_defined[1].detach(mm)
mm.recompute_controller_attachment()
check(mm.user_defined[1].attached(mm), "recompute re-attaches")

# ------------------------------------------------------- aliases get and set --
check(mm.user_defined_aliases == ["u_amp_volume", "u__9_lives", None], "aliases")
check(mm.user_defined_1 == 256 and mm.u_amp_volume == 256, "alias get")
mm.u_amp_volume = 300
check(amp.volume == 300 and mm.user_defined_1 == 300, "alias set propagates down")
mm.user_defined_2 = 10
check(amp.balance == -118 and mm.u__9_lives == 10, "numbered set")
check("u_amp_volume" not in vars(mm) and "user_defined_2" not in vars(mm), "no shadowing")
amp.volume = 17  # upward notification path (matches on controller *number*)
dump.append(("after-embedded-change", mm_state(mm)["ctl"], amp.volume, amp.balance))
check(mm.user_defined_1 == 300 and amp.volume == 17, "own value kept")
check(err(getattr, mm, "nothing") == ("err", "AttributeError", ""), "unknown attr")
check(err(getattr, mm, "u_missing") == ("err", "AttributeError", ""), "unknown alias")
check(err(getattr, mm, "user_defined_97")[1] == "KeyError", "numbered out of range get")
check(err(setattr, mm, "user_defined_97", 1)[1] == "KeyError", "numbered oor set")
check(err(getattr, mm, "user_defined_1x")[1] == "KeyError", "prefix match quirk")
r = err(setattr, mm, "u_amp_volume", 999999)
check(r == ("err", "ControllerValueError",
            "0(MetaModule).user_defined_1=999999 is not within [0, 1024]"), f"range {r}")
check(mm.user_defined_1 == 300 and "u_amp_volume" not in vars(mm),
      "failed alias set neither stored nor turned into plain attribute")
r = err(setattr, mm, "user_defined_2", -1)
check(r[1] == "ControllerValueError", "numbered set range error")
mm.u_unknown = 5  # not an alias: ordinary attribute
check(vars(mm)["u_unknown"] == 5 and mm.u_unknown == 5, "plain attribute set")
mm.some_attr = [1]
check(mm.some_attr == [1] and not hasattr(b, "some_attr"), "plain attrs per instance")
check(not hasattr(b, "u_amp_volume") and b.user_defined_aliases == [], "B has no aliases")
check(err(getattr, b, "u_amp_volume")[1] == "AttributeError", "alias only on its owner")
check(b.user_defined_1 == 0, "B controller value untouched")
check(sorted(d for d in dir(mm) if d.startswith("u_")) ==
      ["u__9_lives", "u_amp_volume", "u_unknown"], "dir lists aliases")
bare = m.MetaModule.__new__(m.MetaModule)
check(bare.user_defined_aliases == [], "aliases before __init__")
check(err(getattr, bare, "anything")[1] == "AttributeError", "getattr before __init__")
bare.zzz = 1
check(vars(bare) == {"zzz": 1}, "setattr before __init__")
# relabel -> alias follows
mm.user_defined[0].label = "Other"
check(mm.u_other == 300 and err(getattr, mm, "u_amp_volume")[1] == "AttributeError",
      "alias follows label")
mm.user_defined[0].label = "Amp Volume"
# an alias whose slot is beyond the attached ones disappears
mm.user_defined_controllers = 1
check(mm.user_defined_aliases == ["u_amp_volume"], "aliases follow attachment")
check(err(getattr, mm, "u__9_lives")[1] == "AttributeError", "detached alias gone")
mm.user_defined_controllers = 3
dump.append(("built", mm_state(mm)))
check(mm_state(b) == ref_state and to_bytes(b) == ref_bytes, "B unchanged after all")

# --------------------------------------------------- mappings chunk payloads --
ma = mm.mappings
check(ma.encoded_values[:8] == [1, 0, 1, 1, 2, 0, 0, 0] and len(ma.encoded_values) == 192,
      "encoded values")
check(type(ma.encoded_values) is list, "encoded list")
raw = ma.bytes
check(raw == struct.pack("<192H", *ma.encoded_values), "mapping bytes")
other = m.MetaModule.MappingArray()
held = other.values
other.bytes = raw[:10]  # two whole mappings, trailing partial ignored
check([(x.module, x.controller) for x in other.values[:3]] == [(1, 0), (1, 1), (0, 0)],
      "partial load padded")
check(len(other.values) == 96 and len({id(x) for x in other.values}) == 96,
      "padding uses distinct objects")
check(held is not other.values and all(x.module == 0 for x in held), "old list untouched")
other.values[95].module = 9
other2 = m.MetaModule.MappingArray()
other2.bytes = b""
check(all((x.module, x.controller) == (0, 0) for x in other2.values)
      and len(other2.values) == 96, "empty load -> all default")
big = m.MetaModule.MappingArray()
big.bytes = struct.pack("<200H", *range(200))
check(len(big.values) == 100 and big.values[99].controller == 199, "oversized kept")
check(err(lambda: big.bytes)[1] == "error", "oversized cannot be packed")
other.reset()
check(len(other.values) == 96 and other.values[95].module == 0, "reset")

# -------------------------------------------------------- save / load / clone --
data = to_bytes(mm)
dump.append(("mm-bytes", hashlib.sha256(data).hexdigest(), len(data)))
l1 = read_sunvox_file(io.BytesIO(data)).module
l2 = read_sunvox_file(io.BytesIO(data)).module
check(mm_state(l1) == mm_state(l2), "two loads equal")
dump.append(("loaded", mm_state(l1)))
check(l1.user_defined_aliases == ["u_amp_volume", "u__9_lives", None], "aliases loaded")
check(to_bytes(l1) == to_bytes(l2), "loaded bytes equal")
s2, b2 = mm_state(l2), to_bytes(l2)
l1.u_amp_volume = 1000
l1.user_defined_controllers = 10
l1.user_defined[4].label = "New"
l1.mappings.values[4].module = 1
l1.mappings.values[4].controller = 2
l1.project.modules[1].balance = 5
l1.update_user_defined_controllers()
check(mm_state(l2) == s2 and to_bytes(l2) == b2, "loads independent")
check(mm_state(mm)["ctl"] != mm_state(l1)["ctl"], "original independent of load")
cl = mm.clone()
check(cl.user_defined_aliases == mm.user_defined_aliases
      and cl.project.modules[1].volume == 17, "clone state")
dump.append(("clone-initial", mm_state(cl)))
before = mm_state(mm), to_bytes(mm)
cl.u_amp_volume = 1
cl.user_defined[2].label = "Third"
cl.user_defined_controllers = 0
cl.mappings.values[0].module = 2
check((mm_state(mm), to_bytes(mm)) == before, "clone -> original isolation")
cs = mm_state(cl)
mm.u_amp_volume = 2
mm.user_defined_controllers = 5
check(mm_state(cl) == cs, "original -> clone isolation")
dump.append(("clone", cs, mm_state(mm)))

path = Path("tests/files/metamodule.sunsynth")
if path.exists():
    with path.open("rb") as f:
        f1 = read_sunvox_file(f).module
    with path.open("rb") as f:
        f2 = read_sunvox_file(f).module
    check([c.label for c in f1.user_defined][:3] == ["V", "W", None], "file labels")
    check(f1.user_defined_aliases == ["u_v", "u_w"], "file aliases")
    dump.append(("file", mm_state(f1), hashlib.sha256(to_bytes(f1)).hexdigest()))
    ref = to_bytes(f2)
    f1.u_v = f1.controllers["user_defined_1"].instance_value_type(f1).max
    f1.user_defined_controllers = 1
    check(to_bytes(f2) == ref and f2.user_defined_controllers == 2, "file loads isolated")

# ------------------------------------------------------------------- Pattern --
pa, pb = Pattern(), Pattern(tracks=3, lines=5)
check("_data" not in vars(pa), "data is lazy")
check(len(pa.data) == 32 and all(len(r) == 4 for r in pa.data), "default grid")
check(pa.data is pa.data, "data cached")
check(len({id(n) for r in pb.data for n in r}) == 15, "distinct notes")
check(len({id(r) for r in pb.data}) == 5, "distinct rows")
check(all(n.pattern is pb for r in pb.data for n in r), "note back reference")
check(pb.raw_data == b"\0" * (3 * 5 * 8), "empty raw data")
ref_a = pa.raw_data
payload = bytes((i * 7) % 128 if i % 8 in (0, 1) else i % 251 for i in range(3 * 5 * 8))
pb.raw_data = payload
check(pb.raw_data == payload, "raw roundtrip")
n = pb.data[2][1]
check(n.raw_data == payload[(2 * 3 + 1) * 8:(2 * 3 + 1) * 8 + 8], "offset layout")
check(pa.raw_data == ref_a and Pattern().raw_data == ref_a, "pattern isolation")
check(err(setattr, pb, "raw_data", payload[:-1])[1] == "error", "short raw data")
long_ok = Pattern(tracks=1, lines=2)
long_ok.raw_data = bytes(range(1, 17)) + b"ignored"
check(long_ok.raw_data == bytes(range(1, 17)), "extra raw data ignored")
grown = Pattern(tracks=2, lines=2)
grown.data
grown.lines = 3
check(err(setattr, grown, "raw_data", bytes(48))[1] == "IndexError", "grid not resized")
check(len(grown.raw_data) == 32, "raw_data follows the grid")

old_grid = pb.data
old_note = old_grid[0][0]
ret = pb.set_via_fn(lambda pat, line, track: Note(note=NOTE.C4, vel=line + 1,
                                                  module=track + 1))
check(ret is pb and pb.data is not old_grid, "set_via_fn replaces grid")
check(old_grid[0][0] is old_note and old_note.raw_data == payload[:8], "old grid intact")
check(all(n.pattern is pb for r in pb.data for n in r), "adopted notes")
check(pb.data[4][2].vel == 5 and pb.data[4][2].module == 3, "fn values")
keep = pb.data
try:
    pb.set_via_fn(lambda pat, line, track: 1 // (3 - line))
except ZeroDivisionError:
    pass
check(pb.data is keep and keep[0][0].note == NOTE.C4, "failed set_via_fn keeps data")


def gen(pat, new):
    yield 0, 0, Note(note=NOTECMD.NOTE_OFF)
    yield 4, 2, Note(ctl=0x0102, val=0x0304)


shared = Note(note=NOTE.D5)
ret = pb.set_via_gen(gen)
check(ret is pb and pb.data is not keep, "set_via_gen replaces grid")
check(pb.data[0][0].note == NOTECMD.NOTE_OFF and pb.data[4][2].val == 0x0304, "gen")
check(pb.data[1][1].vel == 2 and pb.data[1][1] is not keep[1][1], "other notes copied")
check(all(n.pattern is pb for r in pb.data for n in r), "gen adopted")
check(keep[0][0].note == NOTE.C4, "previous grid untouched by gen")
dump.append(("pb", pb.raw_data.hex(), pb.tabular_repr(), [(k, v.hex()) for k, v in
                                                           pb.iff_chunks()]))
pc = Pattern(tracks=2, lines=2)
pc.set_via_fn(lambda pat, l, t: shared)
check(all(n is shared for r in pc.data for n in r) and shared.pattern is pc, "same note")
pb.clear()
check(pb.raw_data == b"\0" * 120 and pb.data[0][0].pattern is pb, "clear")
pb.tracks = 2
pb.clear()
check(len(pb.data) == 5 and len(pb.data[0]) == 2, "clear uses current shape")
empty = Pattern(tracks=1, lines=1)
empty.lines = 0
empty.clear()
check(empty.data == [] and empty.raw_data == b"", "zero lines")

# patterns inside projects: load twice, mutate one
proj = Project()
first = Pattern(tracks=2, lines=4)
proj.attach_pattern(first)
first.set_via_fn(
    lambda pat, l, t: Note(note=NOTE.C4 if (l + t) % 2 else NOTECMD.EMPTY, vel=l * 10 + t))
proj.attach_pattern(Pattern(tracks=1, lines=2, name="second"))
pdata = project_bytes(proj)
q1 = read_sunvox_file(io.BytesIO(pdata))
q2 = read_sunvox_file(io.BytesIO(pdata))
check(project_bytes(q1) == project_bytes(q2), "project loads equal")
refq = project_bytes(q2)
q1.patterns[0].data[0][0].vel = 99
q1.patterns[1].raw_data = bytes(range(16))
q1.patterns[0].set_via_fn(lambda pat, l, t: Note(vel=1))
check(project_bytes(q2) == refq and project_bytes(proj) == pdata, "project isolation")
dump.append(("proj", hashlib.sha256(pdata).hexdigest(),
             hashlib.sha256(project_bytes(q1)).hexdigest()))

digest = hashlib.sha256(repr(dump).encode()).hexdigest()
EXPECTED = "70d34630c9561f12ce39a576882cd9248e59e121f29abded50f14d8b778d59fd"
if EXPECTED.startswith("@@"):
    print("digest", digest)
else:
    check(digest == EXPECTED, f"behaviour dump digest changed: {digest}")

if FAILURES:
    print("FAIL")
    for f_ in FAILURES:
        print(" -", f_)
    sys.exit(1)
print("PASS")
