"""C16 check 1: Sampler envelope chunk codec, legacy point bytes and NoteSampleMap."""
import hashlib
import io
import logging
import random
import struct

from rv.modules import Chunk
from rv.modules.sampler import Sampler, _StructReader, _StructWriter
from rv.note import NOTE
from rv.readers.reader import read_sunvox_file
from rv.synth import Synth

logging.disable(logging.CRITICAL)

FORMATS = [Sampler.Format.int8, Sampler.Format.int16, Sampler.Format.float32]
CHANNELS = [Sampler.Channels.mono, Sampler.Channels.stereo]
LOOPS = list(Sampler.LoopType)


def sha(b):
    return hashlib.sha256(b).hexdigest()[:16]


def build(seed, with_effect=False):
    rnd = random.Random(seed)
    mod = Sampler()
    slots = sorted(rnd.sample(range(128), rnd.choice([0, 1, 2, 5, 9])))
    if seed % 4 == 1:
        slots = sorted(set(slots) | {0, 127})
    for n, i in enumerate(slots):
        s = mod.samples[i] = Sampler.Sample()
        s.format = FORMATS[(seed + n) % 3]
        s.channels = CHANNELS[(seed + n // 3) % 2]
        frames = rnd.choice([0, 1, 3, 17])
        s.data = bytes(rnd.randrange(256) for _ in range(frames * s.frame_size))
        s.rate = rnd.choice([0, 8000, 44100, 48000, 2**32 - 1])
        s.loop_start = rnd.choice([0, 1, 2**32 - 1])
        s.loop_len = rnd.choice([0, 7, 2**32 - 1])
        s.loop_type = LOOPS[(seed + n) % 3]
        s.loop_sustain = bool(rnd.getrandbits(1))
        s.volume = rnd.choice([0, 64, 255])
        s.finetune = rnd.choice([-128, -1, 0, 100, 127])
        s.panning = rnd.choice([-128, -1, 0, 1, 127])
        s.relative_note = rnd.choice([-128, 0, 16, 127])
        s.reserved2 = rnd.choice([0, 255])
        s.name = rnd.choice([b"", b"x", b"a" * 22, b"name with space", b"\xff\x01z"])
        s.start_pos = rnd.choice([0, 5, 2**32 - 1])
    envs = [mod.volume_envelope, mod.panning_envelope, mod.pitch_envelope]
    envs += mod.effect_control_envelopes
    for env in envs:
        lo, hi = env.range
        count = rnd.choice([0, 1, 2, 4, 12, 13, 40])
        xs = sorted(rnd.randrange(0, 0x10000) for _ in range(count))
        env.points = [(x, rnd.choice([lo, hi, rnd.randrange(lo, hi + 1)])) for x in xs]
        env.enable = bool(rnd.getrandbits(1))
        env.sustain = bool(rnd.getrandbits(1))
        env.loop = bool(rnd.getrandbits(1))
        env.sustain_point = rnd.choice([0, 1, 11, 255])
        env.loop_start_point = rnd.choice([0, 2, 255])
        env.loop_end_point = rnd.choice([0, 3, 255])
        env.ctl_index = rnd.choice([0, 1, 255])
        env.gain_pct = rnd.choice([0, 100, 255])
        env.velocity = rnd.choice([0, 1, 255])
    keys = list(mod.note_samples)
    for k in keys:
        mod.note_samples[k] = rnd.choice([0, 0, 1, 5, 127, 255])
    if seed % 3 == 0:
        mod.note_samples[keys[-1]] = 9  # no trailing zeros
    mod.vibrato_type = list(Sampler.VibratoType)[seed % 3]
    mod.vibrato_attack = rnd.choice([0, 9, 255])
    mod.vibrato_depth = rnd.choice([0, 9, 255])
    mod.vibrato_rate = rnd.choice([0, 9, 63])
    mod.volume_fadeout = rnd.choice([0, 77, 8192])
    mod.instrument_name = rnd.choice([b"", b"ins", b"q" * 30])
    mod.volume_old = rnd.choice([0, 64, 255])
    mod.ins_finetune = rnd.choice([-128, 0, 127])
    mod.ins_relative_note = rnd.choice([-128, 0, 127])
    mod.editor_cursor = rnd.choice([0, -1, 12345, 2**31 - 1, -(2**31)])
    mod.editor_selected_size = rnd.choice([0, -7, 99, 2**31 - 1])
    mod.unused1 = rnd.choice([0, 2**32 - 1])
    mod.unused2 = rnd.choice([0, 0xFFFF])
    mod.unused3 = rnd.choice([0, 0xABCD])
    mod.unused4 = rnd.choice([0, 0xDEADBEEF])
    mod.unused5 = rnd.choice([0, 0xEE])
    mod.unused6 = rnd.choice([0, 0x12345678])
    if with_effect:
        from rv.modules.distortion import Distortion

        mod.effect = Synth(Distortion())
    return mod


def env_state(env):
    return (
        list(env.points),
        env.enable,
        env.sustain,
        env.loop,
        env.sustain_point,
        env.loop_start_point,
        env.loop_end_point,
        env.ctl_index,
        env.gain_pct,
        env.velocity,
        env.loaded,
    )


def sample_state(s):
    if s is None:
        return None
    return (
        s.data,
        s._length,
        s.format,
        s.channels,
        s.rate,
        s.loop_start,
        s.loop_len,
        s.loop_type,
        s.loop_sustain,
        s.volume,
        s.finetune,
        s.panning,
        s.relative_note,
        s.reserved2,
        s.name,
        s.start_pos,
    )


def state(mod):
    return (
        [sample_state(s) for s in mod.samples],
        env_state(mod.volume_envelope),
        env_state(mod.panning_envelope),
        env_state(mod.pitch_envelope),
        [env_state(e) for e in mod.effect_control_envelopes],
        list(mod.note_samples.items()),
        mod.vibrato_type,
        mod.vibrato_attack,
        mod.vibrato_depth,
        mod.vibrato_rate,
        mod.volume_fadeout,
        mod.instrument_name,
        mod.volume_old,
        mod.ins_finetune,
        mod.ins_relative_note,
        mod.editor_cursor,
        mod.editor_selected_size,
        (mod.unused1, mod.unused2, mod.unused3, mod.unused4, mod.unused5, mod.unused6),
        mod.version,
        mod.max_version,
        mod.is_legacy,
        None if mod.legacy_chunks is None else len(mod.legacy_chunks),
        None if mod.effect is None else type(mod.effect.module).__name__,
    )


def chunk_list(mod):
    return list(mod.specialized_iff_chunks())


def mk_chunk(chnm, chdt, chff=0, chfr=44100):
    c = Chunk()
    c.chnm, c.chdt, c.chff, c.chfr = chnm, chdt, chff, chfr
    return c


def raises(exc, fn, *a):
    try:
        fn(*a)
    except exc:
        return True
    except Exception as e:  # pragma: no cover
        raise AssertionError(f"expected {exc}, got {type(e)}: {e}")
    raise AssertionError(f"expected {exc}, nothing raised")


def roundtrip_observations(obs, seeds):
    """Write programmatically built samplers, read them back, pin bytes and state."""
    for seed in seeds:
        mod = build(seed, with_effect=(seed % 5 == 2))
        raw = Synth(mod).read()
        mod2 = read_sunvox_file(io.BytesIO(raw)).module
        obs["rt%d.bytes" % seed] = sha(raw)
        obs["rt%d.state" % seed] = sha(repr(state(mod2)).encode())
        assert Synth(mod2).read() == raw, seed
        clone = mod.clone()
        assert state(clone) == state(mod2), seed
        # the property, field by field
        for i, (a, b) in enumerate(zip(mod.samples, mod2.samples)):
            assert (a is None) == (b is None), (seed, i)
            if a is None:
                continue
            sa, sb = sample_state(a), sample_state(b)
            assert sa[0] == sb[0] and sa[2:] == sb[2:], (seed, i, sa, sb)
            assert b._length == a.frames == b.frames
        env_pairs = [
            (mod.volume_envelope, mod2.volume_envelope),
            (mod.panning_envelope, mod2.panning_envelope),
            (mod.pitch_envelope, mod2.pitch_envelope),
        ] + list(zip(mod.effect_control_envelopes, mod2.effect_control_envelopes))
        for a, b in env_pairs:
            assert env_state(a)[:-1] == env_state(b)[:-1], seed
            assert b.loaded is True
            assert type(a) is type(b) and a.chnm == b.chnm
        fields = "vibrato_type vibrato_attack vibrato_depth vibrato_rate volume_fadeout "
        fields += "volume_old ins_finetune ins_relative_note editor_cursor "
        fields += "editor_selected_size unused1 unused2 unused3 unused4 unused5 unused6"
        for name in fields.split():
            assert getattr(mod, name) == getattr(mod2, name), (seed, name)
        assert mod2.instrument_name == mod.instrument_name[:22]
        assert mod2.is_legacy is False and mod2.legacy_chunks is None
        assert (mod.effect is None) == (mod2.effect is None)
        # note map: trailing zero entries are not overwritten by the 128-byte map
        # but the 96-byte legacy map covers the first 96 notes anyway.
        a, b = list(mod.note_samples.values()), list(mod2.note_samples.values())
        assert len(b) == 119
        stripped = len(bytes(a).rstrip(b"\0"))
        assert b[:max(96, stripped)] == a[:max(96, stripped)], seed
        obs["rt%d.map" % seed] = sha(bytes(b))


def h(obj):
    return sha(repr(obj).encode())


def envelope_observations(obs):
    E = Sampler
    # --- fresh envelopes: exact chunk bytes -------------------------------
    vol = E.VolumeEnvelope()
    assert list(vol.chunks()) == [
        (b"CHNM", b"\x02\x01\0\0"),
        (
            b"CHDT",
            b"\x03\x00\x00\x64\x00\x00\x00\x00"
            b"\x04\x00\x00\x00\x00\x00\x00\x00\x00\x00\x00\x00"
            b"\x00\x00\x00\x80\x08\x00\x00\x00\x80\x00\x00\x00\x00\x01\x00\x00",
        ),
    ]
    pan = E.PanningEnvelope()
    assert list(pan.chunks())[1][1][0x14:] == (
        b"\x00\x00\x00\x40\x40\x00\x00\x20\x80\x00\x00\x60\xb4\x00\x00\x40"
    )
    assert list(E.PitchEnvelope().chunks())[0] == (b"CHNM", b"\x04\x01\0\0")
    for n in (0x105, 0x108):
        ec = E.EffectControlEnvelope(n)
        chnm, chdt = list(ec.chunks())
        assert chnm == (b"CHNM", struct.pack("<I", n))
        assert len(chdt[1]) == 0x14 + 8 and chdt[1][0x08:0x0A] == b"\x02\x00"
    # --- legacy point bytes: 12 slots, y in 0x200 units, offset by range ----
    assert vol.point_bytes == struct.pack(
        "<24H", 0, 64, 8, 0, 0x80, 0, 0x100, 0, *([0] * 16)
    )
    assert pan.point_bytes == struct.pack(
        "<24H", 0, 32, 0x40, 16, 0x80, 48, 0xB4, 32, *([0, 32] * 8)
    )
    assert vol._x_values == [0, 8, 0x80, 0x100] + [0] * 8
    assert vol._y_values == [64, 0, 0, 0] + [0] * 8
    assert pan._y_values == [0, -16, 16, 0] + [0] * 8
    many = E.VolumeEnvelope()
    many.points = [(i, i * 0x200 + 3) for i in range(20)]
    assert many._x_values == list(range(12)) and many._y_values == list(range(12))
    assert len(many.point_bytes) == 48
    many.points = []
    assert many.point_bytes == b"\0" * 48
    assert many._x_values == [0] * 12 and isinstance(many._x_values, list)
    neg = E.VolumeEnvelope()
    neg.points = [(0, -1)]
    raises(struct.error, lambda: neg.point_bytes)
    # --- bitmask both directions -------------------------------------------
    for bits in range(16):
        env = E.PitchEnvelope()
        env.bitmask = bits
        assert (env.enable, env.sustain, env.loop) == (
            bool(bits & 1), bool(bits & 2), bool(bits & 4))
        assert env.bitmask == bits & 7 and type(env.bitmask) is int
    env.enable, env.sustain, env.loop = 1, 0, 1
    assert env.bitmask == 5
    # --- chunks <-> load_chdt over many envelopes --------------------------
    rnd = random.Random(1601)
    acc = []
    classes = [E.VolumeEnvelope, E.PanningEnvelope, E.PitchEnvelope,
               lambda: E.EffectControlEnvelope(0x106)]
    for n in range(60):
        src = classes[n % 4]()
        lo, hi = src.range
        count = rnd.choice([0, 1, 3, 12, 13, 100, 700])
        src.points = [(rnd.randrange(0x10000), rnd.randrange(lo, hi + 1))
                      for _ in range(count)]
        if count:
            src.points[0] = (0xFFFF, hi)
            src.points[-1] = (0, lo)
        src.bitmask = rnd.randrange(8)
        src.ctl_index, src.gain_pct, src.velocity = (rnd.choice([0, 7, 255]) for _ in range(3))
        src.sustain_point, src.loop_start_point, src.loop_end_point = (
            rnd.choice([0, 11, 0xFFFF]) for _ in range(3))
        (k1, v1), (k2, chdt) = src.chunks()
        assert (k1, k2) == (b"CHNM", b"CHDT") and v1 == struct.pack("<I", src.chnm)
        assert len(chdt) == 0x14 + 4 * count and type(chdt) is bytes
        assert chdt[5:8] == b"\0\0\0" and chdt[0x10:0x14] == b"\0\0\0\0"
        dst = classes[n % 4]()
        assert dst.loaded is False
        dst.load_chdt(chdt)
        assert env_state(dst) == env_state(src)[:-1] + (True,)
        assert all(type(p) is tuple for p in dst.points)
        # trailing garbage and reserved bytes are ignored by the loader
        noisy = bytearray(chdt + b"\xaa\xbb\xcc")
        noisy[5:8] = b"\x01\x02\x03"
        noisy[0x10:0x14] = b"\x09\x09\x09\x09"
        dst2 = classes[n % 4]()
        dst2.load_chdt(bytes(noisy))
        assert env_state(dst2) == env_state(dst)
        acc.append((chdt, src.point_bytes))
    obs["env.chunks"] = h(acc)
    # flags above bit 2 are dropped on load
    env = E.VolumeEnvelope()
    env.load_chdt(struct.pack("<HBBB3xHHHH4x", 0xFFF8, 1, 2, 3, 0, 4, 5, 6))
    assert env_state(env) == ([], False, False, False, 4, 5, 6, 1, 2, 3, True)
    # --- failure modes -------------------------------------------------------
    good = list(E.PanningEnvelope().chunks())[1][1]
    for cut in (0, 1, 15):
        env = E.PanningEnvelope()
        before = env_state(env)
        raises(struct.error, env.load_chdt, good[:cut])
        assert env_state(env) == before
    for cut in (16, 19, 20, 23, 27, len(good) - 1):
        env = E.PanningEnvelope()
        raises(struct.error, env.load_chdt, good[:cut])
        assert env.loaded is False
        assert env.points == E.PanningEnvelope.initial_points[: max(0, (cut - 20) // 4)]
        assert env.enable is False and env.gain_pct == 100
    for attr, value in [("gain_pct", 256), ("ctl_index", -1), ("velocity", 999),
                        ("sustain_point", 0x10000), ("loop_end_point", -1)]:
        env = E.VolumeEnvelope()
        setattr(env, attr, value)
        gen = env.chunks()
        assert next(gen) == (b"CHNM", b"\x02\x01\0\0")
        raises(struct.error, next, gen)
    for point in [(0x10000, 0), (-1, 0), (0, -1), (0, 0x10000)]:
        env = E.VolumeEnvelope()
        env.points = [(0, 0), point]
        gen = env.chunks()
        next(gen)
        raises(struct.error, next, gen)
    env = E.PanningEnvelope()
    env.points = [(0, -0x4001)]
    raises(struct.error, list, env.chunks())
    env.points = [(0, 0x4000 + 0xFFFF - 0x4000 - 0x4000 + 0x4000)]  # y - min == 0xFFFF+0x4000
    raises(struct.error, list, env.chunks())
    env.points = [(0, 0xFFFF - 0x4000)]
    assert list(env.chunks())[1][1][0x14:] == b"\x00\x00\xff\xff"


def note_map_observations(obs):
    M = Sampler.NoteSampleMap
    nm = M()
    assert type(nm) is M and isinstance(nm, dict) and len(nm) == 119
    keys = list(nm)
    assert keys[0] is NOTE.C0 and keys[-1] is NOTE.a9
    assert [k.value for k in keys] == list(range(NOTE.C0.value, NOTE.a9.value + 1))
    assert all(type(k) is NOTE for k in keys)
    assert set(nm.values()) == {0} and nm.bytes == b"\0" * 119
    nm.bytes = bytes(range(1, 120))
    assert nm.bytes == bytes(range(1, 120)) and list(nm) == keys
    nm.bytes = b"\xff\xfe"  # short: only a prefix is replaced
    assert nm.bytes == b"\xff\xfe" + bytes(range(3, 120))
    nm.bytes = b""
    assert nm.bytes == b"\xff\xfe" + bytes(range(3, 120))
    nm.bytes = bytes(200)  # long: surplus ignored, no new keys
    assert nm.bytes == bytes(119) and len(nm) == 119 and list(nm) == keys
    nm.bytes = [7, 8, 9]  # any iterable of ints
    assert nm.bytes[:4] == b"\x07\x08\x09\x00"
    nm.bytes = iter([300])  # stored as-is; only fails when serialised
    assert nm[NOTE.C0] == 300
    raises(ValueError, lambda: nm.bytes)
    raises(TypeError, setattr, nm, "bytes", 5)
    assert M() is not M() and M() == M()

    class Shifted(M):
        start_note = NOTE.C1
        end_note = NOTE.D1
        default_sample = 4

    assert dict(Shifted()) == {NOTE.C1: 4, NOTE.c1: 4, NOTE.D1: 4}
    # through the instrument record: 96-byte legacy map then 128-byte map
    mod = Sampler()
    mod.note_samples.bytes = bytes((i * 7 + 1) % 256 for i in range(119))
    (_, _), (_, rec) = mod.global_config_chunks()
    assert rec[0x24:0x84] == mod.note_samples.bytes[:96]
    assert rec[0x104:0x184] == mod.note_samples.bytes + b"\0" * 9
    mod2 = mod.clone()
    assert mod2.note_samples == mod.note_samples
    assert type(mod2.note_samples) is M
    obs["map.rec"] = sha(rec)


def observations(obs):
    envelope_observations(obs)
    note_map_observations(obs)
    roundtrip_observations(obs, range(10))


GOLDEN = {'env.chunks': '0cde62fdc3538b2a',
 'map.rec': 'f0a42683320a7e3d',
 'rt0.bytes': 'f600830423c2b1a4',
 'rt0.state': 'c434dfd759368e28',
 'rt0.map': '1d49ba5d7c037207',
 'rt1.bytes': '06441909d070578d',
 'rt1.state': '61ba0a67a46f4601',
 'rt1.map': '4d401d6d35176b1d',
 'rt2.bytes': 'd637d4e2ac0cba89',
 'rt2.state': '7839b0c650cceb87',
 'rt2.map': '1608d25a3dcdb794',
 'rt3.bytes': 'b8d69457882a6170',
 'rt3.state': '69cefe5ab6eca554',
 'rt3.map': '6f47b8dd90f4a9c2',
 'rt4.bytes': '71f9a8a900084ce5',
 'rt4.state': '3bb5c28d847649b2',
 'rt4.map': '2bc9997dc5f789a9',
 'rt5.bytes': 'e3dff1c0f8ed2977',
 'rt5.state': '90588a86b44802fd',
 'rt5.map': 'ae811d5e1a675cd8',
 'rt6.bytes': '068c1dc617233396',
 'rt6.state': 'b0fa83c13daa7daa',
 'rt6.map': 'e3b37a56c03214f6',
 'rt7.bytes': '5d39b3155877ce56',
 'rt7.state': '3821a92624de7a1a',
 'rt7.map': '47d80568f030cdb7',
 'rt8.bytes': 'c341985b990ce94d',
 'rt8.state': '075a1462712f5caa',
 'rt8.map': 'e4a0ab6d988e3c1a',
 'rt9.bytes': '0e7cf1d02c3e22cf',
 'rt9.state': '693a1e99624c206e',
 'rt9.map': '3b44aa574697b11d'}


def main():
    obs = {}
    observations(obs)
    import os

    if os.environ.get("C16_RECORD"):
        import pprint

        pprint.pprint(obs, width=100, sort_dicts=False)
        return
    bad = [(k, v, GOLDEN.get(k)) for k, v in obs.items() if GOLDEN.get(k) != v]
    missing = [k for k in GOLDEN if k not in obs]
    if bad or missing:
        for item in bad:
            print("MISMATCH", *item)
        print("FAIL", missing)
        raise SystemExit(1)
    print("PASS (%d observations)" % len(obs))


if __name__ == "__main__":
    main()
