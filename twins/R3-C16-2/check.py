"""C16 check 2: Sampler per-sample chunk writer/reader, type byte and CHFF decoding, struct reader/writer helpers."""
import hashlib
import io
import logging
import random
import struct

from rv.modules import Chunk
from rv.modules.sampler import Sampler, _StructReader, _StructWriter
from rv.note import NOTE
from rv.readers.reader import read_sunvox_file
from rv.synth import Synth

logging.disable(logging.CRITICAL)

FORMATS = [Sampler.Format.int8, Sampler.Format.int16, Sampler.Format.float32]
CHANNELS = [Sampler.Channels.mono, Sampler.Channels.stereo]
LOOPS = list(Sampler.LoopType)


def sha(b):
    return hashlib.sha256(b).hexdigest()[:16]


def build(seed, with_effect=False):
    rnd = random.Random(seed)
    mod = Sampler()
    slots = sorted(rnd.sample(range(128), rnd.choice([0, 1, 2, 5, 9])))
    if seed % 4 == 1:
        slots = sorted(set(slots) | {0, 127})
    for n, i in enumerate(slots):
        s = mod.samples[i] = Sampler.Sample()
        s.format = FORMATS[(seed + n) % 3]
        s.channels = CHANNELS[(seed + n // 3) % 2]
        frames = rnd.choice([0, 1, 3, 17])
        s.data = bytes(rnd.randrange(256) for _ in range(frames * s.frame_size))
        s.rate = rnd.choice([0, 8000, 44100, 48000, 2**32 - 1])
        s.loop_start = rnd.choice([0, 1, 2**32 - 1])
        s.loop_len = rnd.choice([0, 7, 2**32 - 1])
        s.loop_type = LOOPS[(seed + n) % 3]
        s.loop_sustain = bool(rnd.getrandbits(1))
        s.volume = rnd.choice([0, 64, 255])
        s.finetune = rnd.choice([-128, -1, 0, 100, 127])
        s.panning = rnd.choice([-128, -1, 0, 1, 127])
        s.relative_note = rnd.choice([-128, 0, 16, 127])
        s.reserved2 = rnd.choice([0, 255])
        s.name = rnd.choice([b"", b"x", b"a" * 22, b"name with space", b"\xff\x01z"])
        s.start_pos = rnd.choice([0, 5, 2**32 - 1])
    envs = [mod.volume_envelope, mod.panning_envelope, mod.pitch_envelope]
    envs += mod.effect_control_envelopes
    for env in envs:
        lo, hi = env.range
        count = rnd.choice([0, 1, 2, 4, 12, 13, 40])
        xs = sorted(rnd.randrange(0, 0x10000) for _ in range(count))
        env.points = [(x, rnd.choice([lo, hi, rnd.randrange(lo, hi + 1)])) for x in xs]
        env.enable = bool(rnd.getrandbits(1))
        env.sustain = bool(rnd.getrandbits(1))
        env.loop = bool(rnd.getrandbits(1))
        env.sustain_point = rnd.choice([0, 1, 11, 255])
        env.loop_start_point = rnd.choice([0, 2, 255])
        env.loop_end_point = rnd.choice([0, 3, 255])
        env.ctl_index = rnd.choice([0, 1, 255])
        env.gain_pct = rnd.choice([0, 100, 255])
        env.velocity = rnd.choice([0, 1, 255])
    keys = list(mod.note_samples)
    for k in keys:
        mod.note_samples[k] = rnd.choice([0, 0, 1, 5, 127, 255])
    if seed % 3 == 0:
        mod.note_samples[keys[-1]] = 9  # no trailing zeros
    mod.vibrato_type = list(Sampler.VibratoType)[seed % 3]
    mod.vibrato_attack = rnd.choice([0, 9, 255])
    mod.vibrato_depth = rnd.choice([0, 9, 255])
    mod.vibrato_rate = rnd.choice([0, 9, 63])
    mod.volume_fadeout = rnd.choice([0, 77, 8192])
    mod.instrument_name = rnd.choice([b"", b"ins", b"q" * 30])
    mod.volume_old = rnd.choice([0, 64, 255])
    mod.ins_finetune = rnd.choice([-128, 0, 127])
    mod.ins_relative_note = rnd.choice([-128, 0, 127])
    mod.editor_cursor = rnd.choice([0, -1, 12345, 2**31 - 1, -(2**31)])
    mod.editor_selected_size = rnd.choice([0, -7, 99, 2**31 - 1])
    mod.unused1 = rnd.choice([0, 2**32 - 1])
    mod.unused2 = rnd.choice([0, 0xFFFF])
    mod.unused3 = rnd.choice([0, 0xABCD])
    mod.unused4 = rnd.choice([0, 0xDEADBEEF])
    mod.unused5 = rnd.choice([0, 0xEE])
    mod.unused6 = rnd.choice([0, 0x12345678])
    if with_effect:
        from rv.modules.distortion import Distortion

        mod.effect = Synth(Distortion())
    return mod


def env_state(env):
    return (
        list(env.points),
        env.enable,
        env.sustain,
        env.loop,
        env.sustain_point,
        env.loop_start_point,
        env.loop_end_point,
        env.ctl_index,
        env.gain_pct,
        env.velocity,
        env.loaded,
    )


def sample_state(s):
    if s is None:
        return None
    return (
        s.data,
        s._length,
        s.format,
        s.channels,
        s.rate,
        s.loop_start,
        s.loop_len,
        s.loop_type,
        s.loop_sustain,
        s.volume,
        s.finetune,
        s.panning,
        s.relative_note,
        s.reserved2,
        s.name,
        s.start_pos,
    )


def state(mod):
    return (
        [sample_state(s) for s in mod.samples],
        env_state(mod.volume_envelope),
        env_state(mod.panning_envelope),
        env_state(mod.pitch_envelope),
        [env_state(e) for e in mod.effect_control_envelopes],
        list(mod.note_samples.items()),
        mod.vibrato_type,
        mod.vibrato_attack,
        mod.vibrato_depth,
        mod.vibrato_rate,
        mod.volume_fadeout,
        mod.instrument_name,
        mod.volume_old,
        mod.ins_finetune,
        mod.ins_relative_note,
        mod.editor_cursor,
        mod.editor_selected_size,
        (mod.unused1, mod.unused2, mod.unused3, mod.unused4, mod.unused5, mod.unused6),
        mod.version,
        mod.max_version,
        mod.is_legacy,
        None if mod.legacy_chunks is None else len(mod.legacy_chunks),
        None if mod.effect is None else type(mod.effect.module).__name__,
    )


def chunk_list(mod):
    return list(mod.specialized_iff_chunks())


def mk_chunk(chnm, chdt, chff=0, chfr=44100):
    c = Chunk()
    c.chnm, c.chdt, c.chff, c.chfr = chnm, chdt, chff, chfr
    return c


def raises(exc, fn, *a):
    try:
        fn(*a)
    except exc:
        return True
    except Exception as e:  # pragma: no cover
        raise AssertionError(f"expected {exc}, got {type(e)}: {e}")
    raise AssertionError(f"expected {exc}, nothing raised")


def roundtrip_observations(obs, seeds):
    """Write programmatically built samplers, read them back, pin bytes and state."""
    for seed in seeds:
        mod = build(seed, with_effect=(seed % 5 == 2))
        raw = Synth(mod).read()
        mod2 = read_sunvox_file(io.BytesIO(raw)).module
        obs["rt%d.bytes" % seed] = sha(raw)
        obs["rt%d.state" % seed] = sha(repr(state(mod2)).encode())
        assert Synth(mod2).read() == raw, seed
        clone = mod.clone()
        assert state(clone) == state(mod2), seed
        # the property, field by field
        for i, (a, b) in enumerate(zip(mod.samples, mod2.samples)):
            assert (a is None) == (b is None), (seed, i)
            if a is None:
                continue
            sa, sb = sample_state(a), sample_state(b)
            assert sa[0] == sb[0] and sa[2:] == sb[2:], (seed, i, sa, sb)
            assert b._length == a.frames == b.frames
        env_pairs = [
            (mod.volume_envelope, mod2.volume_envelope),
            (mod.panning_envelope, mod2.panning_envelope),
            (mod.pitch_envelope, mod2.pitch_envelope),
        ] + list(zip(mod.effect_control_envelopes, mod2.effect_control_envelopes))
        for a, b in env_pairs:
            assert env_state(a)[:-1] == env_state(b)[:-1], seed
            assert b.loaded is True
            assert type(a) is type(b) and a.chnm == b.chnm
        fields = "vibrato_type vibrato_attack vibrato_depth vibrato_rate volume_fadeout "
        fields += "volume_old ins_finetune ins_relative_note editor_cursor "
        fields += "editor_selected_size unused1 unused2 unused3 unused4 unused5 unused6"
        for name in fields.split():
            assert getattr(mod, name) == getattr(mod2, name), (seed, name)
        assert mod2.instrument_name == mod.instrument_name[:22]
        assert mod2.is_legacy is False and mod2.legacy_chunks is None
        assert (mod.effect is None) == (mod2.effect is None)
        # note map: trailing zero entries are not overwritten by the 128-byte map
        # but the 96-byte legacy map covers the first 96 notes anyway.
        a, b = list(mod.note_samples.values()), list(mod2.note_samples.values())
        assert len(b) == 119
        stripped = len(bytes(a).rstrip(b"\0"))
        assert b[:max(96, stripped)] == a[:max(96, stripped)], seed
        obs["rt%d.map" % seed] = sha(bytes(b))


def h(obj):
    return sha(repr(obj).encode())


def expected_type_byte(s):
    fmt = {Sampler.Format.int8: 0, Sampler.Format.int16: 0x10, Sampler.Format.float32: 0x20}
    return (
        int(s.loop_type)
        | fmt[s.format]
        | (0x40 if s.channels == Sampler.Channels.stereo else 0)
        | (4 if s.loop_sustain else 0)
    )


def sample_writer_observations(obs):
    mod = Sampler()
    acc = []
    n = 0
    for fmt in FORMATS:
        for ch in CHANNELS:
            for loop in LOOPS:
                for sustain in (False, True):
                    n += 1
                    s = Sampler.Sample()
                    s.format, s.channels, s.loop_type, s.loop_sustain = fmt, ch, loop, sustain
                    s.data = bytes(range(24)) * (n % 3)
                    s.loop_start, s.loop_len = n, 2**32 - n
                    s.volume, s.finetune = n * 7 % 256, n * 5 % 256 - 128
                    s.panning, s.relative_note = n * 11 % 256 - 128, 127 - n
                    s.reserved2 = n
                    s.name = b"smp%d" % n
                    s.start_pos = n * 1000
                    s.rate = 8000 + n
                    slot = (n * 37) % 128
                    got = list(mod.sample_chunks(slot, s))
                    meta = struct.pack(
                        "<IIIBbBBbB22sI",
                        len(s.data) // s.frame_size,
                        s.loop_start,
                        s.loop_len,
                        s.volume,
                        s.finetune,
                        expected_type_byte(s),
                        s.panning + 128,
                        s.relative_note,
                        s.reserved2,
                        s.name,
                        s.start_pos,
                    )
                    assert len(meta) == 44
                    assert got == [
                        (b"CHNM", struct.pack("<I", slot * 2 + 1)),
                        (b"CHDT", meta),
                        (b"CHNM", struct.pack("<I", slot * 2 + 2)),
                        (b"CHDT", s.data),
                        (b"CHFF", struct.pack("<I", int(fmt) | int(ch))),
                        (b"CHFR", struct.pack("<I", s.rate)),
                    ], (fmt, ch, loop, sustain)
                    # and back through the loader, landing in the same slot
                    dst = Sampler()
                    dst.load_chunk(mk_chunk(slot * 2 + 1, meta))
                    assert [i for i, x in enumerate(dst.samples) if x is not None] == [slot]
                    half = dst.samples[slot]
                    assert half.data == b"" and half.rate == 44100
                    assert (half.format, half.channels) == (fmt, ch)
                    dst.load_chunk(mk_chunk(slot * 2 + 2, s.data, int(fmt) | int(ch), s.rate))
                    assert dst.samples[slot] is half
                    a, b = sample_state(s), sample_state(half)
                    assert a[0] == b[0] and a[2:] == b[2:], (a, b)
                    assert half._length == s.frames
                    assert type(half.format) is Sampler.Format
                    assert type(half.channels) is Sampler.Channels
                    assert type(half.loop_type) is Sampler.LoopType
                    assert type(half.loop_sustain) is bool
                    acc.append(got)
    obs["smp.chunks"] = h(acc)
    # name padding / truncation, plain ints for enums-as-keys
    s = Sampler.Sample()
    s.name = b"n" * 40
    s.format, s.channels = 2, 0  # ints hash like the enum members
    s.loop_type = Sampler.LoopType.ping_pong
    gen = mod.sample_chunks(0, s)
    meta = [next(gen), next(gen)][1][1]
    assert meta[18:40] == b"n" * 22 and meta[14] == 0x12
    assert next(gen) == (b"CHNM", b"\x02\0\0\0") and next(gen) == (b"CHDT", b"")
    raises(AttributeError, next, gen)  # CHFF needs real enum members
    s.format, s.channels = Sampler.Format.int16, Sampler.Channels.mono
    s.name = b""
    assert list(mod.sample_chunks(0, s))[1][1][18:40] == b"\0" * 22
    # sample_data_chunks skips holes and keeps slot numbers
    mod.samples[5] = Sampler.Sample()
    mod.samples[127] = Sampler.Sample()
    nums = [struct.unpack("<I", v)[0] for k, v in mod.sample_data_chunks() if k == b"CHNM"]
    assert nums == [11, 12, 255, 256]
    assert list(Sampler().sample_data_chunks()) == []
    # failure modes: everything in the meta record is validated before the first chunk
    def first(sample, slot=0):
        return next(mod.sample_chunks(slot, sample))
    for attr, value, exc in [
        ("volume", 256, struct.error), ("volume", -1, struct.error),
        ("finetune", 128, struct.error), ("finetune", -129, struct.error),
        ("panning", 128, struct.error), ("panning", -129, struct.error),
        ("relative_note", 128, struct.error), ("reserved2", 256, struct.error),
        ("loop_start", 2**32, struct.error), ("loop_len", -1, struct.error),
        ("start_pos", 2**32, struct.error),
        ("format", 3, KeyError), ("format", None, KeyError),
        ("channels", 1, KeyError), ("channels", None, KeyError),
        ("loop_type", 1, AttributeError),
        ("name", "text", TypeError),
    ]:
        s = Sampler.Sample()
        setattr(s, attr, value)
        raises(exc, first, s)
    raises(struct.error, first, Sampler.Sample(), -1)
    s = Sampler.Sample()
    s.rate = -1
    gen = mod.sample_chunks(3, s)
    assert [next(gen)[0] for _ in range(5)] == [b"CHNM", b"CHDT", b"CHNM", b"CHDT", b"CHFF"]
    raises(struct.error, next, gen)


def sample_reader_observations(obs):
    base = struct.pack("<IIIBbBBbB22sI", 9, 1, 2, 3, -4, 0, 0x85, -6, 7, b"nm\0x", 8)
    acc = []
    for type_byte in range(256):
        meta = base[:14] + bytes([type_byte]) + base[15:]
        mod = Sampler()
        loop, fmt = type_byte & 3, type_byte & 0x30
        if loop == 3:
            raises(ValueError, mod.load_sample_meta, mk_chunk(1, meta))
            partial = mod.samples[0]
            assert partial.volume == 3 and partial.finetune == -4
            assert partial.loop_type == Sampler.LoopType.off and partial.panning == 0
            acc.append("V")
            continue
        if fmt == 0x30:
            raises(KeyError, mod.load_sample_meta, mk_chunk(1, meta))
            partial = mod.samples[0]
            assert partial.loop_type == Sampler.LoopType(loop)
            assert partial.format == Sampler.Format.float32
            assert partial.channels == Sampler.Channels.stereo and partial.panning == 0
            acc.append("K")
            continue
        mod.load_sample_meta(mk_chunk(1, meta))
        s = mod.samples[0]
        assert s.loop_type == Sampler.LoopType(loop)
        assert s.format == {0: 1, 0x10: 2, 0x20: 4}[fmt]
        assert s.channels == (8 if type_byte & 0x40 else 0)
        assert s.loop_sustain is bool(type_byte & 4)
        assert (s._length, s.loop_start, s.loop_len, s.volume, s.finetune) == (9, 1, 2, 3, -4)
        assert (s.panning, s.relative_note, s.reserved2, s.name, s.start_pos) == (
            5, -6, 7, b"nm\0x", 8)
        assert s.data == b"" and s.rate == 44100
        acc.append(sample_state(s))
    obs["smp.types"] = h(acc)
    # record lengths: start_pos is optional, everything before it is not
    for cut in range(0, 45):
        mod = Sampler()
        if cut < 18:
            raises(RuntimeError, mod.load_sample_meta, mk_chunk(7, base[:cut]))
            assert mod.samples[3] is not None
        else:
            mod.load_sample_meta(mk_chunk(7, base[:cut]))
            s = mod.samples[3]
            assert s.name == base[18:cut][:22].rstrip(b"\0")
            assert s.start_pos == (8 if cut >= 44 else 0)
    mod = Sampler()
    mod.load_sample_meta(mk_chunk(7, base + b"trailing"))
    assert mod.samples[3].start_pos == 8
    # slot arithmetic for direct calls, including the dispatcher's parity split
    for chnm in (1, 2, 3, 4, 99, 100, 253, 254, 255, 256):
        mod = Sampler()
        mod.samples = [Sampler.Sample() for _ in range(128)]
        marker = list(mod.samples)
        mod.load_chunk(mk_chunk(chnm, base if chnm % 2 else b"PCM", 2 | 8, 1234))
        slot = (chnm - 1) // 2
        if chnm % 2:
            assert mod.samples[slot] is not marker[slot] and mod.samples[slot].volume == 3
        else:
            assert mod.samples[slot] is marker[slot]
            s = mod.samples[slot]
            assert (s.data, s.format, s.channels, s.rate) == (b"PCM", 2, 8, 1234)
        assert all(a is b for i, (a, b) in enumerate(zip(mod.samples, marker)) if i != slot)
    mod = Sampler()
    mod.load_sample_meta(mk_chunk(2, base))  # even number given directly: floor division
    assert mod.samples[0] is not None and mod.samples[1] is None
    mod.samples[127] = None
    mod.load_sample_meta(mk_chunk(0, base))  # -1 // 2 == -1: last slot
    assert mod.samples[127] is not None
    raises(IndexError, mod.load_sample_meta, mk_chunk(257, base))
    raises(AttributeError, Sampler().load_sample_data, mk_chunk(2, b""))
    raises(TypeError, Sampler().load_sample_meta, mk_chunk(None, base))
    # CHFF decoding
    acc = []
    for chff in list(range(16)) + [0x10, 0x1C, 0xFFFFFFF2]:
        mod = Sampler()
        s = mod.samples[4] = Sampler.Sample()
        s.format, s.channels = "untouched", "untouched"
        fmt = chff & 7
        if fmt in (3, 5, 6, 7):
            raises(ValueError, mod.load_sample_data, mk_chunk(10, b"d", chff, 5))
            assert (s.data, s.format, s.channels, s.rate) == (b"d", "untouched", "untouched", 44100)
            acc.append("V")
            continue
        mod.load_sample_data(mk_chunk(10, b"d", chff, 5))
        assert s.format is Sampler.Format(fmt or 1)
        assert s.channels is Sampler.Channels(chff & 8)
        assert s.rate == 5 and s.data == b"d"
        acc.append((chff, s.format, s.channels))
    obs["smp.chff"] = h(acc)


def struct_io_observations(obs):
    f = io.BytesIO()
    w = _StructWriter(f)
    w.uint32(0xDEADBEEF); w.int32(-2); w.uint16(0xBEEF); w.int16(-3); w.uint8(200); w.int8(-5)
    w.char(b"ab", 4); w.char(b"abcdef", 4); w.char(b"", 0); w.char(b"xyz", 3)
    data = f.getvalue()
    assert data == (b"\xef\xbe\xad\xde\xfe\xff\xff\xff\xef\xbe\xfd\xff\xc8\xfb"
                    b"ab\0\0abcdxyz")
    for meth, bad in [("uint8", 256), ("uint8", -1), ("int8", 128), ("int8", -129),
                      ("uint16", 65536), ("int16", -32769), ("uint32", 2**32),
                      ("int32", 2**31), ("uint32", -1), ("uint8", 1.5), ("int32", None)]:
        raises(struct.error, getattr(w, meth), bad)
    assert f.getvalue() == data  # nothing written by failed calls
    raises(TypeError, w.char, "str", 4)
    raises(AttributeError, w.char, None, 4)
    r = _StructReader(data)
    assert (r.uint32(), r.int32(), r.uint16(), r.int16(), r.uint8(), r.int8()) == (
        0xDEADBEEF, -2, 0xBEEF, -3, 200, -5)
    assert r.char(4) == b"ab" and r.bytes(4) == b"abcd"
    r.skip(1)
    assert r.bytes(1) == b"y"
    # one byte left: wider reads fall back to the default and do not consume
    assert r.uint16(77) == 77 and r.int32(-1) == -1 and r.uint32(0) == 0 and r.int16(5) == 5
    raises(RuntimeError, r.uint16)
    raises(RuntimeError, r.int32, None)
    assert r.uint8() == ord("z")
    assert r.uint8(9) == 9 and r.int8(-9) == -9
    raises(RuntimeError, r.uint8)
    assert r.bytes(5) == b"" and r.char(3) == b""
    raises(RuntimeError, r.int8)
    # reading past the end through bytes() moves the cursor; later reads use defaults
    r = _StructReader(b"\x01\x02\x03")
    assert r.bytes(2) == b"\x01\x02" and r.bytes(2) == b"\x03" and r.uint8(42) == 42
    r = _StructReader(b"\x01\x02\x03\x04\x05")
    r.skip(4)
    r.skip(-3)
    assert r.uint16() == 0x0302 and r.int8() == 4
    assert _StructReader(b"\0\0ab\0\0").char(6) == b"\0\0ab"
    assert _StructReader(b"").uint32(0) == 0
    assert _StructReader(b"\xff" * 4).int32() == -1
    assert _StructReader(b"\xff" * 4).uint32(7) == 0xFFFFFFFF
    assert _StructReader(b"\x80").int8() == -128 and _StructReader(b"\x80").uint8() == 128


def observations(obs):
    sample_writer_observations(obs)
    sample_reader_observations(obs)
    struct_io_observations(obs)
    roundtrip_observations(obs, range(10, 22))


GOLDEN = {'smp.chunks': '4fe7150163bc8a79',
 'smp.types': 'dbcdbad5265d0e5d',
 'smp.chff': 'f65411c383c0fa4c',
 'rt10.bytes': 'fc99773f81605e17',
 'rt10.state': 'dcf7645ebc678ffd',
 'rt10.map': 'f568c4fa660af919',
 'rt11.bytes': '7e92bf92fa08a291',
 'rt11.state': '4db052374163ef94',
 'rt11.map': 'ac671aeffba925ac',
 'rt12.bytes': '9e7f6d3ab221649a',
 'rt12.state': 'b9f9731d4291137d',
 'rt12.map': 'b887d17f1a3eb90e',
 'rt13.bytes': 'e642618e44bccb00',
 'rt13.state': '9b745521b9d22b0b',
 'rt13.map': '70259429461b1c59',
 'rt14.bytes': '64cc3f68789200c4',
 'rt14.state': '639059a81b23f780',
 'rt14.map': '4483d2473566f547',
 'rt15.bytes': '8d2bcd5794dc4133',
 'rt15.state': 'fe8317fec9765c09',
 'rt15.map': 'fa6ec91db19cd4a0',
 'rt16.bytes': '126359a1dbe9617f',
 'rt16.state': 'ed1c829ebece713b',
 'rt16.map': '0a7db2de4f2bb781',
 'rt17.bytes': '0ce5f2c70332eaa5',
 'rt17.state': 'dd68cd2de8d92555',
 'rt17.map': 'f3e9079921dd8d91',
 'rt18.bytes': 'fe1383093a30c455',
 'rt18.state': 'a64c534d6529d9b5',
 'rt18.map': 'f9c5260b65baa49d',
 'rt19.bytes': '3a6993a9b5cee09c',
 'rt19.state': '4aa051297585f9e9',
 'rt19.map': 'ac757bc1e04f5800',
 'rt20.bytes': 'a00d74a19103e048',
 'rt20.state': '128cde71cd18f6b1',
 'rt20.map': 'a8ee727dfbf23bdc',
 'rt21.bytes': 'cadc06b33a30c5e8',
 'rt21.state': '10a2d2962fc666d1',
 'rt21.map': '4c521ba82f5f3e60'}


def main():
    obs = {}
    observations(obs)
    import os

    if os.environ.get("C16_RECORD"):
        import pprint

        pprint.pprint(obs, width=100, sort_dicts=False)
        return
    bad = [(k, v, GOLDEN.get(k)) for k, v in obs.items() if GOLDEN.get(k) != v]
    missing = [k for k in GOLDEN if k not in obs]
    if bad or missing:
        for item in bad:
            print("MISMATCH", *item)
        print("FAIL", missing)
        raise SystemExit(1)
    print("PASS (%d observations)" % len(obs))


if __name__ == "__main__":
    main()
