"""C17-1: ArrayChunk.reset/_set_bytes/set_via_fn and WaveformChunk.__init__.

Run from the repository root with PYTHONPATH=<root>/src/python.
"""
import hashlib
from enum import Enum
import sys
from io import BytesIO
from struct import pack

from rv.api import Project, Synth, m, read_sunvox_file
from rv.chunks.array import ArrayChunk
from rv.chunks.drawnwaveform import DrawnWaveformChunk
from rv.chunks.waveform import WaveformChunk

failures = []


def check(cond, msg):
    if not cond:
        failures.append(msg)


def snap_chunk(c):
    enc = c.encoded_values if isinstance(c, ArrayChunk) else c.samples
    return list(enc)


# ---- every concrete ArrayChunk used by the module classes -------------------
array_classes = [
    m.MetaModule.MappingArray,
    m.MultiCtl.MappingArray,
    m.MultiCtl.curve_chunk,
    m.MultiSynth.note_velocity_curve_chunk,
    m.MultiSynth.velocity_velocity_curve_chunk,
    m.MultiSynth.note_pitch_curve_chunk,
    m.WaveShaper.curve_chunk,
    m.Fmx.custom_waveform_chunk,
    m.SpectraVoice.harmonic_freqs_chunk,
    m.SpectraVoice.harmonic_volumes_chunk,
    m.SpectraVoice.harmonic_widths_chunk,
    m.SpectraVoice.harmonic_types_chunk,
]
digest = hashlib.sha256()
for cls in array_classes:
    name = cls.__qualname__
    a, b = cls(), cls()
    check(len(a.values) == cls.length, f"{name}: length")
    check(a.values is not b.values, f"{name}: instances share the values list")
    if isinstance(cls.default, list):
        check(a.values is not cls.default, f"{name}: shares class default")
        check(a.values == cls.default, f"{name}: default contents")
        check(type(a.values) is list, f"{name}: values type")
    before_b = snap_chunk(b)
    before_bytes_b = b.bytes
    default_copy = list(cls.default) if isinstance(cls.default, list) else None
    digest.update(a.bytes)
    # mutate A: element assignment, append/pop, in-place ops
    first = a.values[0]
    if isinstance(first, Enum):
        a.values[0] = [e for e in type(first) if e is not first][0]
        a.values.reverse()
    elif isinstance(first, int):
        a.values[0] = first + 1 if first < 100 else first - 1
        a.values[-1] = 1
        a.values.reverse()
    else:
        for attr in vars(first):
            setattr(first, attr, 7)
        a.values.reverse()
    check(snap_chunk(a) != before_b, f"{name}: mutation of A not visible")
    check(snap_chunk(b) == before_b, f"{name}: B changed after mutating A")
    check(b.bytes == before_bytes_b, f"{name}: B bytes changed")
    if default_copy is not None:
        check(cls.default == default_copy, f"{name}: class default changed")
    c = cls()
    check(snap_chunk(c) == before_b, f"{name}: later instance differs")
    # bytes round trip creates a brand new list
    old_list = a.values
    raw = b.bytes
    a.bytes = raw
    check(a.values is not old_list, f"{name}: _set_bytes reused list")
    check(a.values is not b.values, f"{name}: _set_bytes shares with source")
    check(snap_chunk(a) == before_b, f"{name}: bytes round trip")
    check(a.bytes == raw, f"{name}: bytes round trip (bytes)")
    check(a.chdt() == raw, f"{name}: chdt")
    # reset restores defaults with a new list
    a.values[0] = a.values[1]
    held = a.values
    a.reset()
    check(a.values is not held, f"{name}: reset reused list")
    check(snap_chunk(a) == before_b, f"{name}: reset contents")
    # short input
    a.bytes = raw[: cls.element_size * 3 + 1]
    if cls is m.MetaModule.MappingArray:
        check(len(a.values) == cls.length, f"{name}: padded to length")
    else:
        check(
            len(a.values) == (cls.element_size * 3 + 1) // cls.element_size,
            f"{name}: short input length",
        )
    a.bytes = b""
    check(
        len(a.values) == (cls.length if cls is m.MetaModule.MappingArray else 0),
        f"{name}: empty input",
    )

check(
    digest.hexdigest()
    == "41afbee518d69dd4a6a10f5dac7702b22a14b76cfac6989e1f04b38d412b97e7",
    "default chunk bytes digest: " + digest.hexdigest(),
)


# ---- ad-hoc subclasses covering all reset() branches -------------------------
class NoDefault(ArrayChunk):
    length = 5
    type = "b"
    element_size = 1


class Scalar(ArrayChunk):
    length = 4
    type = "H"
    element_size = 2
    default = 9


class ListDefault(ArrayChunk):
    length = 3
    type = "i"
    element_size = 4
    default = [-1, 0, 1]


class FnDefault(ArrayChunk):
    length = 6
    type = "h"
    element_size = 2
    min_value = -2
    max_value = 3

    def default(self, x):
        return x * 2 - 5


class FnNoClamp(ArrayChunk):
    length = 4
    type = "h"
    element_size = 2
    min_value = 0  # falsy: means "no lower bound"
    max_value = 0  # falsy: means "no upper bound"
    default = staticmethod(lambda x: x - 2)


class Pair(ArrayChunk):
    length = 2
    type = "Bb"
    element_size = 2
    python_type = tuple
    default = [(1, -1), (2, -2)]

    @property
    def encoded_values(self):
        return [v for pair in self.values for v in pair]


check(NoDefault().values == [0] * 5, "None default")
check(Scalar().values == [9] * 4, "scalar default")
check(ListDefault().values == [-1, 0, 1], "list default")
check(FnDefault().values == [-2, -2, -1, 1, 3, 3], "fn default clamp")
check(FnNoClamp().values == [-2, -1, 0, 1], "falsy bounds do not clamp")
check(Pair().values == [(1, -1), (2, -2)], "pair default")
x, y = ListDefault(), ListDefault()
x.values.append(5)
x.values[0] = 100
check(y.values == [-1, 0, 1] and ListDefault.default == [-1, 0, 1], "list isolation")
check(ListDefault().values == [-1, 0, 1], "list default after mutation")
x.bytes = pack("<iiii", 1, -2, 3, -4) + b"\x01\x02"
check(x.values == [1, -2, 3, -4], "multi-element decode, trailing bytes ignored")
p = Pair()
p.bytes = bytes([5, 0xFF, 6, 0x80, 7])
check(p.values == [(5, -1), (6, -128)], "tuple decode")
check(p.bytes == bytes([5, 0xFF, 6, 0x80]), "tuple encode")
check(Pair().values == [(1, -1), (2, -2)], "pair default after decode")
f = FnDefault()
held = f.values
f.set_via_fn(lambda i: 100 if i % 2 else -100)
check(f.values == [-2, 3, -2, 3, -2, 3], "set_via_fn clamps both ways")
check(held == [-2, -2, -1, 1, 3, 3] and f.values is not held, "set_via_fn new list")
try:
    f.set_via_fn(lambda i: 1 // (2 - i))
except ZeroDivisionError:
    check(f.values == [-2, 3, -2, 3, -2, 3], "failed set_via_fn keeps old values")
else:
    check(False, "set_via_fn should propagate errors")
s = Scalar()
s.set_via_fn(lambda i: i)
check(s.values == [0, 1, 2, 3], "set_via_fn without bounds")
s.reset()
check(s.values == [9] * 4, "reset scalar")


class BadType(ArrayChunk):
    length = 2
    type = "H"
    element_size = 2

    @staticmethod
    def python_type(v):
        if v == 3:
            raise KeyError(v)
        return v


bt = BadType()
old = bt.values
try:
    bt.bytes = pack("<HHHH", 1, 2, 3, 4)
except KeyError:
    check(bt.values == [1, 2] and bt.values is not old, "partial decode state")
else:
    check(False, "python_type error should propagate")

# ---- WaveformChunk ----------------------------------------------------------
w1, w2 = WaveformChunk(), WaveformChunk()
check(w1.samples == [] and w1.samples is not w2.samples, "waveform empty default")
check(w1.format is None and w1.freq is None, "waveform no fixed format/freq")
w1.samples.extend([1, -1, 300])
check(w2.samples == [] and WaveformChunk().samples == [], "waveform isolation")
check(w1.bytes == bytes([1, 255, 44]), "waveform bytes")
for cls in (DrawnWaveformChunk, m.AnalogGenerator.DrawnWaveform, m.Generator.DrawnWaveform):
    d1, d2 = cls(), cls()
    orig = list(cls.default)
    check(d1.samples == orig and d1.samples is not cls.default, "drawn default copy")
    check(type(d1.samples) is list, "drawn samples type")
    check(d1.format is WaveformChunk.Format.mono_8bit and d1.freq == 44100, "drawn fixed")
    b_before = d2.bytes
    d1.samples[0] = 77
    d1.samples.append(1)
    del d1.samples[3]
    check(d2.samples == orig and cls.default == orig, "drawn isolation")
    check(d2.bytes == b_before and cls().bytes == b_before, "drawn bytes isolation")
    check(d2.chff() == pack("<I", 1) and d2.chfr() == pack("<I", 44100), "chff/chfr")


class TupleWave(WaveformChunk):
    default = (1, 2, 3)


check(TupleWave().samples == (1, 2, 3), "slice copy keeps the sequence type")


# ---- whole modules / files --------------------------------------------------
def project_bytes(p):
    f = BytesIO()
    p.write_to(f)
    return f.getvalue()


def build():
    p = Project()
    mods = [
        p.new_module(cls)
        for cls in (
            m.MultiSynth,
            m.WaveShaper,
            m.MultiCtl,
            m.MetaModule,
            m.Fmx,
            m.SpectraVoice,
            m.AnalogGenerator,
            m.Generator,
        )
    ]
    return p, mods


pa, mods_a = build()
pb, mods_b = build()
bytes_b = project_bytes(pb)
check(project_bytes(pa) == bytes_b, "identical construction gives identical bytes")
check(
    hashlib.sha256(bytes_b).hexdigest()
    == "e7d4f257a45791b9c0f63f5a2eef2c9fbeed93cbef3925f5b3da0644ae4d02f4",
    "project digest: " + hashlib.sha256(bytes_b).hexdigest(),
)
clone = pa.clone()
ms, ws, mc, mm, fmx, sv, ag, gen = mods_a
ms.nv_curve.values[5] = 1
ms.vv_curve.values[:] = [3] * 257
ms.np_curve.values[0] = 0
ws.curve.values[10] = 0
mc.curve.values[1] = 1
mc.mappings.values[0].max = 5
mc.mappings.values[1] = m.MultiCtl.Mapping((1, 2, 3, 0, 0, 0, 0, 0))
mm.mappings.values[0].module = 1
mm.mappings.values[0].controller = 2
fmx.custom_waveform.values[0] = 1
sv.harmonic_freqs.values[0] = 2
sv.harmonic_volumes.values[1] = 3
sv.harmonic_widths.values[2] = 1
sv.harmonic_types.values[3] = m.SpectraVoice.HarmonicType.org2
ag.drawn_waveform.samples[0] = 5
gen.drawn_waveform.samples[31] = -5
check(project_bytes(pa) != bytes_b, "mutations are visible in A")
check(project_bytes(pb) == bytes_b, "B bytes changed after mutating A")
check(project_bytes(clone) == project_bytes(build()[0].clone()), "clone changed")
pc, _ = build()
check(project_bytes(pc) == bytes_b, "fresh project differs after mutating A")
clone_a = pa.clone()
before = project_bytes(clone_a)
for mod in mods_a:
    for v in vars(mod).values():
        if isinstance(v, ArrayChunk):
            v.reset()
        elif isinstance(v, WaveformChunk):
            v.samples[:] = [0] * len(v.samples)
check(project_bytes(clone_a) == before, "clone changed after resetting original")
check(project_bytes(pb) == bytes_b, "B bytes changed after reset of A")

# loading the same file twice
for fn in ("multisynth", "waveshaper", "multictl", "metamodule", "fmx", "spectravoice",
           "analog-generator", "generator"):
    path = f"tests/files/{fn}.sunsynth"
    s1 = read_sunvox_file(path)
    s2 = read_sunvox_file(path)
    ref = s2.read()
    check(s1.read() == ref, f"{fn}: same file gives same bytes")
    for v in vars(s1.module).values():
        if isinstance(v, ArrayChunk):
            check(len(v.values) > 0, f"{fn}: loaded chunk empty")
            v.values.reverse()
            v.values.pop()
        elif isinstance(v, WaveformChunk):
            v.samples.reverse()
            v.samples[0] = 99
    check(s2.read() == ref, f"{fn}: B changed after mutating A")
    check(read_sunvox_file(path).read() == ref, f"{fn}: reload differs")
    check(Synth(type(s1.module)()).read() == Synth(type(s1.module)()).read(), f"{fn}: fresh")

if failures:
    print("FAIL")
    for f_ in failures:
        print(" -", f_)
    sys.exit(1)
print("PASS")
