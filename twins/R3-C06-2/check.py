"""Behaviour check for Sampler chunk dispatch / legacy detection / sample
"type" byte handling and for Module option (de)serialisation.

Run from the repository root:
    PYTHONPATH=<root>/src/python python check.py

Touches: Sampler.load_chunk, load_instrument (legacy decision), sample_chunks,
load_sample_meta, load_sample_data, Module.options_chunks, Module.load_options.
Expected values come from an independent re-statement of the file layout and
from a golden digest of complete outputs.
"""
import glob
import hashlib
import logging
import os
import random
import struct
import sys
from io import BytesIO
from struct import pack

logging.disable(logging.CRITICAL)

from rv.api import Project, Synth, read_sunvox_file  # noqa: E402
from rv.modules import MODULE_CLASSES  # noqa: E402
from rv.modules.module import Chunk  # noqa: E402
from rv.modules.sampler import Sampler  # noqa: E402

ROOT = os.getcwd()
FILES = os.path.join(ROOT, "tests", "files")
FIXTURE = os.path.join(FILES, "sampler.sunsynth")

GOLDEN = "12fb5e8e683ef5ca074d7789c2a036f5a2e4f3747e51796de2ae500a160ac021"

failures = []
golden = hashlib.sha256()


def check(cond, msg):
    if not cond:
        failures.append(msg)


def record(label, data):
    if not isinstance(data, bytes):
        data = repr(data).encode()
    golden.update(label.encode() + b"\0" + pack("<I", len(data)) + data)


def raises(exc_type, fn, *args):
    try:
        fn(*args)
    except exc_type:
        return True
    except Exception as e:
        failures.append(f"expected {exc_type.__name__}, got {type(e).__name__}: {e}")
        return True
    return False


def mkchunk(chnm, chdt=b"", chff=0, chfr=44100):
    c = Chunk()
    c.chnm, c.chdt, c.chff, c.chfr = chnm, chdt, chff, chfr
    return c


def instrument_data(sampler=None):
    (_, _), (_, chdt) = (sampler or Sampler()).global_config_chunks()
    return chdt


# --------------------------------------------------------------------------
# 1. load_chunk dispatch
# --------------------------------------------------------------------------


class EnvStub:
    def __init__(self, name, calls):
        self.name, self.calls = name, calls
        self.loaded = True

    def load_chdt(self, chdt):
        self.calls.append((self.name, chdt))


def spy_sampler():
    calls = []
    s = Sampler()
    s.load_options = lambda c: calls.append(("options", c.chnm))
    s.load_instrument = lambda c: calls.append(("instrument", c.chnm))
    s.load_sample_meta = lambda c: calls.append(("meta", c.chnm))
    s.load_sample_data = lambda c: calls.append(("data", c.chnm))
    s.volume_envelope = EnvStub("vol", calls)
    s.panning_envelope = EnvStub("pan", calls)
    s.pitch_envelope = EnvStub("pitch", calls)
    s.effect_control_envelopes = [EnvStub(f"fx{i}", calls) for i in range(4)]
    return s, calls


def expected_call(chnm, payload):
    if chnm == 0x101:
        return ("options", chnm)
    if chnm == 0:
        return ("instrument", chnm)
    if chnm < 0x101:
        return ("meta" if chnm % 2 else "data", chnm)
    names = {0x102: "vol", 0x103: "pan", 0x104: "pitch"}
    if chnm in names:
        return (names[chnm], payload)
    if 0x105 <= chnm <= 0x108:
        return (f"fx{chnm - 0x105}", payload)
    return None


s, calls = spy_sampler()
all_chnms = list(range(0, 0x112)) + [0x200, 0xFFFF, 0xFFFFFFFF]
for chnm in all_chnms:
    if chnm == 0x10A:
        continue
    del calls[:]
    payload = pack("<I", chnm)
    s.load_chunk(mkchunk(chnm, payload))
    exp = expected_call(chnm, payload)
    check(calls == ([exp] if exp else []), f"dispatch {chnm:#x}: {calls}")
check(not hasattr(s, "_unknown_0x101"), "0x101 goes to options, not _unknown_0x101")
check(s.effect is None, "effect untouched by unknown chunks")
check(
    [c.chnm for c in s.legacy_chunks] == [c for c in all_chnms if c != 0x10A],
    "all chunks captured while legacy state is undecided",
)
check(s.is_legacy is None, "is_legacy undecided without instrument chunk")

# different options_chnm: 0x101 is then kept raw, and the other number wins
s, calls = spy_sampler()
s.options_chnm = 0x103
s.load_chunk(mkchunk(0x101, b"abc"))
check(calls == [] and s._unknown_0x101 == b"abc", "raw 0x101 when not options")
s.load_chunk(mkchunk(0x103, b"zz"))
check(calls == [("options", 0x103)], "options_chnm has priority over envelope")
s.options_chnm = 4
s.load_chunk(mkchunk(4, b""))
check(calls[-1] == ("options", 4), "options_chnm has priority over sample slot")
s.options_chnm = 0
s.load_chunk(mkchunk(0, b""))
check(calls[-1] == ("options", 0), "options_chnm has priority over instrument")

# effect chunk 0x10A is parsed as an embedded file
inner = Synth(MODULE_CLASSES["Filter"]())
s = Sampler()
s.load_chunk(mkchunk(0x10A, inner.read()))
check(type(s.effect).__name__ == "Synth", "effect loaded")
check(type(s.effect.module).__name__ == "Filter", "effect module type")
s = Sampler()
s.effect = "previous"
s.load_chunk(mkchunk(0x10A, b"junk"))
check(s.effect is None, "unparseable effect yields None")

# too few effect control envelopes -> IndexError only for the missing one
s, calls = spy_sampler()
s.effect_control_envelopes = s.effect_control_envelopes[:2]
s.load_chunk(mkchunk(0x106, b"x"))
check(calls == [("fx1", b"x")], "short fx list, present entry")
check(raises(IndexError, s.load_chunk, mkchunk(0x107, b"x")), "short fx list")
s.load_chunk(mkchunk(0x109, b"x"))
s.load_chunk(mkchunk(0x104, b"y"))
check(calls == [("fx1", b"x"), ("pitch", b"y")], "short fx list, other chunks")
# chnm None (CHNM missing) -> TypeError from the comparison
check(raises(TypeError, Sampler().load_chunk, mkchunk(None, b"")), "chnm None")

# envelope objects are looked up at load time (replaced objects are used)
s = Sampler()
new_env = Sampler.PitchEnvelope()
s.pitch_envelope = new_env
s.load_chunk(mkchunk(0x104, pack("<HBBBBBBHHHH", 7, 1, 2, 3, 0, 0, 0, 0, 4, 5, 6)))
check(new_env.loaded and new_env.gain_pct == 2, "replaced envelope is loaded")

# --------------------------------------------------------------------------
# 2. legacy decision
# --------------------------------------------------------------------------
base = instrument_data()
check(len(base) == 0x190, f"instrument record length {len(base):#x}")


def legacy_state(s):
    return (
        s.is_legacy,
        None if s.legacy_chunks is None else [c.chnm for c in s.legacy_chunks],
    )


def load_seq(*datas, pre=()):
    s = Sampler()
    for c in pre:
        s.load_chunk(c)
    for d in datas:
        s.load_chunk(mkchunk(0, d))
    return s


padded_ok = base[:0x18C]
padded_big = base.ljust(0x191, b"\0")
bad_sign = base.replace(b"PMAS", b"SAMP", 1)
check(legacy_state(load_seq(base)) == (False, None), "plain record")
check(legacy_state(load_seq(padded_ok)) == (False, None), "0x18c record")
check(legacy_state(load_seq(padded_big)) == (True, [0]), "0x191 record")
check(legacy_state(load_seq(bad_sign)) == (True, [0]), "bad signature")
check(
    legacy_state(load_seq(bad_sign.ljust(0x400, b"\1"))) == (True, [0]),
    "bad signature and long",
)
check(legacy_state(load_seq(bad_sign, base)) == (True, [0, 0]), "legacy then plain")
check(legacy_state(load_seq(padded_big, base)) == (True, [0, 0]), "long then plain")
check(legacy_state(load_seq(base, padded_big)) == (True, None), "plain then long")
check(legacy_state(load_seq(base, bad_sign)) == (True, None), "plain then bad sign")
check(legacy_state(load_seq(base, base)) == (False, None), "plain twice")
pre = [mkchunk(0x101, b"\1"), mkchunk(1, b"\0" * 40), mkchunk(2, b"\0" * 8, 1)]
check(legacy_state(load_seq(base, pre=pre)) == (False, None), "chunks before 0")
check(
    legacy_state(load_seq(padded_big, pre=pre)) == (True, [0x101, 1, 2, 0]),
    "chunks before 0, legacy",
)
# records cut short after the mandatory part use defaults for the tail
for cut in (0x104, 0x150, 0x184, 0x187, 0x188, 0x18B):
    s = load_seq(base[:cut])
    check(legacy_state(s) == (False, None), f"cut {cut:#x}")
    check((s.max_version, s.editor_cursor, s.editor_selected_size) == (6, 0, 0), "tail")
check(raises(RuntimeError, load_seq, base[:0x103]), "record too short")
check(raises(RuntimeError, load_seq, b""), "empty record")
s = Sampler()
check(raises(RuntimeError, s.load_chunk, mkchunk(0, bad_sign[:0x103])), "short+bad")
check(legacy_state(s) == (True, [0]), "signature flag is set before the failure")
# legacy sampler replays its chunks, later chunks are still captured
s = load_seq(padded_big)
s.load_chunk(mkchunk(0x102, pack("<HBBBBBBHHHH", 1, 0, 100, 0, 0, 0, 0, 0, 0, 0, 0)))
s.finalize_load()
out = list(s.specialized_iff_chunks())
check(
    out
    == [
        (b"CHNM", pack("<I", 0)),
        (b"CHDT", padded_big),
        (b"CHFF", pack("<I", 0)),
        (b"CHFR", pack("<I", 44100)),
        (b"CHNM", pack("<I", 0x102)),
        (b"CHDT", pack("<HBBBBBBHHHH", 1, 0, 100, 0, 0, 0, 0, 0, 0, 0, 0)),
        (b"CHFF", pack("<I", 0)),
        (b"CHFR", pack("<I", 44100)),
    ],
    "legacy replay output",
)
record("legacy/replay", Synth(s).read())

# --------------------------------------------------------------------------
# 3. sample "type" byte, sample slots and CHFF handling
# --------------------------------------------------------------------------
FORMAT_BITS = {1: 0x00, 2: 0x10, 4: 0x20}
CHANNEL_BITS = {0: 0x00, 8: 0x40}


def sample_state(x):
    if x is None:
        return None
    return (
        x.data,
        x.loop_start,
        x.loop_len,
        x.volume,
        x.finetune,
        x.format,
        x.channels,
        x.rate,
        x.loop_type,
        x.loop_sustain,
        x.panning,
        x.relative_note,
        x.reserved2,
        x.name,
        x.start_pos,
    )


def ref_sample_meta(x):
    t = x.loop_type.value | FORMAT_BITS[int(x.format)] | CHANNEL_BITS[int(x.channels)]
    t |= 4 if x.loop_sustain else 0
    frame = {1: 1, 2: 2, 4: 4}[int(x.format)] * (2 if int(x.channels) else 1)
    return (
        pack("<IIIBbBBbB", len(x.data) // frame, x.loop_start, x.loop_len, x.volume,
             x.finetune, t, x.panning + 0x80, x.relative_note, x.reserved2)
        + x.name.ljust(22, b"\0")[:22]
        + pack("<I", x.start_pos)
    )


combo = 0
for loop_type in Sampler.LoopType:
    for fmt in Sampler.Format:
        for ch in Sampler.Channels:
            for sustain in (False, True):
                combo += 1
                slot = (combo * 5) % 128
                x = Sampler.Sample()
                x.data = bytes(range(48))
                x.loop_type, x.format, x.channels = loop_type, fmt, ch
                x.loop_sustain = sustain
                x.loop_start, x.loop_len = combo, combo * 2
                x.volume, x.finetune = combo % 65, combo - 20
                x.panning, x.relative_note = combo - 30, -combo
                x.reserved2, x.name = combo % 3, b"smp%d" % combo
                x.rate, x.start_pos = 8000 + combo, combo * 3
                src = Sampler()
                out = list(src.sample_chunks(slot, x))
                tag = f"sample {loop_type.name}/{fmt.name}/{ch.name}/{sustain}"
                check(
                    out
                    == [
                        (b"CHNM", pack("<I", slot * 2 + 1)),
                        (b"CHDT", ref_sample_meta(x)),
                        (b"CHNM", pack("<I", slot * 2 + 2)),
                        (b"CHDT", x.data),
                        (b"CHFF", pack("<I", fmt.value | ch.value)),
                        (b"CHFR", pack("<I", x.rate)),
                    ],
                    tag + " chunks",
                )
                dst = Sampler()
                dst.load_chunk(mkchunk(slot * 2 + 1, out[1][1]))
                got = dst.samples[slot]
                check(
                    [i for i, v in enumerate(dst.samples) if v is not None] == [slot],
                    tag + " slot (meta)",
                )
                check(got.data == b"" and got._length == x.frames, tag + " meta only")
                check(
                    (got.loop_type, got.format, got.channels, got.loop_sustain)
                    == (loop_type, fmt, ch, sustain),
                    tag + " type byte decoded",
                )
                check(type(got.loop_sustain) is bool, tag + " sustain is bool")
                dst.load_chunk(mkchunk(slot * 2 + 2, x.data, fmt.value | ch.value, x.rate))
                check(sample_state(dst.samples[slot]) == sample_state(x), tag + " full")
                check(dst.samples[slot] is got, tag + " same object")
                record(tag, out[1][1])

# plain ints are accepted for format / channels, invalid values are not
x = Sampler.Sample()
x.format, x.channels = 2, 0
gen = Sampler().sample_chunks(0, x)
check((next(gen), next(gen))[1][1][14] == 0x10, "plain int format in type byte")
check(raises(AttributeError, list, gen), "plain int format has no .value for CHFF")
for attr, bad, exc in [
    ("format", 3, KeyError),
    ("format", None, KeyError),
    ("channels", 1, KeyError),
    ("channels", 0x40, KeyError),
    ("loop_type", 1, AttributeError),
]:
    x = Sampler.Sample()
    setattr(x, attr, bad)
    check(raises(exc, list, Sampler().sample_chunks(0, x)), f"bad {attr}={bad!r}")

# every possible type byte
for t in range(256):
    meta = pack("<IIIBbBBbB", 0, 0, 0, 64, 0, t, 0x80, 0, 0) + b"\0" * 26
    s = Sampler()
    loop, fbits = t & 3, t & 0x30
    if loop == 3:
        check(raises(ValueError, s.load_chunk, mkchunk(1, meta)), f"type {t:#x} loop")
        x = s.samples[0]
        check(x is not None and x.volume == 64, f"type {t:#x}: sample kept")
    elif fbits == 0x30:
        check(raises(KeyError, s.load_chunk, mkchunk(1, meta)), f"type {t:#x} format")
        check(s.samples[0].loop_type == Sampler.LoopType(loop), f"type {t:#x} partial")
    else:
        s.load_chunk(mkchunk(1, meta))
        x = s.samples[0]
        check(
            (x.loop_type, x.format, x.channels, x.loop_sustain)
            == (
                Sampler.LoopType(loop),
                {0: Sampler.Format.int8, 0x10: Sampler.Format.int16,
                 0x20: Sampler.Format.float32}[fbits],
                Sampler.Channels.stereo if t & 0x40 else Sampler.Channels.mono,
                bool(t & 4),
            ),
            f"type {t:#x}",
        )
        check(x.start_pos == 0 and x.name == b"", f"type {t:#x} rest")

# meta record without start_pos (older files) and truncated records
meta = pack("<IIIBbBBbB", 3, 1, 2, 10, -5, 0x51, 0x70, 7, 9) + b"name".ljust(22, b"\0")
s = Sampler()
s.load_chunk(mkchunk(0xFF, meta))
x = s.samples[127]
check(
    sample_state(x)
    == (b"", 1, 2, 10, -5, Sampler.Format.int16, Sampler.Channels.stereo, 44100,
        Sampler.LoopType.forward, False, -16, 7, 9, b"name", 0),
    "meta without start_pos",
)
check(raises(RuntimeError, Sampler().load_chunk, mkchunk(1, meta[:14])), "short meta")

# slots for data chunks and CHFF decoding
for chnm in (2, 4, 0x80, 0xFE, 0x100):
    s = Sampler()
    s.load_chunk(mkchunk(chnm - 1, meta))
    for chff, exp in [
        (0, (1, 0)), (1, (1, 0)), (2, (2, 0)), (4, (4, 0)),
        (8, (1, 8)), (9, (1, 8)), (10, (2, 8)), (12, (4, 8)),
        (0x10, (1, 0)), (0xF2, (2, 0)), (0xFFFFFFF8, (1, 8)),
    ]:
        s.load_chunk(mkchunk(chnm, b"\1\2\3\4", chff, 22050))
        x = s.samples[chnm // 2 - 1]
        check((x.format.value, x.channels.value) == exp, f"chff {chff:#x} @ {chnm:#x}")
        check(isinstance(x.format, Sampler.Format), f"chff {chff:#x} enum")
        check(isinstance(x.channels, Sampler.Channels), f"chff {chff:#x} ch enum")
        check(x.data == b"\1\2\3\4" and x.rate == 22050, f"chff {chff:#x} data/rate")
    for chff in (3, 5, 6, 7, 11):
        check(
            raises(ValueError, s.load_chunk, mkchunk(chnm, b"zz", chff)),
            f"bad chff {chff}",
        )
        check(s.samples[chnm // 2 - 1].data == b"zz", f"bad chff {chff}: data set")
    check(
        sum(v is not None for v in s.samples) == 1, f"only one slot used @ {chnm:#x}"
    )
# data without header
check(raises(AttributeError, Sampler().load_chunk, mkchunk(2, b"")), "data w/o meta")
s = Sampler()
s.load_chunk(mkchunk(5, meta))
check(raises(AttributeError, s.load_chunk, mkchunk(4, b"")), "data for other slot")
# direct calls of the public loaders
s = Sampler()
s.load_sample_meta(mkchunk(9, meta))
check(s.samples[4] is not None, "load_sample_meta direct")
s.load_sample_data(mkchunk(10, b"abcd", 2))
check(s.samples[4].data == b"abcd", "load_sample_data direct")
s.load_sample_meta(mkchunk(10, meta))
check(s.samples[4].data == b"", "load_sample_meta direct, even number")
s.samples[3] = Sampler.Sample()
s.load_sample_data(mkchunk(9, b"odd", 1))
check(s.samples[3].data == b"odd", "load_sample_data direct, odd number")

# --------------------------------------------------------------------------
# 4. options_chunks / load_options on every module type
# --------------------------------------------------------------------------


def ref_options_chdt(mod):
    bm = [0] * 64
    n = 0
    for o in mod.options.values():
        v = int(mod.option_values[o.name]) & (2**o.size - 1)
        bm[o.byte] |= v << o.bit
        n = max(n, o.byte + 1)
    return bytes(bm[:n])


def ref_load_options(mod, chdt):
    bm = list(chdt) + [0] * 64
    out = {}
    for o in mod.options.values():
        v = (bm[o.byte] >> o.bit) & (2**o.size - 1)
        out[o.name] = bool(v) if o.size == 1 else v
    return out


rng = random.Random(6)
with_options = 0
for mtype in sorted(MODULE_CLASSES):
    cls = MODULE_CLASSES[mtype]
    if not cls.options:
        continue
    with_options += 1
    mod = cls()
    out = list(mod.options_chunks())
    check(out[0] == (b"CHNM", pack("<I", cls.options_chnm)), f"{mtype}: options CHNM")
    check(out[1] == (b"CHDT", ref_options_chdt(mod)), f"{mtype}: default CHDT")
    record(f"options/{mtype}/default", out[1][1])
    # raw storage edits
    for trial in range(6):
        mod = cls()
        for o in cls.options.values():
            top = 2**o.size - 1
            v = rng.choice([0, top, rng.randint(0, top)])
            mod.option_values[o.name] = bool(v) if o.size == 1 else v
        chdt = list(mod.options_chunks())[1][1]
        check(chdt == ref_options_chdt(mod), f"{mtype}: trial {trial} CHDT")
        record(f"options/{mtype}/{trial}", chdt)
        fresh = cls()
        fresh.load_options(mkchunk(cls.options_chnm, chdt))
        check(fresh.option_values == mod.option_values, f"{mtype}: trial {trial} rt")
        for name, v in fresh.option_values.items():
            check(type(v) is type(mod.option_values[name]), f"{mtype}.{name} type")
    # arbitrary payloads of different lengths
    for length in (0, 1, 3, 63, 64, 70):
        chdt = bytes(rng.randrange(256) for _ in range(length))
        fresh = cls()
        fresh.load_options(mkchunk(cls.options_chnm, chdt))
        check(
            fresh.option_values == ref_load_options(fresh, chdt),
            f"{mtype}: load {length} bytes",
        )
        check(
            [type(v) for v in fresh.option_values.values()]
            == [type(v) for v in ref_load_options(fresh, chdt).values()],
            f"{mtype}: load {length} bytes types",
        )
        record(f"options/{mtype}/load{length}", sorted(fresh.option_values.items()))
    # values wider than the field are masked, None is rejected
    mod = cls()
    first = next(iter(cls.options.values()))
    mod.option_values[first.name] = (1 << first.size) + 1
    check(
        list(mod.options_chunks())[1][1][first.byte] >> first.bit & 1 == 1,
        f"{mtype}: masking",
    )
    mod.option_values[first.name] = None
    check(raises(TypeError, list, mod.options_chunks()), f"{mtype}: None option")
    check(raises(TypeError, cls().load_options, mkchunk(0, None)), f"{mtype}: no CHDT")
check(with_options >= 5, f"modules with options: {with_options}")

# --------------------------------------------------------------------------
# 5. load -> edit -> save -> load (C06) on the sampler fixture
# --------------------------------------------------------------------------
raw = open(FIXTURE, "rb").read()


def sampler_state(m):
    return (
        dict(m.option_values),
        dict(m.controller_values),
        [sample_state(x) for x in m.samples],
        m.note_samples.bytes,
        (m.instrument_name, m.version, m.max_version, m.volume_old, m.ins_finetune,
         m.ins_relative_note, m.editor_cursor, m.editor_selected_size),
        (m.unused1, m.unused2, m.unused3, m.unused4, m.unused5, m.unused6),
        None if m.effect is None else m.effect.read(),
        m.is_legacy,
        m.legacy_chunks,
    )


def reload_synth(module):
    return read_sunvox_file(BytesIO(Synth(module).read())).module


def reload_in_project(module):
    p = Project()
    module.parent = None
    module.index = None
    p.attach_module(module)
    p.output << module
    return read_sunvox_file(BytesIO(p.read())).modules[module.index]


m0 = read_sunvox_file(BytesIO(raw)).module
check(m0.is_legacy is False and m0.legacy_chunks is None, "fixture not legacy")
used_slots = [i for i, x in enumerate(m0.samples) if x is not None]
check(len(used_slots) == 3, f"fixture sample slots {used_slots}")
record("fixture/state", sampler_state(m0)[:8])
record("fixture/rewrite", Synth(m0).read())


def edit_cases():
    for name, o in Sampler.options.items():
        if o.size == 1:
            yield f"option {name}", lambda m, n=name: setattr(m, n, not getattr(m, n))
        else:
            yield f"option {name}", lambda m, n=name: setattr(m, n, 200)
    slot = used_slots[1]
    for attr, value in [
        ("loop_type", Sampler.LoopType.ping_pong),
        ("loop_sustain", True),
        ("loop_start", 3),
        ("loop_len", 5),
        ("volume", 11),
        ("finetune", -77),
        ("panning", -100),
        ("relative_note", -12),
        ("reserved2", 1),
        ("name", b"edited"),
        ("start_pos", 2),
        ("rate", 11025),
    ]:
        yield f"sample.{attr}", lambda m, a=attr, v=value: setattr(m.samples[slot], a, v)

    def new_sample(m):
        x = Sampler.Sample()
        x.data = bytes(range(64))
        x.format, x.channels = Sampler.Format.int16, Sampler.Channels.mono
        x.loop_type = Sampler.LoopType.forward
        m.samples[100] = x

    yield "add sample", new_sample
    yield "remove sample", lambda m: m.samples.__setitem__(used_slots[0], None)

    def convert(m):
        x = m.samples[used_slots[2]]
        x.format, x.channels = Sampler.Format.int8, Sampler.Channels.mono
        x.data = x.data[: len(x.data) // 8 * 8]

    yield "convert sample", convert
    yield "drop effect", lambda m: setattr(m, "effect", None)
    yield "new effect", lambda m: setattr(
        m, "effect", Synth(MODULE_CLASSES["Distortion"](bit_depth=3))
    )
    yield "note map", lambda m: m.note_samples.__setitem__(
        list(m.note_samples)[40], used_slots[2]
    )
    yield "instrument_name", lambda m: setattr(m, "instrument_name", b"renamed")
    yield "vibrato_depth", lambda m: setattr(m, "vibrato_depth", 99)
    yield "volume", lambda m: setattr(m, "volume", 7)


for label, edit in edit_cases():
    m = read_sunvox_file(BytesIO(raw)).module
    edit(m)
    expected = sampler_state(m)
    check(expected != sampler_state(m0), f"{label}: edit changes state")
    for loader in (reload_synth, reload_in_project):
        got = sampler_state(loader(m))
        check(got == expected, f"{label}: survives {loader.__name__}")
    record(f"edit/{label}", Synth(m).read())

# every fixture: rewriting is stable and matches the golden digest
paths = sorted(glob.glob(os.path.join(FILES, "**", "*.sun*"), recursive=True))
check(len(paths) >= 50, f"fixtures found: {len(paths)}")
for path in paths:
    obj = read_sunvox_file(path)
    once = obj.read()
    twice = read_sunvox_file(BytesIO(once)).read()
    check(once == twice, f"{os.path.relpath(path, FILES)}: rewrite stable")
    record("file/" + os.path.relpath(path, FILES).replace(os.sep, "/"), once)

digest = golden.hexdigest()
if os.environ.get("C06_PRINT_GOLDEN"):
    print(digest)
check(digest == GOLDEN, f"golden digest mismatch: {digest}")

if failures:
    print("FAIL")
    for f in failures[:40]:
        print("  -", f)
    print(f"  ({len(failures)} failures)")
    sys.exit(1)
print("PASS")
