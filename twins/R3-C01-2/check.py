"""Behaviour check for the module reader (rv/readers/module.py) and the
Module.load_cmid / Module.load_options helpers it drives.

Covers: text chunks (SNAM/STYP/SMIN), SMII packing, SLNK/SLnK parsing and
trailing -1 trimming, CVAL application order and the "unsupported controller"
warnings, CMID records (including a short trailing record), option bytes, and a
generative save/load round trip over every attachable module type.

Passes on the unchanged tree and with the refactoring applied.
"""
import hashlib
import logging
import random
import struct
import sys
from enum import Enum
from io import BytesIO

from rv.api import m
from rv.cmidmap import MidiMessageType, Slope
from rv.controller import DependentRange, Range
from rv.modules import MODULE_CLASSES, Chunk
from rv.project import Project
from rv.readers.module import ModuleReader
from rv.readers.reader import ReaderFinished, read_sunvox_file
from rv.synth import Synth

FAILURES = []


def expect(cond, msg):
    if not cond:
        FAILURES.append(msg)
        print("FAIL:", msg)


def split_chunks(blob):
    out, pos = [], 0
    while pos + 8 <= len(blob):
        name = blob[pos : pos + 4]
        (size,) = struct.unpack("<I", blob[pos + 4 : pos + 8])
        out.append((name, blob[pos + 8 : pos + 8 + size]))
        pos += 8 + size
    return out


def join_chunks(chunks):
    return b"".join(n + struct.pack("<I", len(d)) + d for n, d in chunks)


def save(container):
    f = BytesIO()
    container.write_to(f)
    return f.getvalue()


def load(blob):
    return read_sunvox_file(BytesIO(blob))


class Capture(logging.Handler):
    def __init__(self):
        super().__init__()
        self.records = []

    def emit(self, record):
        self.records.append((record.levelname, record.getMessage()))


class captured:
    def __init__(self, name, level):
        self.logger = logging.getLogger(name)
        self.level = level

    def __enter__(self):
        self.cap = Capture()
        self.old = self.logger.level
        self.logger.setLevel(self.level)
        self.logger.addHandler(self.cap)
        return self.cap.records

    def __exit__(self, *exc):
        self.logger.removeHandler(self.cap)
        self.logger.setLevel(self.old)


def plain(v):
    if isinstance(v, Enum):
        return (type(v).__name__, v.name)
    return v


def module_state(mod):
    if mod is None:
        return None
    cmid = {
        k: (c.channel, c.message_type.name, c.message_parameter, c.slope.name)
        for k, c in sorted(mod.controller_midi_maps.items())
    }
    return dict(
        cls=type(mod).__name__,
        mtype=mod.mtype,
        name=mod.name,
        flags=mod.flags,
        xy=(mod.x, mod.y, mod.layer),
        scale=mod.mod_scale,
        color=tuple(mod.color),
        vis=int(mod.visualization),
        fin=(mod.mod_finetune, mod.mod_relative_note),
        midi=(
            mod.midi_in_always,
            type(mod.midi_in_always).__name__,
            mod.midi_in_channel,
            mod.midi_out_name,
            mod.midi_out_channel,
            mod.midi_out_bank,
            mod.midi_out_program,
        ),
        ctl={k: plain(v) for k, v in mod.controller_values.items()},
        loaded=sorted(mod.controllers_loaded),
        opt={k: (v, type(v).__name__) for k, v in mod.option_values.items()},
        cmid=cmid,
        links=(
            list(mod.in_links),
            list(mod.in_link_slots),
            list(mod.out_links),
            list(mod.out_link_slots),
        ),
    )


def new_reader(index=1, mtype=None):
    """A ModuleReader fed by hand, one chunk handler at a time."""
    r = ModuleReader(BytesIO(b""), index=index)
    from rv.modules import Module
    from rv.modules.output import Output

    r.object = Module() if index > 0 else Output()
    r.process_SFFF(struct.pack("<I", 0x49))
    if mtype is not None:
        r.process_SNAM(mtype.encode("utf8").ljust(32, b"\0"))
        r.process_STYP(mtype.encode("utf8") + b"\0")
    return r


# -- text chunks -------------------------------------------------------------


def test_text_chunks():
    cases = [
        (b"Hello" + b"\0" * 27, "Hello"),
        (b"Hello", "Hello"),
        (b"", ""),
        (b"\0", ""),
        (b"\0abc", ""),
        (b"ab\0cd\0ef", "ab"),
        ("héllo wörld".encode("utf8") + b"\0\0", "héllo wörld"),
        ("日本語".encode("utf8"), "日本語"),
        (b"x" * 32, "x" * 32),
        (b"x" * 40, "x" * 40),
    ]
    for data, want in cases:
        r = new_reader()
        r.process_SNAM(data)
        expect(r.object.name == want, "SNAM %r -> %r" % (data, r.object.name))
        r.process_SMIN(data)
        expect(r.object.midi_out_name == want, "SMIN %r" % (data,))
    # invalid UTF-8 is an error, not silently dropped
    for handler in ("process_SNAM", "process_SMIN", "process_STYP"):
        r = new_reader()
        try:
            getattr(r, handler)(b"\xff\xfe\0")
        except UnicodeDecodeError:
            pass
        else:
            expect(False, "%s must raise UnicodeDecodeError" % handler)
    # bad bytes after the NUL are never looked at
    r = new_reader()
    r.process_SNAM(b"ok\0\xff\xff")
    expect(r.object.name == "ok", "bytes after NUL ignored")


def test_styp():
    for mtype, cls in sorted(MODULE_CLASSES.items()):
        if mtype == "Output":
            continue
        r = new_reader()
        r.process_SNAM(b"my name\0")
        r.process_STYP(mtype.encode("utf8") + b"\0junk")
        mod = r.object
        expect(type(mod) is cls, "STYP %s gives %s" % (mtype, type(mod).__name__))
        expect(mod.name == "my name" and mod.mtype == mtype, "STYP keeps name/mtype")
        expect(mod.flags == 0x49 | cls().default_flags, "STYP merges flags")
        want = [k for k, c in mod.controllers.items() if c.attached(mod)]
        if mtype == "MetaModule":
            want += ["user_defined_%d" % (i + 1) for i in range(96)]
        expect(r._controller_keys == want, "controller keys for %s" % mtype)
    r = new_reader()
    try:
        r.process_STYP(b"No such module\0")
    except KeyError as e:
        expect(e.args == ("No such module",), "KeyError carries type name")
    else:
        expect(False, "unknown STYP must raise KeyError")


def test_smii():
    for packed in [0, 1, 2, 3, 4, 5, 30, 31, 32, 33, 0xFFFFFFFE, 0xFFFFFFFF]:
        r = new_reader()
        r.process_SMII(struct.pack("<I", packed))
        mod = r.object
        expect(mod.midi_in_always is bool(packed & 1), "SMII always %d" % packed)
        expect(
            mod.midi_in_channel == packed >> 1 and type(mod.midi_in_channel) is int,
            "SMII channel %d" % packed,
        )
    for always in (False, True):
        for channel in range(0, 17):
            p = Project()
            g = p.new_module(m.Generator, midi_in_always=always, midi_in_channel=channel)
            q = load(save(p))
            got = (q.modules[1].midi_in_always, q.modules[1].midi_in_channel)
            expect(got == (always, channel), "SMII round trip %r" % (got,))


# -- links -------------------------------------------------------------------


def ints(*values):
    return struct.pack("<%di" % len(values), *values)


def test_link_chunks():
    cases = [
        ([], b"", []),
        ([], ints(1), [1]),
        ([], ints(1, 2, 3), [1, 2, 3]),
        ([], ints(1, -1, 3), [1, -1, 3]),
        ([], ints(1, -1, -1), [1]),
        ([], ints(-1), []),
        ([], ints(-1, -1, -1), []),
        ([], ints(-1, 0), [-1, 0]),
        ([], ints(-2, -1), [-2]),
        ([], ints(0x7FFFFFFF, -0x80000000), [0x7FFFFFFF, -0x80000000]),
        # a second chunk appends, and trimming looks at the whole list
        ([5], ints(6, -1), [5, 6]),
        ([5, -1], ints(-1, -1), [5]),
        ([-1, -1], ints(-1), []),
        ([5, -1], b"", [5, -1]),
        ([4, -1], ints(7), [4, -1, 7]),
    ]
    for attr, handler in (("in_links", "process_SLNK"), ("in_link_slots", "process_SLnK")):
        other = "in_link_slots" if attr == "in_links" else "in_links"
        for initial, data, want in cases:
            r = new_reader(mtype="Amplifier")
            target = getattr(r.object, attr)
            target.extend(initial)
            ret = getattr(r, handler)(data)
            expect(ret is None, "%s returns None" % handler)
            expect(getattr(r.object, attr) is target, "%s mutates in place" % handler)
            expect(target == want, "%s %r+%r -> %r" % (handler, initial, data, target))
            expect(all(type(v) is int for v in target), "%s yields ints" % handler)
            expect(getattr(r.object, other) == [], "%s leaves %s alone" % (handler, other))
        for bad in (b"\x01", b"\x01\x00\x00", ints(1) + b"\x02", ints(1, 2) + b"\0\0\0"):
            r = new_reader(mtype="Amplifier")
            target = getattr(r.object, attr)
            target.extend([9, -1])
            try:
                getattr(r, handler)(bad)
            except struct.error:
                pass
            else:
                expect(False, "%s %r must raise struct.error" % (handler, bad))
            expect(target == [9, -1], "%s leaves list untouched on error" % handler)


def test_links_in_files():
    p = Project()
    a = p.new_module(m.Generator)
    b = p.new_module(m.Generator)
    c = p.new_module(m.Amplifier)
    p.connect([a, b], c)
    c >> p.output
    b >> p.output
    p.connect(~b, c)  # trailing -1 in c.in_links
    expect(c.in_links == [1, -1] and c.in_link_slots == [0, -1], "setup holes")
    blob = save(p)
    slnk = [d for n, d in split_chunks(blob) if n == b"SLNK"]
    expect(slnk[-1] == ints(1, -1), "file stores the hole")
    q = load(blob)
    amp = q.modules[3]
    expect(amp.in_links == [1] and amp.in_link_slots == [0], "trailing holes trimmed")
    expect(q.modules[0].in_links == [3, 2], "output links")
    expect(q.modules[0].in_link_slots == [0, 1], "output slots")
    expect(q.modules[2].out_links == [-1, 0], "generator b out links keep the hole")


# -- controller values ---------------------------------------------------------


def feed_cvals(mtype, raws):
    r = new_reader(mtype=mtype)
    for raw in raws:
        r.process_CVAL(struct.pack("<i", raw))
    with captured("rv.readers.module", logging.DEBUG) as records:
        try:
            r.process_SEND(b"")
        except ReaderFinished:
            finished = True
        else:
            finished = False
    expect(finished, "SEND finishes the reader")
    return r.object, records


def test_cval_application():
    # Amplifier has 7 controllers here; feed fewer, exactly, and more.
    amp = m.Amplifier()
    keys = [k for k, c in amp.controllers.items() if c.attached(amp)]
    defaults = {k: plain(v) for k, v in amp.controller_values.items()}
    n = len(keys)

    mod, records = feed_cvals("Amplifier", [])
    expect({k: plain(v) for k, v in mod.controller_values.items()} == defaults, "no CVAL")
    expect(records == [], "no CVAL, no log output")

    raws = [100, 5, 1]
    mod, records = feed_cvals("Amplifier", raws)
    expect(
        records
        == [
            ("DEBUG", "Setting %s from raw %d" % (keys[i], raws[i]))
            for i in reversed(range(len(raws)))
        ],
        "partial CVAL debug order: %r" % (records,),
    )
    expect(mod.volume == 100, "volume set")
    expect(mod.controller_values[keys[3]] == amp.controller_values[keys[3]], "rest default")

    full = list(range(1, n + 1))
    extra = full + [77, 88, 99]
    mod, records = feed_cvals("Amplifier", extra)
    want = [
        ("WARNING", "Unsupported controller at index %d with raw value %d" % (i, extra[i]))
        for i in (n + 2, n + 1, n)
    ] + [
        ("DEBUG", "Setting %s from raw %d" % (keys[i], extra[i]))
        for i in reversed(range(n))
    ]
    expect(records == want, "extra CVAL log order: %r" % (records,))
    expect(set(keys) <= mod.controllers_loaded, "controllers_loaded filled")

    # A type without controllers: every CVAL is unsupported.
    mod, records = feed_cvals("Feedback", [])
    nfb = len([k for k, c in mod.controllers.items() if c.attached(mod)])
    mod, records = feed_cvals("Feedback", list(range(nfb)) + [5, 6])
    expect(
        [r for r in records if r[0] == "WARNING"]
        == [
            ("WARNING", "Unsupported controller at index %d with raw value %d" % (nfb + 1, 6)),
            ("WARNING", "Unsupported controller at index %d with raw value %d" % (nfb, 5)),
        ],
        "feedback warnings: %r" % (records,),
    )

    # Dependent ranges (Lfo frequency depends on its unit) rely on the
    # last-to-first application order.
    for unit_raw in range(0, 7):
        lfo = m.Lfo()
        lkeys = [k for k, c in lfo.controllers.items() if c.attached(lfo)]
        raws = [0] * len(lkeys)
        if "frequency_unit" not in lkeys:
            break
        raws[lkeys.index("frequency_unit")] = unit_raw
        raws[lkeys.index("freq")] = 200
        try:
            mod, records = feed_cvals("LFO", raws)
        except Exception as e:  # noqa
            expect(False, "LFO unit %d failed %r" % (unit_raw, e))
            continue
        expect(mod.freq == 200, "LFO freq loaded for unit %d: %r" % (unit_raw, mod.freq))
        expect(mod.frequency_unit.value == unit_raw, "LFO unit loaded")


def test_metamodule_user_defined():
    mod, records = feed_cvals("MetaModule", [])
    r = new_reader(mtype="MetaModule")
    base = [k for k, c in r.object.controllers.items() if c.attached(r.object)]
    expect(
        r._controller_keys[len(base) :] == ["user_defined_%d" % i for i in range(1, 97)],
        "MetaModule user defined keys 1..96",
    )
    expect(len(r._controller_keys) == len(set(r._controller_keys)), "keys unique")


# -- CMID / options ----------------------------------------------------------


def cmid_record(message_type, channel, slope, parameter):
    return struct.pack("<BBBBHBB", message_type, channel, slope, 0, parameter, 0, 0xC8)


def test_load_cmid():
    names = list(m.Amplifier().controllers.keys())
    recs = [cmid_record(1 + i % 8, i, i % 6, 1000 + i) for i in range(len(names) + 2)]
    for count in range(0, len(names) + 3):
        for tail in (b"", b"\x01", b"\x01\x02\x03\x04\x05\x06\x07"):
            mod = m.Amplifier()
            ret = mod.load_cmid(b"".join(recs[:count]) + tail)
            expect(ret is None, "load_cmid returns None")
            used = min(count, len(names))
            expect(
                list(mod.controller_midi_maps.keys()) == names[:used],
                "load_cmid touches %d maps (count=%d tail=%d): %r"
                % (used, count, len(tail), list(mod.controller_midi_maps.keys())),
            )
            for i in range(used):
                c = mod.controller_midi_maps[names[i]]
                expect(
                    (c.message_type.value, c.channel, c.slope.value, c.message_parameter)
                    == (1 + i % 8, i, i % 6, 1000 + i),
                    "cmid record %d" % i,
                )
    mod = m.Amplifier()
    try:
        mod.load_cmid(cmid_record(1, 0, 0, 0) + cmid_record(99, 0, 0, 0))
    except ValueError:
        pass
    else:
        expect(False, "bad message type must raise ValueError")
    expect(list(mod.controller_midi_maps.keys()) == names[:2], "maps up to the bad one")


def test_cmid_round_trip():
    p = Project()
    g = p.new_module(m.AnalogGenerator)
    g >> p.output
    for i, name in enumerate(g.controllers):
        cm = g.controller_midi_maps[name]
        cm.channel = i % 16
        cm.message_type = list(MidiMessageType)[i % 9]
        cm.slope = list(Slope)[i % 6]
        cm.message_parameter = 300 * i
    q = load(save(p))
    expect(
        module_state(q.modules[1])["cmid"] == module_state(g)["cmid"],
        "CMID maps round trip",
    )


def test_load_options():
    h = hashlib.sha256()
    rng = random.Random(7)
    for mtype, cls in sorted(MODULE_CLASSES.items()):
        if not cls.options:
            continue
        for length in (0, 1, 3, 13, 63, 64, 65, 80):
            for _ in range(4):
                chunk = Chunk()
                chunk.chnm = cls.options_chnm
                chunk.chdt = bytes(rng.randrange(256) for _ in range(length))
                mod = cls()
                ret = mod.load_options(chunk)
                expect(ret is None, "load_options returns None")
                for opt in cls.options.values():
                    byte = chunk.chdt[opt.byte] if opt.byte < length else 0
                    want = (byte >> opt.bit) & ((1 << opt.size) - 1)
                    got = mod.option_values[opt.name]
                    expect(got == want, "%s.%s from %d bytes" % (mtype, opt.name, length))
                    expect(
                        type(got) is (bool if opt.size == 1 else int),
                        "%s.%s type %s" % (mtype, opt.name, type(got).__name__),
                    )
                h.update(repr(sorted(mod.option_values.items())).encode())
    chunk = Chunk()
    try:
        m.MultiSynth().load_options(chunk)  # chdt is None
    except TypeError:
        pass
    else:
        expect(False, "load_options with no data must raise TypeError")
    return h.hexdigest()


# -- generative round trip -----------------------------------------------------


def random_value(rng, mod, name):
    ctl = mod.controllers[name]
    t = ctl.instance_value_type(mod)
    if t is None:
        return None
    if isinstance(t, Range):
        return rng.choice([t.min, t.max, rng.randint(t.min, t.max)])
    if isinstance(t, type) and issubclass(t, Enum):
        return rng.choice(list(t))
    if t is bool:
        return rng.random() < 0.5
    return None


NAMES = [
    "",
    "a",
    "Plain name",
    "x" * 31,
    "x" * 32,
    "x" * 33,
    "é" * 15,
    "é" * 16,
    "x" + "é" * 16,
    "日本語" * 4,
    "xx" + "日" * 10 + "tail",
    "\U0001f3b9" * 9,
    "tab\tand\nnewline",
]


def build_random_module(rng, cls):
    mod = cls(
        name=rng.choice(NAMES),
        x=rng.randint(-2000, 2000),
        y=rng.randint(-2000, 2000),
        layer=rng.randint(0, 7),
        mod_scale=rng.randint(0, 1024),
        color=(rng.randrange(256), rng.randrange(256), rng.randrange(256)),
        midi_in_always=rng.random() < 0.5,
        midi_in_channel=rng.randint(0, 16),
        midi_out_name=rng.choice([None, "", "Port 1", "über port"]),
        midi_out_channel=rng.randint(0, 16),
        midi_out_bank=rng.randint(-1, 16383),
        midi_out_program=rng.randint(-1, 127),
        finetune=rng.randint(-256, 256),
        relative_note=rng.randint(-64, 64),
    )
    independent = [
        k for k, c in mod.controllers.items() if not isinstance(c.value_type, DependentRange)
    ]
    dependent = [k for k in mod.controllers if k not in independent]
    for name in independent + dependent:
        if not mod.controllers[name].attached(mod):
            continue
        if rng.random() < 0.7:
            try:
                v = random_value(rng, mod, name)
            except Exception:  # noqa
                continue
            if v is not None:
                try:
                    setattr(mod, name, v)
                except Exception:  # noqa
                    pass
    for name, opt in mod.options.items():
        if rng.random() < 0.6:
            try:
                if opt.size == 1:
                    setattr(mod, name, rng.random() < 0.5)
                else:
                    setattr(mod, name, rng.randrange(1 << opt.size))
            except Exception:  # noqa
                pass
    for name in mod.controllers:
        if rng.random() < 0.2:
            cm = mod.controller_midi_maps[name]
            cm.channel = rng.randrange(17)
            cm.message_type = rng.choice(list(MidiMessageType))
            cm.slope = rng.choice(list(Slope))
            cm.message_parameter = rng.randrange(0x10000)
    return mod


def test_generative_round_trip():
    rng = random.Random(424242)
    h = hashlib.sha256()
    classes = [c for t, c in sorted(MODULE_CLASSES.items()) if t != "Output"]
    expect(len(classes) == 42, "42 attachable module types")
    for round_no in range(3):
        for cls in classes:
            p = Project()
            try:
                mod = build_random_module(rng, cls)
            except Exception as e:  # noqa
                h.update(repr(("build", cls.__name__, type(e).__name__)).encode())
                continue
            p.attach_module(mod)
            other = p.new_module(m.Amplifier)
            mod >> other >> p.output
            mod >> p.output
            try:
                blob = save(p)
            except Exception as e:  # noqa
                h.update(repr(("save", cls.__name__, type(e).__name__)).encode())
                continue
            with captured("rv", logging.WARNING) as records:
                try:
                    q = load(blob)
                except Exception as e:  # noqa
                    h.update(repr(("load", cls.__name__, type(e).__name__, e.args)).encode())
                    continue
            state = [module_state(x) for x in q.modules]
            h.update(repr(state).encode())
            h.update(repr(records).encode())
            # second generation is a fixed point, byte for byte
            blob2 = save(q)
            r = load(blob2)
            expect(
                [module_state(x) for x in r.modules] == state,
                "%s: reload is a fixed point" % cls.__name__,
            )
            expect(save(r) == blob2, "%s: third save identical" % cls.__name__)
            # also as a .sunsynth
            try:
                sblob = save(Synth(q.modules[1]))
                s = load(sblob)
            except Exception as e:  # noqa
                h.update(repr(("synth", cls.__name__, type(e).__name__)).encode())
            else:
                st = module_state(s.module)
                h.update(repr(st).encode())
                expect(st["ctl"] == state[1]["ctl"], "%s: synth controllers" % cls.__name__)
                expect(st["opt"] == state[1]["opt"], "%s: synth options" % cls.__name__)
                expect(st["name"] == state[1]["name"], "%s: synth name" % cls.__name__)
    return h.hexdigest()


def test_name_limit():
    for name in NAMES:
        p = Project()
        g = p.new_module(m.Generator, name=name)
        q = load(save(p))
        raw = name.encode("utf8")[:32]
        want = raw.decode("utf8", "ignore")
        expect(q.modules[1].name == want, "name %r -> %r" % (name, q.modules[1].name))
        expect(len(q.modules[1].name.encode("utf8")) <= 32, "stored name fits")
        expect(name.startswith(q.modules[1].name), "stored name is a prefix")


OPTIONS_GOLDEN = "9dd236033baa469f4be22e17dffd89787e1dc12c7b2179b19cc06d69a08addb6"
ROUND_TRIP_GOLDEN = "f143588e4bf9393d31622504bacc848ce1d1a2b7dccec1b39ffa2c935be26960"


def main():
    logging.getLogger("rv").setLevel(logging.ERROR)
    test_text_chunks()
    test_styp()
    test_smii()
    test_link_chunks()
    test_links_in_files()
    test_cval_application()
    test_metamodule_user_defined()
    test_load_cmid()
    test_cmid_round_trip()
    options_digest = test_load_options()
    round_trip_digest = test_generative_round_trip()
    test_name_limit()
    if "--print-golden" in sys.argv:
        print("options:", options_digest)
        print("roundtrip:", round_trip_digest)
    else:
        expect(options_digest == OPTIONS_GOLDEN, "options digest %s" % options_digest)
        expect(
            round_trip_digest == ROUND_TRIP_GOLDEN,
            "round trip digest %s" % round_trip_digest,
        )
    if FAILURES:
        print("%d FAILURE(S)" % len(FAILURES))
        sys.exit(1)
    print("PASS")


if __name__ == "__main__":
    main()
