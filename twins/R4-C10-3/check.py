"""Behaviour check for Controller.pattern_value, Controller.instance_value_type
and DependentRange.parent.

For every controller of every module type (every unit variant of the
unit-dependent ranges) the pattern-column value of EVERY value of the range is
compared with the reference formula, and checked to be monotone with
min -> 0x0000 and max -> 0x8000 (compact ranges: value - min; enums and bools
pass through). DependentRange.parent is driven through all of its branches
with stub instances. The raw encodings are exercised as well.

Run as:  cd <root> && PYTHONPATH=<root>/src/python python check.py
"""
import logging
import sys
from enum import Enum

from rv import errors
from rv.controller import (
    CompactRange,
    Controller,
    DependentRange,
    NoOffsetRange,
    Range,
    WarnOnlyRange,
)
from rv.errors import (
    ControllerValueError,
    RangeValidationError,
    override_raise_controller_value_errors,
)
from rv.modules import MODULE_CLASSES

failures = []
checked = 0


def check(cond, msg):
    global checked
    checked += 1
    if not cond:
        failures.append(msg)


def same(a, b):
    """Equal in value AND in type (True is not 1 here)."""
    return type(a) is type(b) and a == b


class Capture(logging.Handler):
    def __init__(self):
        super().__init__()
        self.records = []

    def emit(self, record):
        self.records.append(record)


capture = Capture()
logging.getLogger("rv").addHandler(capture)
logging.getLogger("rv").setLevel(logging.DEBUG)
logging.getLogger("rv").propagate = False


def expected_raw(t, v):
    if type(t) is NoOffsetRange:
        return v
    if t.min < 0:
        return v - t.min
    return v


def sample_values(t):
    lo, hi = t.min, t.max
    span = hi - lo
    if span <= 4096:
        return range(lo, hi + 1)
    vals = set(range(lo, hi + 1, 53))
    vals.update((lo, lo + 1, lo + 2, hi - 2, hi - 1, hi, (lo + hi) // 2, 0, 1, -1))
    return sorted(v for v in vals if lo <= v <= hi)


# ---------------------------------------------------------------- direct use

KINDS = (Range, WarnOnlyRange, CompactRange, NoOffsetRange)
BOUNDS = [(-5, 5), (0, 10), (3, 9), (-128, 128), (-1, 0), (-32768, 32767), (1, 1), (0, 0)]

for kind in KINDS:
    for lo, hi in BOUNDS:
        t = kind(lo, hi)
        check(repr(t) == f"<{kind.__name__} {lo}..{hi}>", f"repr {t!r}")
        check(t == kind(lo, hi), f"eq {t!r}")
        for other in KINDS:
            if other is not kind:
                check(t != other(lo, hi), f"ne {t!r} {other}")
        raws = set()
        for v in range(lo, hi + 1) if hi - lo < 1000 else sample_values(t):
            raw = t.to_raw_value(v)
            check(same(raw, expected_raw(t, v)), f"{t!r}.to_raw_value({v}) = {raw!r}")
            check(same(t.from_raw_value(raw), v), f"{t!r} roundtrip {v}")
            if kind is not NoOffsetRange:
                check(raw >= 0 or lo >= 0, f"{t!r} negative raw {raw}")
            raws.add(raw)
            check(t(v) is v, f"{t!r}({v}) passes value through")
        if kind is not NoOffsetRange and lo < 0:
            check(t.to_raw_value(lo) == 0, f"{t!r} min -> 0")
            check(t.from_raw_value(0) == lo, f"{t!r} 0 -> min")

# types are preserved exactly when nothing is shifted
check(Range(0, 1).to_raw_value(True) is True, "bool passthrough to_raw")
check(Range(0, 1).from_raw_value(False) is False, "bool passthrough from_raw")
check(NoOffsetRange(-1, 1).to_raw_value(True) is True, "bool passthrough nooffset")
check(same(Range(-1, 1).to_raw_value(True), 2), "bool shifted")
check(same(Range(-1, 1).from_raw_value(True), 0), "bool shifted back")
check(same(Range(-2, 2).to_raw_value(0.5), 2.5), "float shifted")
check(same(Range(0, 2).to_raw_value(0.5), 0.5), "float unshifted")
check(same(NoOffsetRange(-2, 2).from_raw_value(-1.5), -1.5), "float nooffset")
# values beyond the range are still converted (validation is separate)
check(same(Range(-10, 10).to_raw_value(-11), -1), "below min to_raw")
check(same(Range(-10, 10).from_raw_value(100), 90), "above max from_raw")
check(same(NoOffsetRange(-10, 10).from_raw_value(-11), -11), "nooffset below")
# NoOffsetRange never inspects min
check(NoOffsetRange(None, None).to_raw_value(7) == 7, "nooffset ignores min")
check(NoOffsetRange(None, None).from_raw_value(-7) == -7, "nooffset ignores min")

# validate / __call__
for kind in (Range, CompactRange, NoOffsetRange):
    t = kind(-3, 4)
    for bad in (-4, 5, 1000, -1000, 4.5):
        try:
            t(bad)
        except RangeValidationError as e:
            check(e.args == (bad, -3, 4), f"{t!r} error args {e.args}")
        else:
            check(False, f"{t!r}({bad}) did not raise")
    for good in (-3, 4, 0, 3.5):
        check(t(good) == good, f"{t!r}({good})")
    nan = float("nan")
    check(t(nan) is nan, f"{t!r}(nan) is not rejected")

del capture.records[:]
w = WarnOnlyRange(1, 10)
check(w(11) == 11 and w(0) == 0 and w.validate(99) is None, "warn-only passes")
check(len(capture.records) == 3, f"warn-only logged {len(capture.records)}")
check(
    all(r.levelno == logging.WARNING and r.name == "rv.controller" for r in capture.records),
    "warn-only level/logger",
)
check(
    [r.getMessage() for r in capture.records]
    == [str(RangeValidationError(v, 1, 10)) for v in (11, 0, 99)],
    "warn-only messages",
)
del capture.records[:]
check(w(1) == 1 and w(10) == 10 and not capture.records, "warn-only in range silent")

# Controller wraps tuples in a plain Range
c = Controller((-7, 7), 0)
check(type(c.value_type) is Range and c.value_type == Range(-7, 7), "tuple -> Range")

# ---------------------------------------------------------- through modules


def assign(mod, name, value):
    """Validated assignment, without MetaModule's propagation to embedded modules."""
    mod.controllers[name].controller(mod).set_initial(mod, value)


def variants(mod, ctl):
    vt = ctl.value_type
    if isinstance(vt, DependentRange):
        for unit in vt.range_map:
            setattr(mod, vt.ctl_name, unit)
            check(ctl.instance_value_type(mod) is vt.range_map[unit], "dependent pick")
            yield ctl.instance_value_type(mod)
    else:
        yield ctl.instance_value_type(mod)


for mtype, cls in sorted(MODULE_CLASSES.items()):
    mod = cls()
    for name, ctl in cls.controllers.items():
        for t in variants(mod, ctl):
            where = f"{mtype}.{name} {t!r}"
            if isinstance(t, Range):
                seen = {}
                for v in sample_values(t):
                    assign(mod, name, v)
                    raw = mod.get_raw(name)
                    check(same(raw, expected_raw(t, v)), f"{where} get_raw({v}) = {raw!r}")
                    check(raw not in seen, f"{where} collision at raw {raw}")
                    seen[raw] = v
                    mod.controller_values[name] = None
                    mod.set_raw(name, raw)
                    check(same(getattr(mod, name), v), f"{where} set_raw({raw}) -> {getattr(mod, name)!r}")
                # one past each end
                for raw_bad in (expected_raw(t, t.max) + 1, expected_raw(t, t.min) - 1):
                    val_bad = raw_bad + t.min if (t.min < 0 and type(t) is not NoOffsetRange) else raw_bad
                    mod.controller_values[name] = "sentinel"
                    del capture.records[:]
                    if isinstance(t, WarnOnlyRange):
                        mod.set_raw(name, raw_bad)
                        check(same(getattr(mod, name), val_bad), f"{where} warn-only stores {val_bad}")
                        check(len(capture.records) == 1, f"{where} warn-only logs once")
                        continue
                    try:
                        mod.set_raw(name, raw_bad)
                    except ControllerValueError as e:
                        msg = "{:x}({}).{}={} is not within [{}, {}]".format(
                            0, mod.mtype, name, val_bad, t.min, t.max
                        )
                        check(e.args == (msg,), f"{where} error message {e.args}")
                        check(isinstance(e.__cause__, RangeValidationError), f"{where} cause")
                        check(e.__cause__.args == (val_bad, t.min, t.max), f"{where} cause args")
                        check(mod.controller_values[name] == "sentinel", f"{where} untouched on error")
                    else:
                        check(False, f"{where} set_raw({raw_bad}) did not raise")
                    with override_raise_controller_value_errors(False):
                        mod.set_raw(name, raw_bad)
                    check(same(getattr(mod, name), val_bad), f"{where} lenient stores {val_bad}")
                    check(len(capture.records) == 1, f"{where} lenient logs once")
                assign(mod, name, ctl.default)
            elif isinstance(t, type) and issubclass(t, Enum):
                for member in t:
                    assign(mod, name, member)
                    check(same(mod.get_raw(name), member.value), f"{where} get_raw {member}")
                    mod.controller_values[name] = None
                    mod.set_raw(name, member.value)
                    check(getattr(mod, name) is member, f"{where} set_raw {member}")
                mod.controller_values[name] = None
                check(mod.get_raw(name) == 0, f"{where} None -> 0")
                assign(mod, name, ctl.default)
            elif t is bool:
                for b in (False, True):
                    assign(mod, name, b)
                    check(same(mod.get_raw(name), int(b)), f"{where} get_raw {b}")
                    mod.set_raw(name, int(b))
                    check(getattr(mod, name) is b, f"{where} set_raw {b}")
                mod.set_raw(name, 7)
                check(getattr(mod, name) is True, f"{where} set_raw 7 -> True")
                assign(mod, name, ctl.default)
            else:
                check(False, f"{where}: unexpected value type")


# ------------------------------------------------------------ pattern values


class Stub:
    """Just enough of a module for instance_value_type / DependentRange."""

    def __init__(self, loaded, values):
        self.controllers_loaded = loaded
        self.controller_values = values


def reference_pattern_value(t, v):
    shifted = v - t.min
    shifted_max = t.max - t.min
    if isinstance(t, CompactRange):
        return shifted
    return int(shifted / (shifted_max / 32768))


done = set()
for mtype, cls in sorted(MODULE_CLASSES.items()):
    mod = cls()
    for name, ctl in cls.controllers.items():
        for t in variants(mod, ctl):
            where = f"{mtype}.{name} {t!r}"
            if isinstance(t, Range):
                lo_pv = ctl.pattern_value(mod, t.min)
                hi_pv = ctl.pattern_value(mod, t.max)
                check(same(lo_pv, 0), f"{where} min -> {lo_pv!r}")
                if isinstance(t, CompactRange):
                    check(same(hi_pv, t.max - t.min), f"{where} max -> {hi_pv!r}")
                else:
                    check(same(hi_pv, 0x8000), f"{where} max -> {hi_pv!r}")
                key = (type(t), t.min, t.max)
                values = sample_values(t) if key in done else range(t.min, t.max + 1)
                done.add(key)
                prev = -1
                bad = 0
                for v in values:
                    pv = ctl.pattern_value(mod, v)
                    if not (same(pv, reference_pattern_value(t, v)) and pv >= prev):
                        bad += 1
                        failures.append(f"{where} pattern_value({v}) = {pv!r}")
                    prev = pv
                check(bad == 0, f"{where} pattern values")
                # beyond the range: still plain arithmetic, no validation
                for v in (t.min - 1, t.max + 1, t.min - 1000):
                    check(
                        same(ctl.pattern_value(mod, v), reference_pattern_value(t, v)),
                        f"{where} pattern_value({v}) outside range",
                    )
            elif isinstance(t, type) and issubclass(t, Enum):
                for member in t:
                    check(ctl.pattern_value(mod, member) is member, f"{where} enum passthrough")
                check(ctl.pattern_value(mod, 3) == 3, f"{where} int passthrough")
            else:
                check(ctl.pattern_value(mod, True) is True, f"{where} bool passthrough")
                check(ctl.pattern_value(mod, None) is None, f"{where} None passthrough")

# free-standing controllers
plain = Controller((-100, 100), 0)
compact = Controller(CompactRange(-128, 128), 0)
signed = Controller(NoOffsetRange(-128, 128), 0)
warn = Controller(WarnOnlyRange(1, 256), 1)
flag = Controller(bool, False)
stub = Stub(set(), {})
check(same(plain.pattern_value(stub, 0), 16384), "plain mid")
check(same(plain.pattern_value(stub, 100), 32768), "plain max")
check(same(plain.pattern_value(stub, -100), 0), "plain min")
check(same(plain.pattern_value(stub, 0.5), int(100.5 / (200 / 32768))), "plain float")
check(same(compact.pattern_value(stub, -2), 126), "compact -2")
check(same(compact.pattern_value(stub, 1.5), 129.5), "compact float stays float")
check(same(signed.pattern_value(stub, -128), 0), "no-offset range still scaled")
check(same(signed.pattern_value(stub, 128), 0x8000), "no-offset range max")
check(same(warn.pattern_value(stub, 256), 0x8000), "warn-only max")
check(same(warn.pattern_value(stub, 1), 0), "warn-only min")
check(flag.pattern_value(stub, "x") == "x", "non-range passthrough")
for ctl_, arg, exc_type in (
    (Controller((5, 5), 5), 5, ZeroDivisionError),
    (plain, None, TypeError),
    (compact, "a", TypeError),
):
    try:
        ctl_.pattern_value(stub, arg)
    except Exception as e:  # noqa: BLE001
        check(type(e) is exc_type, f"expected {exc_type.__name__}, got {e!r}")
    else:
        check(False, f"expected {exc_type.__name__}")
for c_ in (plain, compact, signed, warn, flag):
    check(c_.instance_value_type(stub) is c_.value_type, "instance_value_type identity")
    check(c_.instance_value_type(None) is c_.value_type, "instance_value_type ignores instance")

# ------------------------------------------------------------ DependentRange

r_a, r_b, r_default = Range(0, 10), CompactRange(-4, 4), WarnOnlyRange(1, 2048)
dep = DependentRange("unit", {"a": r_a, "b": r_b, 0: r_a}, r_default)
dctl = Controller(dep, 1)
check(repr(dep) == "<DependentRange (varies)>", "dependent repr")
check(dep.ctl_name == "unit" and dep.default is r_default, "dependent attrs")
cases = [
    (Stub(set(), {"unit": "a"}), r_default, "nothing loaded"),
    (Stub(None, {"unit": "a"}), r_default, "loaded is None"),
    (Stub([], {"unit": "a"}), r_default, "loaded is empty list"),
    (Stub({"other"}, {"unit": "a"}), r_default, "unit not loaded"),
    (Stub({"unit"}, {}), r_default, "unit loaded but no value"),
    (Stub({"unit"}, {"unit": None}), r_default, "unit value None"),
    (Stub({"unit", "other"}, {"unit": "a"}), r_a, "unit a"),
    (Stub(["unit"], {"unit": "b"}), r_b, "unit b (list)"),
    (Stub({"unit"}, {"unit": 0}), r_a, "falsy unit 0 is still a key"),
]
for inst, want, label in cases:
    check(dep.parent(inst) is want, f"parent: {label}")
    check(dctl.instance_value_type(inst) is want, f"instance_value_type: {label}")
try:
    dep.parent(Stub({"unit"}, {"unit": "zzz"}))
except KeyError as e:
    check(e.args == ("zzz",), "unknown unit KeyError")
else:
    check(False, "unknown unit accepted")
try:
    dep.parent(Stub({"other"}, {"unit": "zzz"}))
    check(True, "")
except KeyError:
    check(False, "unknown unit looked up although not loaded")
inst = Stub({"unit"}, {"unit": "b"})
check(same(dctl.pattern_value(inst, -2), 2), "dependent compact pattern value")
inst.controller_values["unit"] = "a"
check(same(dctl.pattern_value(inst, 10), 0x8000), "dependent scaled pattern value")
inst.controllers_loaded = set()
check(same(dctl.pattern_value(inst, 2048), 0x8000), "dependent default pattern value")

# a fresh module resolves dependent ranges from its (default) unit; a module
# whose controllers are not loaded yet falls back to the declared default
from rv.modules import Echo, Lfo  # noqa: E402

for cls_, cname in ((Lfo, "freq"), (Echo, "delay")):
    m = cls_()
    c = cls_.controllers[cname]
    dr = c.value_type
    check(c.instance_value_type(m) is dr.range_map[getattr(m, dr.ctl_name)], f"{cls_.__name__} resolved")
    m.controllers_loaded = set()
    check(c.instance_value_type(m) is dr.default, f"{cls_.__name__} default when unloaded")
    m.controllers_loaded = {cname}
    check(c.instance_value_type(m) is dr.default, f"{cls_.__name__} default when unit unloaded")

check(errors.RAISE_CONTROLLER_VALUE_ERRORS is True, "flag restored")

if failures:
    print(f"FAIL: {len(failures)} of {checked} checks")
    for f in failures[:40]:
        print("  ", f)
    sys.exit(1)
print(f"PASS ({checked} checks)")
